#!/usr/bin/env python3-vt
"""check.py <Cnn> [--tier quick|thorough] | --replay <file> | --selftest

Decides one property by discharging the contract obligations registered for it
(contracts/Cnn_*.py) against the *current* /repo working tree.  Exit 0: held on everything
explored (KNOWN-FINDING / UNDECIDED lines may be printed); exit 1: >=1 unlisted violation
(`VIOLATION property=<id> replay=<path>`); exit 3: engine self-check failed."""
import sys, os, json, time, glob, importlib, traceback, multiprocessing as mp, hashlib

VERIF = os.path.dirname(os.path.abspath(__file__))
sys.path.insert(0, VERIF)
REPO_SRC = os.environ.get("MICROJS_SRC", "/repo/src")
sys.path.insert(0, REPO_SRC)
os.environ.setdefault("PYTHONHASHSEED", "0")


def load_modules(prop):
    mods = []
    for f in sorted(glob.glob(os.path.join(VERIF, "contracts", f"{prop}_*.py"))):
        mods.append(importlib.import_module("contracts." + os.path.basename(f)[:-3]))
    return mods


def load_findings(prop):
    p = os.path.join(VERIF, "known_findings.json")
    if not os.path.exists(p):
        return []
    return [f for f in json.load(open(p)) if f.get("property") == prop and f.get("status", "open") == "open"]


# ------------------------------------------------------------------------------------------
# workers
# ------------------------------------------------------------------------------------------
def _contract(prop, cid):
    from pyvc import api
    load_modules(prop)
    for c in api.REGISTRY:
        if c.id == cid:
            return c
    raise KeyError(cid)


def w_symbolic(prop, cid, tier, findings, q):
    try:
        from pyvc.run import Runner
        from pyvc import api
        c = _contract(prop, cid)
        r = Runner()
        if tier == "thorough":
            c.timeout_ms = max(c.timeout_ms, 30000)
        res = r.run_symbolic(c, [f for f in findings if f.get("contract") == cid],
                             budget_s=(280 if tier == "quick" else 1500))
        out = {"id": cid, "status": res.status, "detail": res.detail, "wall_s": round(res.wall_s, 2),
               "paths": {}, "obligations": {}, "uf": sorted(res.uf), "inlined": sorted(res.inlined),
               "summarised": sorted(res.summarised), "source_hash": res.source_hash, "target": res.target,
               "crosscheck": {}}
        for pr in res.paths:
            out["paths"][pr.status] = out["paths"].get(pr.status, 0) + 1
            if pr.crosscheck:
                k = pr.crosscheck["status"]
                out["crosscheck"][k] = out["crosscheck"].get(k, 0) + 1
                if k == "mismatch":
                    out.setdefault("crosscheck_mismatch", []).append(pr.crosscheck)
        for name, a in res.obligations.items():
            o = {"status": a["status"], "paths": a["paths"], "why": sorted(a["why"])[:3], "refutations": [],
                 "sat": bool(a.get("sat")), "model": a.get("model", "")}
            for ob in a["refutations"][:3]:
                o["refutations"].append({"inputs": {k: api.encode_value(v) for k, v in (ob.get("inputs") or {}).items()},
                                         "inputs_repr": ob.get("inputs_repr"), "confirmed": ob.get("confirmed"),
                                         "model": ob.get("model_text", "")[:600]})
            out["obligations"][name] = o
        q.put(out)
    except BaseException as e:  # noqa
        q.put({"id": cid, "status": "crash", "detail": traceback.format_exc()[-1500:], "obligations": {}, "paths": {}})


def w_grid(prop, cid, tier, findings, seed, q):
    try:
        from pyvc.run import Runner
        from pyvc import api, grid
        c = _contract(prop, cid)
        r = Runner()
        g = grid.run_grid(r, c, seed=seed, budget=(3000 if tier == "quick" else 60000),
                          findings=[f for f in findings if f.get("contract") == cid],
                          time_budget_s=(25 if tier == "quick" else 300))
        g["failures"] = [({k: api.encode_value(v) for k, v in inp.items()}, repr(inp)[:300], names) for inp, names in g["failures"]]
        g["id"] = cid
        q.put(g)
    except BaseException as e:  # noqa
        q.put({"id": cid, "evaluations": 0, "distinct": 0, "failures": [], "skipped": "crash: " + traceback.format_exc()[-800:]})


def w_group(prop, gid, tier, seed, q):
    """non-contract obligation groups (structural / exhaustion / scheme): functions returning obligation dicts"""
    try:
        from pyvc import groups
        load_modules(prop)
        g = [x for x in groups.REGISTRY if x.id == gid][0]
        t0 = time.time()
        obs = g.fn(tier=tier, seed=seed)
        q.put({"id": gid, "kind": g.kind, "obligations": obs, "wall_s": round(time.time() - t0, 2)})
    except BaseException as e:  # noqa
        q.put({"id": gid, "kind": "?", "obligations": [{"id": gid + ".<engine>", "status": "unknown", "why": traceback.format_exc()[-1200:]}], "wall_s": 0})


def _in_own_group(target, *args):
    """a worker is the leader of its own process group, so that the pool processes it starts die with it on a time-out"""
    try:
        os.setpgid(0, 0)
    except OSError:
        pass
    target(*args)


def _kill_group(p):
    import signal
    try:
        os.killpg(p.pid, signal.SIGKILL)
    except (ProcessLookupError, PermissionError, OSError):
        p.kill()


def run_tasks(tasks, nproc, timeout_s):
    """tasks: list of (key, target, args).  Each runs in its own process (killed on timeout)."""
    ctx = mp.get_context("fork")
    pending = list(tasks)
    running = []
    results = {}
    while pending or running:
        while pending and len(running) < nproc:
            key, target, args = pending.pop(0)
            q = ctx.Queue()
            p = ctx.Process(target=_in_own_group, args=(target,) + args + (q,))
            p.start()
            running.append((key, p, q, time.time()))
        time.sleep(0.05)
        still = []
        for key, p, q, t0 in running:
            got = None
            try:
                got = q.get_nowait()
            except Exception:  # noqa
                pass
            if got is not None:
                results[key] = got
                p.join(2)
                if p.is_alive():
                    p.kill()
            elif not p.is_alive():
                try:
                    results[key] = q.get(timeout=1)
                except Exception:  # noqa
                    results[key] = {"id": key[1], "status": "crash", "detail": f"worker died (exit {p.exitcode})", "obligations": {}, "paths": {}}
            elif time.time() - t0 > timeout_s:
                _kill_group(p)
                p.join()
                results[key] = {"id": key[1], "status": "timeout", "detail": f"killed after {timeout_s}s", "obligations": {}, "paths": {}}
            else:
                still.append((key, p, q, t0))
        running = still
    return results


# ------------------------------------------------------------------------------------------
def replay(path):
    from pyvc.run import Runner
    from pyvc import api
    d = json.load(open(path))
    prop, cid = d["property"], d["contract"]
    if d.get("kind") != "contract":
        print(json.dumps(d, indent=1)[:3000])
        print("structural/scheme obligation: re-run `check.py", prop, "` to re-evaluate it on the current tree")
        return 0
    c = _contract(prop, cid)
    inputs = {k: api.decode_value(v) for k, v in d["inputs"].items()}
    run = Runner().run_native(c, inputs)
    if run is None:
        print("precondition false for this input")
        return 0
    print("inputs:", {k: repr(v)[:200] for k, v in inputs.items()})
    print("failed checks:", run.failed, "passed:", [n for n, _ in run.passed])
    return 1 if run.failed else 0


def main():
    a = sys.argv[1:]
    if not a:
        print(__doc__)
        return 2
    if a[0] == "--replay":
        return replay(a[1])
    if a[0] == "--selftest":
        import z3
        from pyvc.extract import Source
        s = Source()
        print("selftest ok: z3", z3.get_version_string(), "modules", len(s.modules))
        return 0
    prop = a[0]
    tier = os.environ.get("VERIF_TIER") or (a[a.index("--tier") + 1] if "--tier" in a else "quick")
    seed = int(os.environ.get("VERIF_SEED", "0"))
    only = a[a.index("--only") + 1] if "--only" in a else None
    t0 = time.time()
    from pyvc import api, groups
    mods = load_modules(prop)
    findings = load_findings(prop)
    contracts = [c for c in api.REGISTRY if c.prop == prop and (only is None or only in c.id)]
    grps = [g for g in groups.REGISTRY if g.prop == prop and (only is None or only in g.id)]
    nproc = int(os.environ.get("VERIF_NPROC", str(min(16, os.cpu_count() or 4))))
    tasks = []
    for g in grps:
        tasks.append((("group", g.id), w_group, (prop, g.id, tier, seed)))
    for c in contracts:
        if not c.canary:
            tasks.append((("grid", c.id), w_grid, (prop, c.id, tier, findings, seed)))
    for c in contracts:
        if not c.bounded_only and (c.quick or tier == "thorough"):
            tasks.append((("sym", c.id), w_symbolic, (prop, c.id, tier, findings)))
    res = run_tasks(tasks, nproc, timeout_s=(330 if tier == "quick" else 1800))
    from pyvc.report import summarise
    rc = summarise(prop, tier, seed, contracts, grps, findings, res, time.time() - t0,
                   write_baseline="--write-baseline" in a)
    return rc


if __name__ == "__main__":
    sys.exit(main())
