"""ECMA-262 operators on primitive values (13.5-13.15, 7.2.13-7.2.16, 6.1.6.1) as spec functions."""
import math
from pyvc.api import abstract, pure, TypeError_, RangeError_, INF, NAN
from microjs.values import UNDEFINED, NULL
from specs.es_core import ToNumber, ToString, ToBoolean, ToInt32, ToUint32, typeof, is_object


def is_nan(x):
    return isinstance(x, float) and math.isnan(x)


@pure
def dbl(x):
    """a Number as a double: the engine may hold a mathematical integer"""
    return float(x)


# ---- 6.1.6.1 Number:: operations (IEEE-754 binary64; A-IEEE: CPython float ops are the same) ----
def num_add(x, y):
    return dbl(x) + dbl(y)


def num_sub(x, y):
    return dbl(x) - dbl(y)


def num_mul(x, y):
    return dbl(x) * dbl(y)


def num_div(x, y):
    a = dbl(x)
    b = dbl(y)
    if math.isnan(a) or math.isnan(b):
        return NAN
    if b == 0:
        if a == 0:
            return NAN
        neg = (a < 0) != (math.copysign(1.0, b) < 0)
        return -INF if neg else INF
    return a / b


def num_rem(x, y):
    """Number::remainder: truncating division, sign of the dividend"""
    n = dbl(x)
    d = dbl(y)
    if math.isnan(n) or math.isnan(d) or n == INF or n == -INF or d == 0:
        return NAN
    if d == INF or d == -INF:
        return n
    if n == 0:
        return n
    return math.fmod(n, d)


def num_neg(x):
    return -dbl(x)


# ---- 13.15.3 ApplyStringOrNumericBinaryOperator (primitive operands) ----------------------
def op_add(a, b):
    if isinstance(a, str) or isinstance(b, str):
        return ToString(a) + ToString(b)
    return num_add(ToNumber(a), ToNumber(b))


def op_sub(a, b):
    return num_sub(ToNumber(a), ToNumber(b))


def op_mul(a, b):
    return num_mul(ToNumber(a), ToNumber(b))


def op_div(a, b):
    return num_div(ToNumber(a), ToNumber(b))


def op_mod(a, b):
    return num_rem(ToNumber(a), ToNumber(b))


def op_band(a, b):
    return ToInt32(a) & ToInt32(b)


def op_bor(a, b):
    return ToInt32(a) | ToInt32(b)


def op_bxor(a, b):
    return ToInt32(a) ^ ToInt32(b)


def _wrap32(n):
    n = n % 4294967296
    if n >= 2147483648:
        return n - 4294967296
    return n


def op_shl(a, b):
    return _wrap32(ToInt32(a) << (ToUint32(b) % 32))


def op_shr(a, b):
    return ToInt32(a) >> (ToUint32(b) % 32)


def op_ushr(a, b):
    return ToUint32(a) >> (ToUint32(b) % 32)


def op_bnot(a):
    return -ToInt32(a) - 1


def op_neg(a):
    return num_neg(ToNumber(a))


def op_pos(a):
    return ToNumber(a)


def op_not(a):
    return not ToBoolean(a)


def op_inc(a):
    return num_add(ToNumber(a), 1)


def op_dec(a):
    return num_sub(ToNumber(a), 1)


def op_typeof(a):
    return typeof(a)


# ---- 7.2.13 IsLessThan (primitives) -> True / False / None (undefined) ---------------------
def is_less_than(x, y):
    if isinstance(x, str) and isinstance(y, str):
        return x < y
    nx = ToNumber(x)
    ny = ToNumber(y)
    if is_nan(nx) or is_nan(ny):
        return None
    return nx < ny


def op_lt(a, b):
    r = is_less_than(a, b)
    return r is True


def op_gt(a, b):
    r = is_less_than(b, a)
    return r is True


def op_le(a, b):
    r = is_less_than(b, a)
    return r is False


def op_ge(a, b):
    r = is_less_than(a, b)
    return r is False


# ---- 7.2.16 IsStrictlyEqual / 7.2.15 IsLooselyEqual (primitives and object identity) -------
def is_num(v):
    return isinstance(v, (int, float)) and not isinstance(v, bool)


def strict_equals(a, b):
    if is_num(a) and is_num(b):
        if is_nan(a) or is_nan(b):
            return False
        return a == b
    if is_num(a) or is_num(b):
        return False
    if isinstance(a, bool) or isinstance(b, bool):
        return isinstance(a, bool) and isinstance(b, bool) and a == b
    if isinstance(a, str) or isinstance(b, str):
        return isinstance(a, str) and isinstance(b, str) and a == b
    return a is b


def loose_equals(a, b):
    if (a is UNDEFINED or a is NULL) and (b is UNDEFINED or b is NULL):
        return True
    if a is UNDEFINED or a is NULL or b is UNDEFINED or b is NULL:
        return False
    if is_num(a) and isinstance(b, str):
        return strict_equals(a, ToNumber(b))
    if isinstance(a, str) and is_num(b):
        return strict_equals(ToNumber(a), b)
    if isinstance(a, bool) and not isinstance(b, bool):
        return loose_equals(1 if a else 0, b)
    if isinstance(b, bool) and not isinstance(a, bool):
        return loose_equals(a, 1 if b else 0)
    return strict_equals(a, b)


def op_seq(a, b):
    return strict_equals(a, b)


def op_sne(a, b):
    return not strict_equals(a, b)


def op_eq(a, b):
    return loose_equals(a, b)


def op_ne(a, b):
    return not loose_equals(a, b)


def num_exponentiate(base, exponent):
    """6.1.6.1.3 Number::exponentiate on doubles; returns (value, exact) -- exact is False where the spec allows an
    implementation-approximated result (finite non-trivial powers)"""
    import math
    b, e = float(base), float(exponent)
    if e != e:
        return float("nan"), True
    if e == 0:
        return 1.0, True
    if b != b:
        return float("nan"), True
    odd = abs(e) < 2 ** 53 and e == math.floor(e) and int(e) % 2 == 1
    if b == math.inf:
        return (math.inf if e > 0 else 0.0), True
    if b == -math.inf:
        if e > 0:
            return (-math.inf if odd else math.inf), True
        return (-0.0 if odd else 0.0), True
    if b == 0:
        neg = math.copysign(1, b) < 0
        if e > 0:
            return (-0.0 if neg and odd else 0.0), True
        return (-math.inf if neg and odd else math.inf), True
    if e in (math.inf, -math.inf):
        a = abs(b)
        if a == 1:
            return float("nan"), True
        if (a > 1) == (e > 0):
            return math.inf, True
        return 0.0, True
    if b < 0 and abs(e) < 2 ** 53 and e != math.floor(e):
        return float("nan"), True
    try:
        r = math.pow(b, e)
    except OverflowError:
        r = math.inf if (b > 0 or not odd) else -math.inf
    except ValueError:
        r = float("nan")
    exact = (abs(b) < 2 ** 53 and b == math.floor(b) and e == math.floor(e) and 0 <= e <= 60 and abs(b) <= 2 ** 20 and abs(r) < 2 ** 53) or r in (math.inf, -math.inf) or r == 0
    return r, exact


def op_pow(a, b):
    """13.6 ** on primitives: ToNumeric of both operands, Number::exponentiate (the values the matrix uses are small
    integers, halves and special values: exact results)"""
    return num_exponentiate(float(ToNumber(a)), float(ToNumber(b)))[0]
