"""ECMA-262 21.1.3 Number.prototype.toFixed/toExponential/toPrecision/toString(radix), 19.2.4/19.2.5 parseFloat /
parseInt, 21.3.2 Math special values -- spec functions with exact rational arithmetic (fractions.Fraction)."""
import math
from fractions import Fraction
from specs.es_core import number_to_string, ES_WHITESPACE, _es_strip


class RangeErr(Exception):
    pass


def _round_half_up(q: Fraction) -> int:
    """integer n for which n - q is as close to zero as possible; the larger n on ties"""
    fl = math.floor(q)
    return fl + 1 if q - fl >= Fraction(1, 2) else fl


def to_fixed(x, f):
    if not (0 <= f <= 100):
        raise RangeErr()
    x = float(x)
    if math.isnan(x):
        return "NaN"
    if math.isinf(x):
        return "Infinity" if x > 0 else "-Infinity"
    if abs(x) >= 1e21:
        return number_to_string(x)
    s = ""
    if x < 0 or (x == 0 and math.copysign(1, x) < 0 and False):
        s, x = "-", -x
    n = _round_half_up(Fraction(x) * 10 ** f)
    m = str(n) if n != 0 else "0"
    if f != 0:
        k = len(m)
        if k <= f:
            m = "0" * (f + 1 - k) + m
            k = f + 1
        m = m[:k - f] + "." + m[k - f:]
    return s + m


def _exp_digits(x: Fraction, p: int):
    """(e, n): 10^(p-1) <= n < 10^p with n * 10^(e-p+1) - x closest to zero, larger n on ties"""
    e = math.floor(math.log10(x)) if x > 0 else 0
    # correct e by exact comparison
    while Fraction(10) ** e > x:
        e -= 1
    while Fraction(10) ** (e + 1) <= x:
        e += 1
    n = _round_half_up(x / Fraction(10) ** (e - p + 1))
    if n >= 10 ** p:
        n //= 10
        e += 1
    return e, n


def to_exponential(x, fd):
    """fd None = as many digits as necessary"""
    x = float(x)
    if math.isnan(x):
        return "NaN"
    if math.isinf(x):
        return "Infinity" if x > 0 else "-Infinity"
    if fd is not None and not (0 <= fd <= 100):
        raise RangeErr()
    s = ""
    if x < 0:
        s, x = "-", -x
    if x == 0:
        m = "0" * ((fd or 0) + 1)
        e = 0
    elif fd is None:
        from specs.es_core import shortest_digits
        m, n_ = shortest_digits(x)
        e = n_ - 1
    else:
        e, n = _exp_digits(Fraction(x), fd + 1)
        m = str(n)
    if len(m) > 1:
        m = m[0] + "." + m[1:]
    return s + m + "e" + ("+" if e >= 0 else "-") + str(abs(e))


def to_precision(x, p):
    x = float(x)
    if p is None:
        return number_to_string(x)
    if math.isnan(x):
        return "NaN"
    if math.isinf(x):
        return "Infinity" if x > 0 else "-Infinity"
    if not (1 <= p <= 100):
        raise RangeErr()
    s = ""
    if x < 0:
        s, x = "-", -x
    if x == 0:
        m = "0" * p
        e = 0
    else:
        e, n = _exp_digits(Fraction(x), p)
        m = str(n)
        if e < -6 or e >= p:
            if p != 1:
                m = m[0] + "." + m[1:]
            return s + m + "e" + ("+" if e >= 0 else "-") + str(abs(e))
    if e == p - 1:
        return s + m
    if e >= 0:
        return s + m[:e + 1] + "." + m[e + 1:]
    return s + "0." + "0" * (-(e + 1)) + m


def to_string_radix_int(x: int, radix: int):
    """Number::toString(x, radix) for integral x (fractional digits are implementation-approximated in ES)"""
    if not (2 <= radix <= 36):
        raise RangeErr()
    digs = "0123456789abcdefghijklmnopqrstuvwxyz"
    if x == 0:
        return "0"
    s, n = ("-", -x) if x < 0 else ("", x)
    out = ""
    while n:
        out = digs[n % radix] + out
        n //= radix
    return s + out


def parse_float(text: str):
    s = text.lstrip("".join(ES_WHITESPACE))
    import re
    m = re.match(r"[+-]?(Infinity|(?:[0-9]+\.?[0-9]*|\.[0-9]+)(?:[eE][+-]?[0-9]+)?)", s)
    if not m:
        return float("nan")
    t = m.group(0)
    if t.endswith("Infinity"):
        return float("-inf") if t.startswith("-") else float("inf")
    return float(t)


def parse_int(text: str, radix):
    s = _es_strip(text) if False else text.lstrip("".join(ES_WHITESPACE))
    sign = 1
    if s[:1] in ("+", "-"):
        if s[0] == "-":
            sign = -1
        s = s[1:]
    from specs.es_core import ToInt32
    r = ToInt32(radix)
    strip_prefix = True
    if r != 0:
        if r < 2 or r > 36:
            return float("nan")
        if r != 16:
            strip_prefix = False
    else:
        r = 10
    if strip_prefix and s[:2] in ("0x", "0X"):
        s = s[2:]
        r = 16
    digs = "0123456789abcdefghijklmnopqrstuvwxyz"[:r]
    end = 0
    while end < len(s) and s[end].lower() in digs and s[end].isascii():
        end += 1
    if end == 0:
        return float("nan")
    n = int(s[:end], r)
    v = float(n) if abs(n) > 2 ** 53 else n
    if sign < 0:
        return -v if v != 0 else -0.0
    return v
