"""ECMAScript abstract operations as *spec functions* (ECMA-262, 2023 numbering), written in
the restricted Python subset that pyvc executes symbolically and CPython executes natively.
They are written from the standard, never from the code under verification.

Engine representation of JS values (same as microjs): undefined/null singletons, bool, int or
float for Number, str for String, JSObject-family objects, callables for functions.
"""
import math
from pyvc.api import abstract, pure, TypeError_, RangeError_, INF, NAN
from microjs.values import UNDEFINED, NULL, JSObject

ES_WHITESPACE = frozenset(
    "\t\n\x0b\x0c\r \xa0            "
    "    　﻿")


@pure
def arg(args, i):
    """the i-th argument, or undefined when missing (ECMA-262 10.2.1.4 / built-in calling convention)"""
    return args[i] if len(args) > i else UNDEFINED


def is_object(v):
    return not (v is UNDEFINED or v is NULL or isinstance(v, (bool, int, float, str)))


# ---- 7.1.4 ToNumber ----------------------------------------------------------------------
@pure
def ToNumber(v):
    if v is UNDEFINED:
        return NAN
    if v is NULL:
        return 0
    if isinstance(v, bool):
        return 1 if v else 0
    if isinstance(v, (int, float)):
        return v
    if isinstance(v, str):
        return StringToNumber(v)
    return ObjectToNumber(v)


@abstract("obj2num")
def ObjectToNumber(v):
    """ToNumber(ToPrimitive(v, number)): runs user code; out of the leaf contracts' scope"""
    return NAN


def _es_strip(s):
    i, j = 0, len(s)
    while i < j and s[i] in ES_WHITESPACE:
        i += 1
    while j > i and s[j - 1] in ES_WHITESPACE:
        j -= 1
    return s[i:j]


@abstract("str2num")
def StringToNumber(s):
    """7.1.4.1.1 StringToNumber: StringNumericLiteral grammar, correctly rounded (A-IEEE)."""
    t = _es_strip(s)
    if t == "":
        return 0
    if t in ("Infinity", "+Infinity"):
        return INF
    if t == "-Infinity":
        return -INF
    if len(t) > 2 and t[0] == "0" and t[1] in "xXoObB":
        base = {"x": 16, "o": 8, "b": 2}[t[1].lower()]
        digits = "0123456789abcdef"[:base]
        body = t[2:].lower()
        if all(c in digits for c in body):
            return float(int(body, base))
        return NAN
    # StrDecimalLiteral
    i, n = 0, len(t)
    if t[i] in "+-":
        i += 1
    d0 = i
    while i < n and t[i] in "0123456789":
        i += 1
    int_digits = i - d0
    frac_digits = 0
    if i < n and t[i] == ".":
        i += 1
        f0 = i
        while i < n and t[i] in "0123456789":
            i += 1
        frac_digits = i - f0
    if int_digits == 0 and frac_digits == 0:
        return NAN
    if i < n and t[i] in "eE":
        i += 1
        if i < n and t[i] in "+-":
            i += 1
        e0 = i
        while i < n and t[i] in "0123456789":
            i += 1
        if i == e0:
            return NAN
    if i != n:
        return NAN
    return float(t)


# ---- 7.1.17 ToString ---------------------------------------------------------------------
@pure
def ToString(v):
    if v is UNDEFINED:
        return "undefined"
    if v is NULL:
        return "null"
    if isinstance(v, bool):
        return "true" if v else "false"
    if isinstance(v, (int, float)):
        return NumberToString(v)
    if isinstance(v, str):
        return v
    return ObjectToString(v)


@abstract("obj2str")
def ObjectToString(v):
    return "[object Object]"


@abstract("num2str")
def NumberToString(x):
    """6.1.6.1.20 Number::toString(x, 10)"""
    return number_to_string(x)


def number_to_string(x):
    if isinstance(x, int):
        if -(10 ** 21) < x < 10 ** 21:
            return str(x)
        x = float(x)
    if math.isnan(x):
        return "NaN"
    if x == 0:
        return "0"
    if x < 0:
        return "-" + number_to_string(-x)
    if math.isinf(x):
        return "Infinity"
    digits, n = shortest_digits(x)
    k = len(digits)
    if k <= n <= 21:
        return digits + "0" * (n - k)
    if 0 < n <= 21:
        return digits[:n] + "." + digits[n:]
    if -6 < n <= 0:
        return "0." + "0" * (-n) + digits
    e = n - 1
    sign = "+" if e >= 0 else "-"
    if k == 1:
        return digits + "e" + sign + str(abs(e))
    return digits[0] + "." + digits[1:] + "e" + sign + str(abs(e))


def shortest_digits(x):
    """(digits, n): x = 0.digits * 10**n with the shortest round-tripping digit string
    (A-IEEE: CPython repr is the shortest representation)"""
    r = repr(float(x))
    mant, _, exp = r.partition("e")
    e = int(exp) if exp else 0
    ip, _, fp = mant.partition(".")
    if fp == "0" and not exp:
        fp = ""
    digits = (ip + fp)
    n = len(ip) + e
    stripped = digits.lstrip("0")
    n -= len(digits) - len(stripped)
    digits = stripped.rstrip("0")
    return (digits or "0"), n


# ---- 7.1.2 ToBoolean ---------------------------------------------------------------------
@pure
def ToBoolean(v):
    if v is UNDEFINED or v is NULL:
        return False
    if isinstance(v, bool):
        return v
    if isinstance(v, (int, float)):
        if math.isnan(v) or v == 0:
            return False
        return True
    if isinstance(v, str):
        return len(v) > 0
    return True


# ---- 7.1.5 ToIntegerOrInfinity -----------------------------------------------------------
@pure
def ToIntegerOrInfinity(v):
    n = ToNumber(v)
    if math.isnan(n):
        return 0
    if n == INF:
        return INF
    if n == -INF:
        return -INF
    return math.trunc(n)


@pure
def ToIntegerClamped(v):
    """contract of the engine helper values.to_integer: ToIntegerOrInfinity with +/-Infinity
    represented by +/-2**53 (every consumer compares it with lengths below 2**53)"""
    n = ToIntegerOrInfinity(v)
    if n == INF:
        return 9007199254740992
    if n == -INF:
        return -9007199254740992
    return n


@pure
def clamp(x, lo, hi):
    """clamp an integer-or-infinity between two integers -> integer"""
    if x < lo:
        return lo
    if x > hi:
        return hi
    return x


# ---- 7.1.6 / 7.1.7 ToInt32 / ToUint32 -----------------------------------------------------
@pure
def ToUint32(v):
    n = ToNumber(v)
    if math.isnan(n) or n == INF or n == -INF or n == 0:
        return 0
    return math.trunc(n) % 4294967296


@pure
def ToInt32(v):
    u = ToUint32(v)
    if u >= 2147483648:
        return u - 4294967296
    return u


@pure
def ToUint16(v):
    n = ToNumber(v)
    if math.isnan(n) or n == INF or n == -INF or n == 0:
        return 0
    return math.trunc(n) % 65536


@pure
def typeof(v):
    if v is UNDEFINED:
        return "undefined"
    if v is NULL:
        return "object"
    if isinstance(v, bool):
        return "boolean"
    if isinstance(v, (int, float)):
        return "number"
    if isinstance(v, str):
        return "string"
    return typeof_object(v)


@abstract("typeof_obj")
def typeof_object(v):
    return "function" if callable(v) else "object"
