"""Variable kind x access form matrix (ECMA-262 13.15 assignment, 13.4 update expressions, 9.1 environment records).

Every case is a program returning  [value of the expression, the variable read afterwards, the variable read through
a closure created BEFORE the access]  rendered as "type:string".  The expected triple is computed with the spec
operators of specs/es_ops.py.  The same templates are used structurally (storage-class consistency of the compiled
code) by the C05 obligations."""
import math
from specs import es_ops as OPS
from specs.es_core import ToString, ToNumber, typeof
from microjs.values import UNDEFINED, NULL

VALUES = {"5": 5, "2.5": 2.5, "'5'": "5", "'ab'": "ab", "true": True, "null": NULL, "undefined": UNDEFINED, "-0": -0.0, "NaN": math.nan}
RHS = {"3": 3, "'7'": "7", "true": True, "2.5": 2.5, "1": 1, "-1": -1, "0": 0}
COMPOUND = {"+=": OPS.op_add, "-=": OPS.op_sub, "*=": OPS.op_mul, "/=": OPS.op_div, "%=": OPS.op_mod, "&=": OPS.op_band, "|=": OPS.op_bor,
            "^=": OPS.op_bxor, "<<=": OPS.op_shl, ">>=": OPS.op_shr, ">>>=": OPS.op_ushr, "**=": OPS.op_pow}

# kind -> (template with {INIT} initial value, {ACCESS} the access expression on `v`; the template must define
#          `getv` (closure reading v, created before the access) and return RES([<access>, v, getv()]))
KINDS = {
    "global": "var v = {INIT}; function getv() { return v; } var r = {ACCESS}; RES([r, v, getv()])",
    "local": "(function () { var v = {INIT}; var r = {ACCESS}; return RES([r, v, v]); })()",
    "local-captured": "(function () { var v = {INIT}; var getv = function () { return v; }; var r = {ACCESS}; return RES([r, v, getv()]); })()",
    "param": "(function (v) { var r = {ACCESS}; return RES([r, v, v]); })({INIT})",
    "param-captured": "(function (v) { var getv = function () { return v; }; var r = {ACCESS}; return RES([r, v, getv()]); })({INIT})",
    "enclosing": "(function () { var v = {INIT}; var getv = function () { return v; }; var r = (function () { return {ACCESS}; })(); return RES([r, v, getv()]); })()",
    "enclosing-2": "(function () { var v = {INIT}; var getv = function () { return v; }; var r = (function () { return (function () { return {ACCESS}; })(); })(); return RES([r, v, getv()]); })()",
    "enclosing-arrow": "(function () { var v = {INIT}; var getv = () => v; var r = (() => {ACCESS})(); return RES([r, v, getv()]); })()",
    "catch-param": "(function () { try { throw {INIT}; } catch (v) { var r = {ACCESS}; return RES([r, v, v]); } })()",
    "catch-param-captured": "(function () { try { throw {INIT}; } catch (v) { var getv = function () { return v; }; var r = {ACCESS}; return RES([r, v, getv()]); } })()",
    "member": "(function () { var o = {v: {INIT}}; var getv = function () { return o.v; }; var r = {ACCESS_M}; return RES([r, o.v, getv()]); })()",
    "element": "(function () { var o = [{INIT}]; var k = 0; var getv = function () { return o[0]; }; var r = {ACCESS_E}; return RES([r, o[0], getv()]); })()",
    "member-of-enclosing": "(function () { var o = {v: {INIT}}; var getv = function () { return o.v; }; var r = (function () { return {ACCESS_M}; })(); return RES([r, o.v, getv()]); })()",
}

PRELUDE = ("function R1(x) { return (typeof x) + ':' + (x === 0 && 1 / x < 0 ? '-0' : String(x)); }\n"
           "function RES(a) { return R1(a[0]) + '|' + R1(a[1]) + '|' + R1(a[2]); }\n")


def r1(x):
    if isinstance(x, float) and x == 0 and math.copysign(1, x) < 0:
        return "number:-0"
    if isinstance(x, int) and not isinstance(x, bool) and x == 0:
        return "number:0"
    return f"{typeof(x)}:{ToString(x)}"


def forms():
    """(name, access text on `v`, function old -> (expression value, new value))"""
    out = []
    out.append(("read", "v", lambda old: (old, old)))
    out.append(("typeof", "typeof v", lambda old: (typeof(old), old)))
    for rn, rv in RHS.items():
        out.append((f"assign {rn}", f"v = {rn}", lambda old, rv=rv: (rv, rv)))
        for op, fn in COMPOUND.items():
            out.append((f"compound {op} {rn}", f"v {op} {rn}", lambda old, fn=fn, rv=rv: (fn(old, rv),) * 2))
    out.append(("pre++", "++v", lambda old: (OPS.op_inc(old),) * 2))
    out.append(("pre--", "--v", lambda old: (OPS.op_dec(old),) * 2))
    out.append(("post++", "v++", lambda old: (ToNumber(old), OPS.op_inc(old))))
    out.append(("post--", "v--", lambda old: (ToNumber(old), OPS.op_dec(old))))
    out.append(("post++ in expression", "(v++) + 0", lambda old: (OPS.op_add(ToNumber(old), 0), OPS.op_inc(old))))
    out.append(("assign chain", "(v = 1) + (v = v + 1)", lambda old: (3, 2)))
    return out


def cases(kinds=None, values=None):
    for kname, tmpl in KINDS.items():
        if kinds and kname not in kinds:
            continue
        for vn, vv in VALUES.items():
            if values and vn not in values:
                continue
            for fname, access, fn in forms():
                am = access.replace("v", "o.v").replace("typeof o.v", "typeof o.v") if "ACCESS_M" in tmpl else None
                ae = access.replace("v", "o[k]") if "ACCESS_E" in tmpl else None
                src = tmpl.replace("{INIT}", vn).replace("{ACCESS_M}", am or "").replace("{ACCESS_E}", ae or "").replace("{ACCESS}", access)
                val, new = fn(vv)
                yield f"{kname}/{fname}/{vn}", PRELUDE + src, f"{r1(val)}|{r1(new)}|{r1(new)}"


# loop variables and declarations written by the engine itself (for-in / for-of targets, catch, function names):
# the body, later code and closures must all see the same variable
EXTRA = [
    ("forin-var", "(function () { var seen = []; for (var v in {a: 1, b: 2}) { seen.push(v); } return seen.join() + '|' + v; })()", "a,b|b"),
    ("forin-var-captured", "(function () { var fs = [], seen = []; for (var v in {a: 1, b: 2}) { seen.push(v); fs.push(function () { return v; }); } return seen.join() + '|' + v + '|' + fs[0]() + fs[1](); })()", "a,b|b|bb"),
    ("forin-var-captured-earlier", "(function () { var g = function () { return v; }; var seen = []; for (var v in {a: 1, b: 2}) { seen.push(v + g()); } return seen.join() + '|' + g(); })()", "aa,bb|b"),
    ("forof-var-captured", "(function () { var fs = [], seen = []; for (var v of [7, 8]) { seen.push(v); fs.push(function () { return v; }); } return seen.join() + '|' + v + '|' + fs[0]() + fs[1](); })()", "7,8|8|88"),
    ("forin-undeclared-captured", "(function () { var v; var g = function () { return v; }; var seen = []; for (v in {a: 1}) { seen.push(v + g()); } return seen.join() + '|' + g(); })()", "aa|a"),
    ("forof-undeclared-captured", "(function () { var v; var g = function () { return v; }; var seen = []; for (v of [5]) { seen.push(v + g()); } return seen.join() + '|' + g(); })()", "10|5"),
    ("forin-enclosing", "(function () { var v; var seen = []; (function () { for (v in {a: 1, b: 2}) { seen.push(v); } })(); return seen.join() + '|' + v; })()", "a,b|b"),
    ("forof-enclosing", "(function () { var v; (function () { for (v of [1, 2]) { } })(); return v; })()", 2),
    ("forin-global", "var seen = []; for (var gv in {a: 1}) { seen.push(gv); } function gg() { return gv; } seen.join() + '|' + gv + gg()", "a|aa"),
    ("forin-member-target", "(function () { var o = {}; for (o.k in {a: 1, b: 2}) { } return o.k; })()", "b"),
    ("catch-captured-live", "(function () { var g; try { throw 1; } catch (e) { g = function () { return e; }; e = 2; } return g(); })()", 2),
    ("catch-captured-update", "(function () { var g; try { throw 1; } catch (e) { g = function () { return e++; }; g(); return e + '|' + g(); } })()", "2|2"),
    ("catch-shadow-restores", "(function () { var e = 'outer'; try { throw 'inner'; } catch (e) { } return e; })()", "outer"),
    ("catch-param-does-not-leak", "try { throw 1 } catch (leaked) { } typeof leaked", "undefined"),
    ("catch-param-nested-same-name", "(function () { try { throw 1 } catch (e) { try { throw 2 } catch (e) { var inner = e } return inner + '|' + e } })()", "2|1"),
    ("catch-param-vs-property-names", "(function () { try { throw {m: 5} } catch (e) { return e.m + ({e: 7}).e } })()", 12),
    ("catch-param-shadowed-in-function", "(function () { try { throw 3 } catch (e) { return (function (e) { return e })(9) + (function () { var e = 4; return e })() + e } })()", 16),
    ("catch-param-vs-outer-param", "(function (e) { try { throw 1 } catch (e) { } return e })(8)", 8),
    ("named-fn-expr-self", "(function () { var f = function g(n) { return n ? g(n - 1) + 1 : 0; }; return f(3); })()", 3),
    ("fn-decl-hoisted-captured", "(function () { var r = h(); function h() { return k; } var k = 1; return String(r) + '|' + h(); })()", "undefined|1"),
    ("param-captured-by-arguments", "(function (a) { var g = function () { return a; }; a = 9; return g() + '|' + arguments.length; })(1)", "9|1"),
    ("closure-counter", "(function () { var n = 0; var inc = function () { return ++n; }; inc(); inc(); return n + '|' + inc(); })()", "2|3"),
    ("two-closures-share", "(function () { var n = 1; var a = function () { n += 1; }; var b = function () { n *= 10; }; a(); b(); return n; })()", 20),
    ("loop-closures-share-var", "(function () { var fs = []; for (var i = 0; i < 3; i++) { fs.push(function () { return i; }); } return fs[0]() + '' + fs[2](); })()", "33"),
    ("typeof-captured", "(function () { var v = 5; var g = function () { return v; }; return typeof v + typeof g; })()", "numberfunction"),
    ("typeof-undeclared", "typeof zz_not_declared", "undefined"),
    ("typeof-enclosing", "(function () { var v = 'x'; return (function () { return typeof v; })(); })()", "string"),
    ("compound-enclosing-string", "(function () { var v = '5'; (function () { v += 1; })(); return v; })()", "51"),
    ("postfix-enclosing-result", "(function () { var v = '5'; var r = (function () { return v++; })(); return typeof r + r + '|' + v; })()", "number5|6"),
    ("postfix-enclosing-bool", "(function () { var v = true; var r = (function () { return v--; })(); return typeof r + r + '|' + v; })()", "number1|0"),
    # a var of a nested function (expression, arrow, declaration) belongs to that function only
    ("inner-var-vs-global", "var gq = 1; function f() { var h = function () { var gq = 2; return gq; }; return h() + '|' + gq; } f() + '|' + gq", "2|1|1"),
    ("inner-var-vs-global-arrow", "var gq = 1; function f() { var h = () => { var gq = 2; return gq; }; return h() + '|' + gq; } f()", "2|1"),
    ("inner-var-vs-global-decl", "var gq = 1; function f() { function h() { var gq = 2; return gq; } return h() + '|' + gq; } f()", "2|1"),
    ("inner-var-vs-enclosing", "(function () { var v = 1; return (function () { var inner = function () { var v = 3; return v; }; return inner() + '|' + v; })(); })()", "3|1"),
    ("inner-var-vs-enclosing-write", "(function () { var v = 1; var set = function () { v = 5; }; var inner = function () { var v = 3; v++; return v; }; set(); return inner() + '|' + v; })()", "4|5"),
    ("inner-param-vs-global", "var gq = 1; function f() { var h = function (gq) { gq = 9; return gq; }; return h(2) + '|' + gq; } f()", "9|1"),
    ("callback-var-vs-global", "var gq = 1; function f() { [1].forEach(function (x) { var gq = x + 1; }); return gq; } f()", 1),
    ("inner-var-in-loop-body-fn", "var i = 'g'; function f() { var out = []; for (var k = 0; k < 2; k++) { out.push((function () { var i = k; return i; })()); } return out.join() + i; } f()", "0,1g"),
    ("delete-local-noop", "(function () { var v = 1; var r = delete v; return v; })()", 1),
    # surplus and missing arguments: they reach `arguments` only; parameters without an argument and plain locals start undefined
    ("surplus-args-vs-hoisted-var", "function f(a){ if (a) { var t = 1 } return String(t) } f(0, 7, 8) + '|' + f(1, 7, 8)", "undefined|1"),
    ("surplus-args-vs-local", "function f(a){ var u; var r = typeof u; u = a; return r + ':' + arguments.length } f(1, 2, 3)", "undefined:3"),
    ("surplus-args-vs-captured-local", "function mk(a){ var kept; var g = function(){ return String(kept) }; return g } mk(0, 5, 6)()", "undefined"),
    ("missing-args", "function f(a, b, c){ var x; return [a, b, c, x, arguments.length].join() } f(1)", "1,,,,1"),
    ("surplus-args-no-params", "function f(){ var x, y; return [String(x), String(y), arguments[0], arguments[1], arguments.length].join() } f(7, 8, 9)", "undefined,undefined,7,8,3"),
    ("surplus-args-arrow", "var f = (a) => { var z; return a + ':' + String(z) }; f(1, 2, 3)", "1:undefined"),
    ("surplus-args-constructor", "function F(a){ var hidden; this.v = a + ':' + String(hidden) } new F(1, 2, 3).v", "1:undefined"),
    ("surplus-args-call-apply-bind", "function f(a){ var w; return a + ':' + String(w) } [f.call(null, 1, 2, 3), f.apply(null, [4, 5, 6]), f.bind(null, 7, 8)(9)].join()", "1:undefined,4:undefined,7:undefined"),
    ("surplus-args-callback", "[5].map(function (x) { var loc; return x + ':' + String(loc) })[0]", "5:undefined"),
    ("surplus-args-named-fn-expr", "var g = function self(n){ var p, q; return n ? self(n - 1, 'x', 'y') : String(p) + String(q) }; g(2, 'a', 'b')", "undefinedundefined"),
    ("bare-var-keeps-value", "var x = 1; var x; (function (a) { var a; var k = 5; var k; return x + '|' + a + '|' + k })(7)", "1|7|5"),
    ("bare-var-in-loop", "(function () { for (var i = 0; i < 3; i++) { var acc; acc = (acc || 0) + 1 } return acc })()", 3),
    ("closure-in-if-header", "(function () { var x = 1, r; if ((r = function () { return x })) { x = 2 } return r() })()", 2),
    ("closure-in-while-header", "(function () { var x = 1, r; while ((r = function () { return x }) && x < 2) { x = 2 } return r() })()", 2),
    ("closure-in-for-header", "(function () { var x = 1, r; for (r = function () { return x }; x < 2; ) { x = 2 } return r() })()", 2),
    ("closure-in-switch-header", "(function () { var x = 1, r; switch (r = function () { return x }) { default: x = 2 } return r() })()", 2),
    ("closure-in-case-test", "(function () { var x = 1, r; switch (1) { case (r = function () { return x }, 1): x = 2 } return r() })()", 2),
    ("closure-in-forin-header", "(function () { var x = 1, r; for (var k in (r = function () { return x }, {a: 1})) { x = 2 } return r() })()", 2),
    ("closure-in-dowhile-test", "(function () { var x = 1, r; do { x = 2 } while ((r = function () { return x }) && false); return r() })()", 2),
    ("closure-in-conditional", "(function () { var x = 1; var r = true ? function () { return x } : null; x = 2; return r() })()", 2),
    ("closure-in-argument", "(function () { var x = 1; var r = [function () { return x }][0]; x = 2; return r() })()", 2),
    # `arguments` of a function that also contains functions using their own `arguments`
    ("arguments-with-inner-arguments", "function sum(){ var t = 0; for (var i = 0; i < arguments.length; i++) t += arguments[i]; var g = function(){ return arguments.length }; return t + g(1, 2) } sum(1, 2, 3)", 8),
    ("arguments-captured-by-arrow-free-inner", "function f(){ var n = arguments.length; var g = function(){ return arguments[0] + n }; return g(10) + arguments[1] } f(1, 2)", 14),
    ("arguments-inner-first", "function f(){ var g = function(){ return arguments.length }; return g() + ':' + arguments.length + ':' + arguments[0] } f(7, 8)", "0:2:7"),
    ("arguments-and-captured-param", "function f(a){ var g = function(){ return a + arguments.length }; return g(1, 2, 3) + arguments.length } f(5)", 9),
    # the function's own name: visible in a named function expression unless a parameter or var of that name shadows it;
    # a function declaration's name is not bound inside it at all (the var is a fresh local)
    ("own-name-decl-bare-var", "function f(){ var f; return typeof f } f()", "undefined"),
    ("own-name-expr-bare-var", "var g = function f(){ var f; return typeof f }; g()", "undefined"),
    ("own-name-expr-var-in-branch", "var g = function f(n){ var t = typeof f; if (n < 0) { var f = 1 } return t }; g(1)", "undefined"),
    ("own-name-expr-param", "var g = function f(f){ return typeof f }; g() + '|' + g(1)", "undefined|number"),
    ("own-name-expr-visible", "var g = function f(){ return typeof f }; g()", "function"),
    ("own-name-expr-visible-in-closure", "var g = function f(){ return (function(){ return typeof f })() }; g()", "function"),
    ("own-name-expr-shadowed-in-closure", "var g = function f(){ var f; return (function(){ return typeof f })() }; g()", "undefined"),
    ("own-name-decl-assigned-var", "function f(){ var f = 2; return f } f()", 2),
    ("own-name-inner-declaration", "var g = function f(){ function f(){ return 2 } return f() }; g()", 2),
    # function declarations in a block take effect when the block is entered
    ("block-fn-before-decl", "function g(){ { return f(); function f(){ return 1 } } } g()", 1),
    ("block-fn-in-if", "function g(c){ if (c) { return h(); function h(){ return 'a' } } return 'b' } g(1) + g(0)", "ab"),
    ("block-fn-in-loop", "function g(){ var out = []; for (var i = 0; i < 2; i++) { out.push(f(i)); function f(x){ return x * 2 } } return out.join() } g()", "0,2"),
    ("block-fn-toplevel", "var r; { r = f(); function f(){ return 2 } } r", 2),
    ("block-fn-captures", "function g(){ var k = 5; { var r = f(); function f(){ return k } } return r } g()", 5),
    # loops over an object that the body changes
    ("forof-sees-pushed-elements", "var a = [1, 2], out = []; for (var x of a) { if (a.length < 5) a.push(x + 10); out.push(x) } out.join()", "1,2,11,12,21"),
    ("forof-sees-removed-elements", "var a = [1, 2, 3, 4], out = []; for (var x of a) { a.pop(); out.push(x) } out.join()", "1,2"),
    ("forof-length-zero", "var a = [1, 2, 3], out = []; for (var x of a) { a.length = 0; out.push(x) } out.join()", "1"),
    ("forof-element-changed", "var a = [1, 2, 3], out = []; for (var x of a) { a[2] = 9; out.push(x) } out.join()", "1,2,9"),
    ("forin-skips-deleted", "var o = {a: 1, b: 2, c: 3}, out = []; for (var k in o) { delete o.b; out.push(k) } out.join()", "a,c"),
    ("forin-skips-deleted-array", "var a = [1, 2, 3], out = []; for (var k in a) { a.pop(); out.push(k) } out.join()", "0,1"),
    ("forin-ignores-added", "var o = {a: 1, b: 2}, out = []; for (var k in o) { o.z = 1; out.push(k) } out.join()", "a,b"),
    ("forin-deleted-and-readded", "var o = {a: 1, b: 2}, out = []; for (var k in o) { if (k == 'a') { delete o.b; o.b = 5 } out.push(k) } out.join()", "a,b"),
    # var declarations of program code are hoisted like those of a function body
    ("global-var-in-dead-branch", "if (false) { var gq1 = 1 } String(gq1)", "undefined"),
    ("global-var-used-before", "var gz = gzz; var gzz = 1; String(gz) + '|' + gzz", "undefined|1"),
    ("global-var-forin-no-iteration", "for (var gk in {}) { } String(gk)", "undefined"),
    ("global-var-forof-no-iteration", "for (var gv of []) { } String(gv)", "undefined"),
    ("global-var-in-while", "while (false) { var gw = 1 } String(gw)", "undefined"),
    ("global-var-in-catch", "try { } catch (e) { var gc = 1 } String(gc)", "undefined"),
    ("global-var-in-switch", "switch (1) { case 2: var gs = 1 } String(gs)", "undefined"),
    ("global-var-seen-by-function", "function gf(){ return typeof gg1 } var r1 = gf(); var gg1 = 1; r1 + '|' + gf()", "undefined|number"),
    ("global-var-not-from-function-body", "function gf2(){ var inner1 = 1 } typeof inner1", "undefined"),
    ("global-var-catch-param-not-hoisted", "try { throw 1 } catch (cp1) { } typeof cp1", "undefined"),
    ("global-var-keeps-existing", "var keep1 = 5; var keep1; if (false) { var keep1 = 7 } keep1", 5),
    ("global-var-in-eval", "eval('if (false) { var ev1 = 1 }'); String(ev1)", "undefined"),
    # for-of wants something iterable
    ("forof-number-throws", "var r; try { for (var x of 5) { } r = 'accepted' } catch (e) { r = e.name } r", "TypeError"),
    ("forof-object-throws", "var r; try { for (var x of {a: 1}) { } r = 'accepted' } catch (e) { r = e.name } r", "TypeError"),
    ("forof-undefined-throws", "var r; try { for (var x of undefined) { } r = 'accepted' } catch (e) { r = e.name } r", "TypeError"),
    ("forof-null-throws", "var r; try { for (var x of null) { } r = 'accepted' } catch (e) { r = e.name } r", "TypeError"),
    ("forof-string", "var out = []; for (var ch of 'abc') out.push(ch); out.join()", "a,b,c"),
    ("forof-typed-array-live", "var t = new Uint8Array([5, 6]), r = []; for (var v of t) { t[1] = 9; r.push(v) } r.join()", "5,9"),
    ("forof-typed-array", "var t = 0; for (var x of new Uint8Array([1, 2, 3])) t += x; t", 6),
    # return: the value starts on the line of the keyword
    ("return-newline-value", "function f(){ return\n 5 } String(f())", "undefined"),
    ("return-same-line", "function f(){ return 5\n } f()", 5),
    ("return-paren-continues", "function f(){ return (\n 5) } f()", 5),
    ("return-comment-with-newline", "function f(){ return /* a\n b */ 7 } String(f())", "undefined"),
    ("return-newline-then-statement", "function f(){ var x = 1; if (x) return\n x = 2; return x } String(f())", "undefined"),
]
