"""Call forms x function kinds: what `this`, `arguments`, `length` and `name` must be
(ECMA-262 10.2.1 [[Call]] / 10.2.1.2 OrdinaryCallBindThis (strict: thisArgument unchanged),
10.2.2 [[Construct]], 10.4.1 bound functions, 13.3.6 EvaluateCall (reference base => this),
15.3 arrow functions (lexical this), 20.2.3 call/apply/bind, 10.2.9 SetFunctionName).

Every case is a small program whose value is a string; `cases()` yields (id, source, expected).
`expected` may be a set of acceptable strings."""

PRELUDE = r"""
var T = {tag: "T"}, B = {tag: "B"}, C = {tag: "C"};
function R(v) { if (v === undefined) return "u"; if (v === null) return "n";
  if (v === T) return "T"; if (v === B) return "B"; if (v === C) return "C"; if (v === O) return "O"; if (v === P) return "P";
  var t = typeof v; if (t === "object") return "obj"; if (t === "function") return "fn"; return t.charAt(0) + ":" + v; }
function S(self, args) { var s = R(self) + "|" + args.length; for (var i = 0; i < args.length; i++) s += "," + R(args[i]); return s; }
var O, P;
"""

# function kinds: name -> (definition source establishing `f` (and O.f), has_own_arguments, declared length, declared name)
KINDS = {
    "decl": ("function f(a, b) { return S(this, arguments); }", 2, "f"),
    "expr": ("var f = function (a, b) { return S(this, arguments); };", 2, {"f", ""}),
    "named": ("var f = function g(a, b) { return S(this, arguments); };", 2, "g"),
    "method": ("var f = ({ f(a, b) { return S(this, arguments); } }).f;", 2, {"f", ""}),
    "arrowT": ("var f = (function () { return (a, b) => S(this, [a, b]); }).call(T);", 2, {"f", ""}),
    "arrowNested": ("var f = (function () { return (() => (a, b) => S(this, [a, b]))(); }).call(T);", 2, {"f", ""}),
    "boundB": ("function g(a, b) { return S(this, arguments); } var f = g.bind(B, 9);", 1, {"bound g", "g"}),
    "boundBC": ("function g(a, b) { return S(this, arguments); } var f = g.bind(B, 9).bind(C, 8);", 0, {"bound bound g", "g"}),
    "restless": ("function f() { return S(this, arguments); }", 0, "f"),
}


def _args_render(args):
    return "".join("," + a for a in args)


def expect_call(kind, this, args):
    """expected S(...) string for calling kind `f` with this (rendered) and rendered args list"""
    if kind == "arrowT" or kind == "arrowNested":
        a = (args + ["u", "u"])[:2]
        return f"T|2{_args_render(a)}"
    if kind == "boundB":
        a = ["n:9"] + args
        return f"B|{len(a)}{_args_render(a)}"
    if kind == "boundBC":
        a = ["n:9", "n:8"] + args
        return f"B|{len(a)}{_args_render(a)}"
    return f"{this}|{len(args)}{_args_render(args)}"


# call forms: name -> (setup+expression source given `f`, this rendered, args rendered)
FORMS = {
    "plain": ("f(1, 2, 3)", "u", ["n:1", "n:2", "n:3"]),
    "plain0": ("f()", "u", []),
    "method": ("O = {f: f}; O.f(1, 2)", "O", ["n:1", "n:2"]),
    "methodStr": ('O = {f: f}; O["f"](1)', "O", ["n:1"]),
    "methodParen": ("O = {f: f}; (O.f)(1)", "O", ["n:1"]),
    "methodComma": ("O = {f: f}; (0, O.f)(1)", "u", ["n:1"]),
    "methodVar": ("O = {f: f}; var h = O.f; h(1)", "u", ["n:1"]),
    "inherited": ("P = {f: f}; O = Object.create(P); O.f(1)", "O", ["n:1"]),
    "ctorProto": ("function K() {} K.prototype.f = f; O = new K(); O.f(1)", "O", ["n:1"]),
    "ctorProtoAssigned": ("function K() {} K.prototype = {f: f}; O = new K(); O.f(1)", "O", ["n:1"]),
    "arrayElem": ("O = [f]; O[0](1)", "O", ["n:1"]),
    "call": ("f.call(T, 1, 2, 3)", "T", ["n:1", "n:2", "n:3"]),
    "call0": ("f.call()", "u", []),
    "callNull": ("f.call(null, 1)", "n", ["n:1"]),
    "callUndef": ("f.call(undefined, 1)", "u", ["n:1"]),
    "callNum": ("f.call(5, 1)", "n:5", ["n:1"]),
    "callZero": ("f.call(0)", "n:0", []),
    "callFalse": ("f.call(false)", "b:false", []),
    "callEmptyStr": ('f.call("")', "s:", []),
    "callStr": ('f.call("s", 1)', "s:s", ["n:1"]),
    "apply": ("f.apply(T, [1, 2, 3])", "T", ["n:1", "n:2", "n:3"]),
    "applyNoArgs": ("f.apply(T)", "T", []),
    "applyNullArgs": ("f.apply(T, null)", "T", []),
    "applyUndefArgs": ("f.apply(T, undefined)", "T", []),
    "applyZeroThis": ("f.apply(0, [1])", "n:0", ["n:1"]),
    "bindCall": ("f.bind(T)(1, 2)", "T", ["n:1", "n:2"]),
    "bindArgs": ("f.bind(T, 7)(1)", "T", ["n:7", "n:1"]),
    "bindThenCall": ("f.bind(T).call(C, 1)", "T", ["n:1"]),
    "bindMethod": ("O = {f: f.bind(T)}; O.f(1)", "T", ["n:1"]),
    "bindNull": ("f.bind(null)(1)", "n", ["n:1"]),
    "callback": ("[7].map(f)[0]", "u", ["n:7", "n:0", "obj"]),
    "forEach": ("var r; [7].forEach(function (x) { r = f(x); }); r", "u", ["n:7"]),
    "getterCall": ("O = {get g() { return f; }}; O.g(1)", "O", ["n:1"]),
    "viaReturn": ("(function () { return f; })()(1)", "u", ["n:1"]),
    "callOfCall": ("f.call.call(f, T, 1)", "T", ["n:1"]),
    "nestedPlain": ("O = {m: function () { return f(1); }}; O.m()", "u", ["n:1"]),
}

BOUND_TARGET_THIS = {"bindCall", "bindArgs", "bindThenCall", "bindMethod", "bindNull"}


def cases():
    for kn, (defn, length, name) in KINDS.items():
        for fn_, (src, this, args) in FORMS.items():
            exp = expect_call(kn, this, list(args))
            yield f"{kn}.{fn_}", PRELUDE + defn + "\n" + src, exp
        yield f"{kn}.length", PRELUDE + defn + "\nf.length", length
        yield f"{kn}.name", PRELUDE + defn + "\nf.name", name
        yield f"{kn}.typeof", PRELUDE + defn + "\ntypeof f", "function"
    # accessors run with the receiver as this (own and inherited), setters get the value
    acc = [
        ("getter.own", "O = {get x() { return S(this, arguments); }}; O.x", "O|0"),
        ("getter.inherited", "P = {get x() { return S(this, arguments); }}; O = Object.create(P); O.x", "O|0"),
        ("getter.viaCtor", "function K() {} K.prototype = {get x() { return S(this, arguments); }}; O = new K(); O.x", "O|0"),
        ("getter.defineProperty", "O = {}; Object.defineProperty(O, 'x', {get: function () { return S(this, arguments); }, enumerable: true, configurable: true}); O.x", "O|0"),
        ("getter.computed", "O = {get x() { return S(this, arguments); }}; var k = 'x'; O[k]", "O|0"),
        ("setter.own", "var r; O = {set x(v) { r = S(this, arguments); }}; O.x = 4; r", "O|1,n:4"),
        ("setter.inherited", "var r; P = {set x(v) { r = S(this, arguments); }}; O = Object.create(P); O.x = 4; r + '/' + Object.keys(O).length", "O|1,n:4/0"),
        ("setter.compound", "var r; O = {get x() { return 2; }, set x(v) { r = S(this, arguments); }}; O.x += 5; r", "O|1,n:7"),
        ("setter.update", "var r; O = {get x() { return 2; }, set x(v) { r = S(this, arguments); }}; O.x++; r", "O|1,n:3"),
        ("getter.arrowInside", "O = {get x() { var a = () => R(this); return a(); }}; O.x", "O"),
    ]
    for cid, src, exp in acc:
        yield cid, PRELUDE + src, exp
    # construction
    ctor = [
        ("new.this", "var seen; function K(a) { seen = this; this.a = a; } O = new K(1); (seen === O) + '|' + O.a + '|' + (O instanceof K) + '|' + (Object.getPrototypeOf(O) === K.prototype)", "true|1|true|true"),
        ("new.args", "function K() { this.n = arguments.length; this.s = S(null, arguments); } O = new K(1, 2); O.n + '|' + O.s", "2|n|2,n:1,n:2"),
        ("new.noParens", "function K() { this.a = 1; } O = new K; O.a", 1),
        ("new.returnsObject", "function K() { this.a = 1; return T; } R(new K())", "T"),
        ("new.returnsPrimitive", "function K() { this.a = 1; return 5; } O = new K(); O.a", 1),
        ("new.returnsNull", "function K() { this.a = 1; return null; } O = new K(); O.a", 1),
        ("new.returnsFunction", "function K() { return f; } function f() {} (new K()) === f", True),
        ("new.returnsArray", "var arr = [1]; function K() { return arr; } (new K()) === arr", True),
        ("new.protoAssigned", "function K() {} P = {z: 3}; K.prototype = P; O = new K(); O.z + '|' + (Object.getPrototypeOf(O) === P) + '|' + (O instanceof K)", "3|true|true"),
        ("new.protoAssignedLater", "function K() {} var o1 = new K(); P = {z: 3}; K.prototype = P; var o2 = new K(); (o1 instanceof K) + '|' + (o2 instanceof K) + '|' + o1.z + '|' + o2.z", "false|true|undefined|3"),
        ("new.protoPrimitive", "function K() {} K.prototype = 5; O = new K(); Object.getPrototypeOf(O) === Object.prototype", True),
        ("new.chain", "function A() {} function D() {} D.prototype = Object.create(A.prototype); O = new D(); (O instanceof D) + '|' + (O instanceof A) + '|' + (O instanceof Object)", "true|true|true"),
        ("new.chainCall", "function A(x) { this.x = x; } A.prototype.gx = function () { return this.x; }; function D(x) { A.call(this, x); } D.prototype = Object.create(A.prototype); D.prototype.constructor = D; O = new D(4); O.gx() + '|' + (O.constructor === D)", "4|true"),
        ("new.bound", "function K(a, b) { this.a = a; this.b = b; } var BK = K.bind(T, 1); O = new BK(2); O.a + '|' + O.b + '|' + (O instanceof K) + '|' + (O instanceof BK) + '|' + (T.a === undefined)", "1|2|true|true|true"),
        ("new.member", "var ns = {K: function (a) { this.a = a; }}; O = new ns.K(3); O.a + '|' + (O instanceof ns.K)", "3|true"),
        ("new.arrowThrows", "var a = () => 1; var r; try { new a(); r = 'no'; } catch (e) { r = e.name; } r", "TypeError"),
        ("new.nonFunctionThrows", "var r; try { new (5)(); r = 'no'; } catch (e) { r = e.name; } r", "TypeError"),
        ("instanceof.primitiveLhs", "function K() {} (5 instanceof K) + '|' + (null instanceof K)", "false|false"),
        ("instanceof.nonCallable", "var r; try { ({}) instanceof ({}); r = 'no'; } catch (e) { r = e.name; } r", "TypeError"),
        ("instanceof.protoItself", "function K() {} (K.prototype instanceof K)", False),
        ("constructor.link", "function K() {} (K.prototype.constructor === K) + '|' + (new K().constructor === K) + '|' + Object.keys(K.prototype).length", "true|true|0"),
        ("arguments.isolated", "function f(a) { a = 5; return arguments[0]; } f(1)", {1, 5}),
        ("arguments.extra", "function f(a) { return arguments.length + '|' + arguments[2]; } f(1, 2, 3)", "3|3"),
        ("arguments.missing", "function f(a, b) { return arguments.length + '|' + R(b); } f(1)", "1|u"),
        ("arguments.nested", "function f() { var g = function () { return arguments.length; }; return g(1, 2) + '|' + arguments.length; } f(9)", "2|1"),
        ("name.declaration", "function foo() {} foo.name", "foo"),
        ("length.params", "function f0() {} function f3(a, b, c) {} f0.length + '|' + f3.length", "0|3"),
        ("this.toplevelFunction", "function f() { return this; } R(f())", "u"),
        ("this.methodOfPrimitive", "var r; try { r = typeof 'abc'.charAt; } catch (e) { r = e.name; } r", "function"),
        ("this.nestedFunctionLosesThis", "O = {m: function () { var g = function () { return R(this); }; return g(); }}; O.m()", "u"),
        ("this.nestedArrowKeepsThis", "O = {m: function () { var g = () => R(this); return g(); }}; O.m()", "O"),
        ("this.arrowInCallback", "O = {v: 3, m: function () { return [1, 2].map((x) => x * this.v).join(); }}; O.m()", "3,6"),
        ("this.arrowCallIgnored", "O = {m: function () { var g = () => R(this); return g.call(T) + g.apply(B) + g.bind(C)(); }}; O.m()", "OOO"),
        ("this.arrowInCtor", "function K() { this.g = () => this; } O = new K(); O.g() === O", True),
        ("this.arrowAsMethod", "var a = (function () { return () => R(this); }).call(T); O = {a: a}; O.a()", "T"),
    ]
    for cid, src, exp in ctor:
        yield cid, PRELUDE + src, exp
