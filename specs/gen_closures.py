"""Generator of closure-heavy programs with a known result: the same program is emitted as JavaScript and as
Python (nested defs with `nonlocal`), whose scoping rules coincide for variables declared at function top."""
import random


class Gen:
    def __init__(self, seed):
        self.r = random.Random(seed)
        self.n = 0

    def fresh(self, p):
        self.n += 1
        return f"{p}{self.n}"

    def func(self, depth, outer_vars, outer_funcs):
        r = self.r
        name = self.fresh("f")
        params = [self.fresh("p") for _ in range(r.randint(0, 2))]
        locs = [self.fresh("v") for _ in range(r.randint(1, 3))]
        mine = params + locs
        visible = outer_vars + mine
        inner = []
        if depth < 3:
            for _ in range(r.randint(0, 2)):
                inner.append(self.func(depth + 1, visible, outer_funcs + [name]))
        js, py = [], []
        # body statements
        stmts = []
        for v in locs:
            stmts.append(("init", v, r.randint(1, 9)))
        for _ in range(r.randint(2, 5)):
            k = r.random()
            if k < 0.45 or not inner:
                tgt = r.choice(visible)
                a, b = r.choice(visible), r.choice(visible)
                stmts.append(("upd", tgt, a, b, r.randint(1, 5)))
            elif k < 0.8:
                f = r.choice(inner)
                tgt = r.choice(visible)
                args = [r.choice(visible) for _ in f["params"]]
                stmts.append(("call", tgt, f["name"], args))
            else:
                f = r.choice(inner)
                stmts.append(("ctr", r.choice(mine), f["name"], [r.choice(visible) for _ in f["params"]]))
        ret = [r.choice(visible) for _ in range(2)]
        assigned_outer = set()
        for s in stmts:
            if s[0] in ("upd", "call", "ctr") and s[1] in outer_vars:
                assigned_outer.add(s[1])
        return {"name": name, "params": params, "locals": locs, "inner": inner, "stmts": stmts, "ret": ret, "nonlocal": sorted(assigned_outer)}

    def emit_js(self, f, ind=""):
        out = [f"{ind}function {f['name']}({', '.join(f['params'])}) {{"]
        i2 = ind + "  "
        if f["locals"]:
            out.append(f"{i2}var {', '.join(f['locals'])};")
        for g in f["inner"]:
            out += self.emit_js(g, i2)
        for s in f["stmts"]:
            if s[0] == "init":
                out.append(f"{i2}{s[1]} = {s[2]};")
            elif s[0] == "upd":
                out.append(f"{i2}{s[1]} = ({s[2]} * 3 + {s[3]} + {s[4]}) % 1000003;")
            elif s[0] == "call":
                out.append(f"{i2}{s[1]} = ({s[2]}({', '.join(s[3])}) + 1) % 1000003;")
            else:
                out.append(f"{i2}{s[1]} = ({s[2]}({', '.join(s[3])}) + {s[2]}({', '.join(s[3])})) % 1000003;")
        out.append(f"{i2}return ({f['ret'][0]} * 7 + {f['ret'][1]}) % 1000003;")
        out.append(f"{ind}}}")
        return out

    def emit_py(self, f, ind=""):
        out = [f"{ind}def {f['name']}({', '.join(f['params'])}):"]
        i2 = ind + "    "
        if f["nonlocal"]:
            out.append(f"{i2}nonlocal {', '.join(f['nonlocal'])}")
        for v in f["locals"]:
            out.append(f"{i2}{v} = 0")
        for g in f["inner"]:
            out += self.emit_py(g, i2)
        for s in f["stmts"]:
            if s[0] == "init":
                out.append(f"{i2}{s[1]} = {s[2]}")
            elif s[0] == "upd":
                out.append(f"{i2}{s[1]} = ({s[2]} * 3 + {s[3]} + {s[4]}) % 1000003")
            elif s[0] == "call":
                out.append(f"{i2}{s[1]} = ({s[2]}({', '.join(s[3])}) + 1) % 1000003")
            else:
                out.append(f"{i2}{s[1]} = ({s[2]}({', '.join(s[3])}) + {s[2]}({', '.join(s[3])})) % 1000003")
        out.append(f"{i2}return ({f['ret'][0]} * 7 + {f['ret'][1]}) % 1000003")
        return out


def program(seed):
    """(javascript source, expected result)"""
    g = Gen(seed)
    f = g.func(1, [], [])
    args = [str(g.r.randint(1, 9)) for _ in f["params"]]
    call = f"{f['name']}({', '.join(args)})"
    js = "\n".join(g.emit_js(f)) + f"\n[{call}, {call}]"
    # JS `var` without initialiser is undefined; every local is initialised first (init statements come first)
    py = "\n".join(g.emit_py(f)) + f"\nRESULT = [{call}, {call}]"
    ns = {}
    exec(py, ns)
    return js, ns["RESULT"]


EXTRA = [
    ("function mk(){ var c = 0; return { inc: function(){ c++; return c }, get: function(){ return c } } } var a = mk(), b = mk(); a.inc(); a.inc(); b.inc(); [a.get(), b.get()]", [2, 1]),
    ("var fs = []; for (var i = 0; i < 3; i++) { fs.push(function(){ return i }) } [fs[0](), fs[2]()]", [3, 3]),
    ("function outer(x){ return function mid(y){ return function inner(z){ x++; return x + y + z } } } var m = outer(1)(10); [m(100), m(100)]", [112, 113]),
    ("var f = function fact(n){ return n <= 1 ? 1 : n * fact(n - 1) }; [f(5), typeof fact]", [120, "undefined"]),
    ("function f(a, b){ arguments[0]; return arguments.length + (function(){ return arguments.length })(1,2,3) } [f(1), f(1,2,3,4)]", [4, 7]),
    ("function f(){ var x = 1; function g(){ x = x + 1; return x } var h = function(){ return g() + x }; return [g(), h(), x] } f()", [2, 6, 3]),
    ("function f(){ var r = []; for (var k in {a:1,b:2}) { r.push(function(){ return k }) } return [r[0](), r[1]()] } f()", ["b", "b"]),
    ("function f(){ var e1; try { throw 7 } catch (ex) { e1 = function(){ return ex } } return e1() } f()", 7),
    ("function f(p){ var g = function(){ return typeof p + ':' + p }; p = 5; return g() } f('s')", "number:5"),
    ("function f(){ var t = this; return (function(){ return typeof this })() } f()", "undefined"),
    # a function's own name among several other locals (the self-name slot is found by name); a var or parameter of the same
    # name shadows it (a function declaration's name is not even bound inside it: the var is simply a fresh local)
    ("function fact(n){ var lo, hi, acc, tmp; if (n <= 1) return 1; return n * fact(n - 1) } fact(5)", 120),
    ("var g = function self(n){ var a1, a2, a3, a4, a5, a6; if (n == 0) return 0; return 1 + self(n - 1) }; g(4)", 4),
    ("function fact(n){ var r = typeof fact; if (n < 0) { var fact = null, lo, hi, acc, tmp; } return r } fact(5)", "undefined"),
    ("function fact(n){ var fact; return typeof fact } fact(5)", "undefined"),
    ("var g = function self(n){ var a1, a2, a3, a4, a5, a6; var r = typeof self; if (n < 0) { var self = 1; } return r }; g(4)", "undefined"),
    ("var g = function self(self){ return typeof self }; [g(), g(1)]", ["undefined", "number"]),
    ("var g = function self(){ function self(){ return 2 } return self() }; g()", 2),
    ("function w(n, p1, p2){ var q1 = 1, q2 = 2, q3 = 3; function inner(){ return q1 + q2 + q3 } var t = typeof w; if (n > 2) { var w = 0; } return t + inner() } w(2)", "undefined6"),
    ("var h = function me(){ var k = function(){ return typeof me }; return k() }; h()", "function"),
    ("var h = function me(){ var me; var k = function(){ return typeof me }; return k() }; h()", "undefined"),
    # ++ / -- / compound assignment on a captured variable that is neither the first local nor the first captured one
    ("function counter(step, start){ var get = function(){ return start + ':' + step }; start++; return get() } counter(10, 1)", "2:10"),
    ("function counter(step, start, pad){ var get = function(){ return [start, step, pad].join(':') }; ++start; pad--; step += 5; return get() } counter(10, 1, 7)", "2:15:6"),
    ("function f(a, b){ var x = 1, y = 2, z = 3; var g = function(){ return [a, b, x, y, z].join() }; z++; y *= 5; --x; b -= 1; a **= 2; return g() } f(3, 4)", "9,3,0,10,4"),
    ("function f(){ var i = 0, j = 10, k = 100; var inc = function(){ return [i++, ++j, k--].join() }; inc(); return inc() + '|' + [i, j, k].join() } f()", "1,12,99|2,12,98"),
    ("function many(a, b, c){ var v1 = a, v2 = b, v3 = c, v4 = a + b, v5 = b + c, v6 = a + c; var cl = function(){ return [v1, v2, v3, v4, v5, v6].join() }; return many.length + ':' + cl() } many(1, 2, 3)", "3:1,2,3,3,5,4"),
    # calls with fewer and with MORE arguments than parameters: surplus arguments reach `arguments` only, never the locals
    ("function f(a){ if (a) { var t = 1 } return t } [f(0, 7, 8), f(1, 7, 8)]", [None, 1]),
    ("function f(a){ var u; var r = typeof u; u = a; return r + ':' + arguments.length } f(1, 2, 3)", "undefined:3"),
    ("function mk(a){ var kept; var g = function(){ return kept }; return g } mk(0, 5, 6)()", None),
    ("function f(a, b, c){ var x; return [a, b, c, x, arguments.length] } f(1)", [1, None, None, None, 1]),
    ("function f(){ var x, y; return [x, y, arguments[0], arguments[1], arguments.length] } f(7, 8, 9)", [None, None, 7, 8, 3]),
    ("var f = (a) => { var z; return [a, z] }; f(1, 2, 3)", [1, None]),
    ("function F(a){ var hidden; this.v = [a, hidden] } new F(1, 2, 3).v", [1, None]),
    ("function f(a){ var w; return [a, w] } [f.call(null, 1, 2, 3), f.apply(null, [4, 5, 6]), f.bind(null, 7, 8)(9)]", [[1, None], [4, None], [7, None]]),
]
