"""ECMA-262 22.1.3 String.prototype methods as spec functions (see specs/es_core.py for the
conventions).  Indices are code-point indices (Python str); they coincide with ES code-unit
indices on BMP-only strings - stated in the evidence, see DESIGN C16."""
import math
from pyvc.api import abstract, TypeError_, RangeError_, INF, NAN
from microjs.values import UNDEFINED, NULL, JSRegExp
from specs.es_core import arg, ToNumber, ToString, ToIntegerOrInfinity, ToUint32, clamp


def string_index_of(s, search, start):
    """7.2.? StringIndexOf(string, searchValue, fromIndex) with 0 <= start <= len(s)"""
    return s.find(search, start)


def charAt(s, args):                                    # 22.1.3.2
    pos = ToIntegerOrInfinity(arg(args, 0))
    if pos < 0 or pos >= len(s):
        return ""
    return s[pos]


def charCodeAt(s, args):                                # 22.1.3.3
    pos = ToIntegerOrInfinity(arg(args, 0))
    if pos < 0 or pos >= len(s):
        return NAN
    return ord(s[pos])


def indexOf(s, args):                                   # 22.1.3.9
    search = ToString(arg(args, 0))
    pos = ToIntegerOrInfinity(arg(args, 1))
    start = clamp(pos, 0, len(s))
    return string_index_of(s, search, start)


def lastIndexOf(s, args):                               # 22.1.3.11
    search = ToString(arg(args, 0))
    num_pos = ToNumber(arg(args, 1))
    if math.isnan(num_pos):
        pos = INF
    else:
        pos = ToIntegerOrInfinity(num_pos)
    n = len(s)
    m = len(search)
    if m > n:
        return -1
    start = clamp(pos, 0, n - m)
    # largest k <= start with s[k:k+m] == search
    return s.rfind(search, 0, start + m)


def substring(s, args):                                 # 22.1.3.25
    n = len(s)
    int_start = ToIntegerOrInfinity(arg(args, 0))
    end = arg(args, 1)
    if end is UNDEFINED:
        int_end = n
    else:
        int_end = ToIntegerOrInfinity(end)
    fs = clamp(int_start, 0, n)
    fe = clamp(int_end, 0, n)
    if fs <= fe:
        return s[fs:fe]
    return s[fe:fs]


def slice_(s, args):                                    # 22.1.3.22
    n = len(s)
    int_start = ToIntegerOrInfinity(arg(args, 0))
    if int_start == -INF:
        frm = 0
    elif int_start < 0:
        frm = max(n + int_start, 0)
    else:
        frm = min(int_start, n)
    end = arg(args, 1)
    if end is UNDEFINED:
        int_end = n
    else:
        int_end = ToIntegerOrInfinity(end)
    if int_end == -INF:
        to = 0
    elif int_end < 0:
        to = max(n + int_end, 0)
    else:
        to = min(int_end, n)
    if frm >= to:
        return ""
    return s[frm:to]


@abstract("py_lower")
def ascii_lower(s):
    return s.lower()


@abstract("py_upper")
def ascii_upper(s):
    return s.upper()


def toLowerCase(s, args):                               # 22.1.3.28 (documented: host case mapping, ASCII guaranteed)
    return ascii_lower(s)


def toUpperCase(s, args):                               # 22.1.3.30
    return ascii_upper(s)


@abstract("es_trim")
def es_trim(s, where):
    from specs.es_core import ES_WHITESPACE
    i, j = 0, len(s)
    if where in ("both", "start"):
        while i < j and s[i] in ES_WHITESPACE:
            i += 1
    if where in ("both", "end"):
        while j > i and s[j - 1] in ES_WHITESPACE:
            j -= 1
    return s[i:j]


def trim(s, args):                                      # 22.1.3.32
    return es_trim(s, "both")


def trimStart(s, args):
    return es_trim(s, "start")


def trimEnd(s, args):
    return es_trim(s, "end")


# 6.1.4: an implementation may bound string lengths; exceeding its bound is a RangeError.  The bound is the
# engine's own constant (read from the real module: any value is accepted, the contract only fixes the behaviour
# on both sides of it)
try:
    from microjs.vm import MAX_STRING_LENGTH as STRING_LIMIT
except Exception:      # noqa
    STRING_LIMIT = 2 ** 30


def repeat(s, args):                                    # 22.1.3.18
    n = ToIntegerOrInfinity(arg(args, 0))
    if n < 0 or n == INF:
        raise RangeError_("Invalid count value")
    if len(s) * n > STRING_LIMIT:
        raise RangeError_("Invalid string length")
    if s == "":
        return ""
    return s * n


def _is_regexp(v):
    return isinstance(v, JSRegExp)


def startsWith(s, args):                                # 22.1.3.24
    search_v = arg(args, 0)
    if _is_regexp(search_v):
        raise TypeError_("First argument to String.prototype.startsWith must not be a regular expression")
    search = ToString(search_v)
    n = len(s)
    pos = ToIntegerOrInfinity(arg(args, 1))
    start = clamp(pos, 0, n)
    m = len(search)
    if start + m > n:
        return False
    return s[start:start + m] == search


def endsWith(s, args):                                  # 22.1.3.7
    search_v = arg(args, 0)
    if _is_regexp(search_v):
        raise TypeError_("First argument to String.prototype.endsWith must not be a regular expression")
    search = ToString(search_v)
    n = len(s)
    endp = arg(args, 1)
    if endp is UNDEFINED:
        pos = n
    else:
        pos = ToIntegerOrInfinity(endp)
    end = clamp(pos, 0, n)
    m = len(search)
    start = end - m
    if start < 0:
        return False
    return s[start:end] == search


def includes(s, args):                                  # 22.1.3.8
    search_v = arg(args, 0)
    if _is_regexp(search_v):
        raise TypeError_("First argument to String.prototype.includes must not be a regular expression")
    search = ToString(search_v)
    pos = ToIntegerOrInfinity(arg(args, 1))
    start = clamp(pos, 0, len(s))
    return string_index_of(s, search, start) != -1


def toString(s, args):                                  # 22.1.3.29
    return s


def concat2(s, args):                                   # 22.1.3.5 for up to 3 arguments (bounded form)
    r = s
    if len(args) > 0:
        r = r + ToString(args[0])
    if len(args) > 1:
        r = r + ToString(args[1])
    if len(args) > 2:
        r = r + ToString(args[2])
    return r


# ---- length / index accessors (10.4.3 String exotic objects) -------------------------------
def canonical_index(key):
    """CanonicalNumericIndexString restricted to array indices: the integer i with ToString(i) == key, else None"""
    if key == "":
        return None
    if key == "0":
        return 0
    if key[0] in "123456789" and all(c in "0123456789" for c in key):
        return int(key)
    return None
