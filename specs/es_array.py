"""ECMA-262 23.1.3 Array.prototype methods on dense arrays, as functions over Python lists (list model).
Each returns (result, new_contents); callbacks are Python callables invoked as cb(value, index)."""
import math
from specs.es_core import ToIntegerOrInfinity, ToString, ToNumber, INF
from specs.es_ops import strict_equals
from microjs.values import UNDEFINED, NULL


def rel(v, n, default):
    """relative index: undefined -> default; negative counts from the end; clamped to [0, n]"""
    if v is UNDEFINED:
        return default
    k = ToIntegerOrInfinity(v)
    if k == -INF:
        return 0
    if k < 0:
        return max(n + k, 0)
    return min(k, n)


def arg(a, i):
    return a[i] if len(a) > i else UNDEFINED


def same_value_zero(x, y):
    if isinstance(x, float) and isinstance(y, float) and math.isnan(x) and math.isnan(y):
        return True
    return strict_equals(x, y)


def elem_str(e):
    return "" if e is UNDEFINED or e is NULL else ToString(e)


def m_push(l, a):
    l = l + list(a)
    return len(l), l


def m_pop(l, a):
    if not l:
        return UNDEFINED, l
    return l[-1], l[:-1]


def m_shift(l, a):
    if not l:
        return UNDEFINED, l
    return l[0], l[1:]


def m_unshift(l, a):
    l = list(a) + l
    return len(l), l


def m_join(l, a):
    sep = "," if arg(a, 0) is UNDEFINED else ToString(arg(a, 0))
    return sep.join(elem_str(e) for e in l), l


def m_toString(l, a):
    return ",".join(elem_str(e) for e in l), l


def m_indexOf(l, a):
    n = len(l)
    if n == 0:
        return -1, l
    k = ToIntegerOrInfinity(arg(a, 1))
    if k == INF:
        return -1, l
    if k == -INF:
        k = 0
    if k < 0:
        k = max(n + k, 0)
    for i in range(k, n):
        if strict_equals(l[i], arg(a, 0)):
            return i, l
    return -1, l


def m_lastIndexOf(l, a):
    n = len(l)
    if n == 0:
        return -1, l
    k = ToIntegerOrInfinity(a[1]) if len(a) > 1 else n - 1
    if k == -INF:
        return -1, l
    k = min(k, n - 1) if k >= 0 else n + k
    i = k
    while i >= 0:
        if strict_equals(l[i], arg(a, 0)):
            return i, l
        i -= 1
    return -1, l


def m_includes(l, a):
    n = len(l)
    if n == 0:
        return False, l
    k = ToIntegerOrInfinity(arg(a, 1))
    if k == INF:
        return False, l
    if k == -INF:
        k = 0
    if k < 0:
        k = max(n + k, 0)
    return any(same_value_zero(l[i], arg(a, 0)) for i in range(k, n)), l


def m_concat(l, a):
    out = list(l)
    for x in a:
        if isinstance(x, list):
            out.extend(x)
        else:
            out.append(x)
    return out, l


def m_slice(l, a):
    n = len(l)
    k = rel(arg(a, 0), n, 0)
    f = rel(arg(a, 1), n, n)
    return l[k:f] if f > k else [], l


def m_splice(l, a):
    n = len(l)
    start = rel(arg(a, 0), n, 0)
    if len(a) == 0:
        dc = 0
    elif len(a) == 1:
        dc = n - start
    else:
        d = ToIntegerOrInfinity(a[1])
        dc = min(max(d, 0), n - start)
    items = list(a[2:])
    return l[start:start + dc], l[:start] + items + l[start + dc:]


def m_reverse(l, a):
    return "<receiver>", l[::-1]


def sort_default_key(x, y):
    sx, sy = ToString(x), ToString(y)
    return -1 if sx < sy else (1 if sx > sy else 0)


def m_sort_default(l, a):
    import functools
    defined = [e for e in l if e is not UNDEFINED]
    undef = [e for e in l if e is UNDEFINED]
    return "<receiver>", sorted(defined, key=functools.cmp_to_key(sort_default_key)) + undef
