"""Statement skeletons + a reference interpreter with ECMAScript completion-record semantics
(ECMA-262 14.x: Normal / Break(label) / Continue(label) / Return(v) / Throw(v)).  The same skeleton
yields the JavaScript source (fed to the real parser/compiler/VM) and the expected log / result.

Skeleton AST (tuples):
  ("log", tag)                     L('tag');                      expression statement
  ("seq", [s...])                  { s... }
  ("if", cond, s, s|None)          cond: ("c", tag, bool)  -> L('tag') yielding the bool
  ("while", condseq, s)            condseq: tag, list of bools consumed per evaluation (then false)
  ("dowhile", condseq, s)
  ("for", condseq, s)              for (L('i');  cond; L('u')) s
  ("forin", n, s)                  for (var k in {a:..}) with n keys; logs each key
  ("forof", n, s)
  ("switch", val, [(caseval|None, [s...])...])
  ("label", name, s)
  ("try", s, catch|None, fin|None)
  ("break", label|None) ("continue", label|None) ("return", tag|None) ("throw", tag)
  ("callthrow", tag)               x = 1 + T('tag')   where T throws: pending operands at the throw point
  ("expr", tag)                    y = L('a') + F(L('b'), L('c'))  operand order + pending operands
"""
import itertools


class Completion(Exception):
    def __init__(self, kind, value=None, label=None):
        self.kind, self.value, self.label = kind, value, label


def js(s, ctr=None):
    """JavaScript source of a skeleton"""
    k = s[0]
    if k == "log":
        return f"L('{s[1]}');"
    if k == "seq":
        return "{ " + " ".join(js(x) for x in s[1]) + " }"
    if k == "if":
        c = f"C('{s[1][1]}',{str(s[1][2]).lower()})"
        return f"if ({c}) {js(s[2])}" + (f" else {js(s[3])}" if s[3] is not None else "")
    if k == "while":
        return f"while (N('{s[1][0]}')) {js(s[2])}"
    if k == "dowhile":
        return f"do {js(s[2])} while (N('{s[1][0]}'));"
    if k == "for":
        return f"for (L('{s[1][0]}i'); N('{s[1][0]}'); L('{s[1][0]}u')) {js(s[2])}"
    if k == "forin":
        obj = "{" + ",".join(f"k{i}:{i}" for i in range(s[1])) + "}"
        return f"for (var k in {obj}) {{ L(k); {js(s[2])} }}"
    if k == "forof":
        arr = "[" + ",".join(f"'v{i}'" for i in range(s[1])) + "]"
        return f"for (var v of {arr}) {{ L(v); {js(s[2])} }}"
    if k == "switch":
        body = ""
        for cv, stmts in s[2]:
            body += (f"case {cv}: " if cv is not None else "default: ") + " ".join(js(x) for x in stmts) + " "
        return f"switch (V({s[1]})) {{ {body}}}"
    if k == "label":
        return f"{s[1]}: {js(s[2])}"
    if k == "try":
        blk = lambda x: js(x) if x[0] == "seq" else "{ " + js(x) + " }"
        out = f"try {blk(s[1])}"
        if s[2] is not None:
            out += f" catch (ex) {{ L('c:'+ex); {js(s[2])} }}"
        if s[3] is not None:
            out += f" finally {blk(s[3])}"
        return out
    if k == "fn":
        # ("fn", kind, tag, body): a nested function called at once; its return value is logged
        body = js(s[3])
        if s[1] == "arrow":
            f = f"(() => {{ {body} return '{s[2]}n'; }})()"
        elif s[1] == "funcexpr":
            f = f"(function () {{ {body} return '{s[2]}n'; }})()"
        elif s[1] == "callback":
            f = f"[0].map(function (q) {{ {body} return '{s[2]}n'; }})[0]"
        elif s[1] == "getter":
            f = f"({{get p() {{ {body} return '{s[2]}n'; }}}}).p"
        else:
            raise ValueError(s[1])
        return f"L('{s[2]}:' + {f});"
    if k == "break":
        return "break" + (f" {s[1]}" if s[1] else "") + ";"
    if k == "continue":
        return "continue" + (f" {s[1]}" if s[1] else "") + ";"
    if k == "return":
        return "return" + (f" L('{s[1]}')" if s[1] else "") + ";"
    if k == "throw":
        return f"throw L('{s[1]}');"
    if k == "callthrow":
        return f"x = 1 + F(L('{s[1]}a'), T('{s[1]}'));"
    if k == "expr":
        return f"y = L('{s[1]}a') + F(L('{s[1]}b'), L('{s[1]}c'));"
    if k == "exprs":
        # expression statements of every operator form: each value is discarded, nothing stays behind
        t = s[1]
        return "{ " + (f"delete F(L('{t}a'), 0); delete 0; delete x; void L('{t}b'); typeof x; typeof nope; -x; !x; ~x; +x; x, y; (x); [L('{t}c')]; ({{a: 1}}); x ? 1 : 2; x && y; x || y; "
                f"x++; ++x; x--; --x; new Object; new Object(1); 'str'; 1.5; null; /r/; (function () {{}}); (() => 1); x = y = 1; o.p; o['p']; o.p = 1; o.p += 1; o.p++; delete o.p; delete o['q']; "
                f"'p' in o; o instanceof Object; x === y; x < y; x + y; x ** 2; x >>> 1; [1, 2][0]; F(1, 2); o.m(); this;") + " }"
    raise ValueError(k)


PRELUDE = """var log=[]; var counts={}; var x, y; var o = {p: 1, m: function () { return 1 }};
function L(t){ log.push(t); return t }
function C(t,b){ log.push(t); return b }
function V(v){ log.push('sw'); return v }
function N(t){ counts[t] = (counts[t]||0) + 1; log.push(t + counts[t]); return counts[t] <= 2 }
function F(a,b){ return a + '|' + b }
function T(t){ log.push('T' + t); throw 'E' + t }
"""


class Ref:
    """reference interpreter (spec): loops run while the N-counter is <= 2"""
    def __init__(self):
        self.log = []
        self.counts = {}

    def N(self, t):
        self.counts[t] = self.counts.get(t, 0) + 1
        self.log.append(f"{t}{self.counts[t]}")
        return self.counts[t] <= 2

    def run(self, s, labels=()):
        k = s[0]
        if k == "log":
            self.log.append(s[1])
        elif k == "seq":
            for x in s[1]:
                self.run(x)
        elif k == "if":
            self.log.append(s[1][1])
            if s[1][2]:
                self.run(s[2])
            elif s[3] is not None:
                self.run(s[3])
        elif k in ("while", "dowhile", "for", "forin", "forof"):
            self.loop(s, labels)
        elif k == "switch":
            self.log.append("sw")
            cases = s[2]
            start = None
            for i, (cv, _) in enumerate(cases):
                if cv is not None and cv == s[1]:
                    start = i
                    break
            if start is None:
                for i, (cv, _) in enumerate(cases):
                    if cv is None:
                        start = i
            if start is not None:
                try:
                    for cv, stmts in cases[start:]:
                        for x in stmts:
                            self.run(x)
                except Completion as c:
                    if not (c.kind == "break" and c.label is None):
                        raise
        elif k == "label":
            try:
                self.run(s[2], labels + (s[1],))
            except Completion as c:
                if not (c.kind == "break" and c.label == s[1]):
                    raise
        elif k == "try":
            self.do_try(s)
        elif k == "fn":
            # a function boundary: return leaves the nested function only, break/continue cannot cross it
            try:
                self.run(s[3])
                v = s[2] + "n"
            except Completion as c:
                if c.kind == "return":
                    v = "undefined" if c.value is None else c.value
                elif c.kind == "throw":
                    raise
                else:
                    raise Completion("syntax")
            self.log.append(f"{s[2]}:{v}")
        elif k == "break":
            raise Completion("break", label=s[1])
        elif k == "continue":
            raise Completion("continue", label=s[1])
        elif k == "return":
            if s[1]:
                self.log.append(s[1])
            raise Completion("return", s[1] if s[1] else None)
        elif k == "throw":
            self.log.append(s[1])
            raise Completion("throw", s[1])
        elif k == "callthrow":
            self.log.append(s[1] + "a")
            self.log.append("T" + s[1])
            raise Completion("throw", "E" + s[1])
        elif k == "expr":
            self.log += [s[1] + "a", s[1] + "b", s[1] + "c"]
        elif k == "exprs":
            self.log += [s[1] + "a", s[1] + "b", s[1] + "c"]
        else:
            raise ValueError(k)

    def body_once(self, body, labels):
        """returns 'break' / 'continue' / 'normal'; label set = labels of this loop"""
        try:
            self.run(body)
        except Completion as c:
            if c.kind == "break" and (c.label is None or c.label in labels):
                return "break"
            if c.kind == "continue" and (c.label is None or c.label in labels):
                return "continue"
            raise
        return "normal"

    def loop(self, s, labels):
        k = s[0]
        if k == "while":
            while self.N(s[1][0]):
                if self.body_once(s[2], labels) == "break":
                    return
        elif k == "dowhile":
            while True:
                if self.body_once(s[2], labels) == "break":
                    return
                if not self.N(s[1][0]):
                    return
        elif k == "for":
            self.log.append(s[1][0] + "i")
            while self.N(s[1][0]):
                if self.body_once(s[2], labels) == "break":
                    return
                self.log.append(s[1][0] + "u")
        elif k in ("forin", "forof"):
            for i in range(s[1]):
                self.log.append(("k" if k == "forin" else "v") + str(i))
                if self.body_once(s[2], labels) == "break":
                    return

    def do_try(self, s):
        _, block, catch, fin = s
        pending = None
        try:
            try:
                self.run(block)
            except Completion as c:
                if c.kind == "throw" and catch is not None:
                    self.log.append("c:" + str(c.value))
                    self.run(catch)
                else:
                    raise
        except Completion as c:
            pending = c
        if fin is not None:
            self.run(fin)          # an abrupt completion of finally replaces the pending one
        if pending is not None:
            raise pending


def expected(prog):
    """(log, outcome) of  function P(){ <prog> return 'end' }  called once"""
    r = Ref()
    try:
        r.run(prog)
        out = ("return", "end")
    except Completion as c:
        if c.kind == "return":
            out = ("return", c.value)
        elif c.kind == "throw":
            out = ("throw", c.value)
        else:
            out = ("syntax", None)        # break/continue with no target (or across a function boundary)
    return r.log, out


def source(prog):
    return PRELUDE + "function P(){ " + js(prog) + " return 'end' }\nvar res; try { res = ['return', P()] } catch (e) { res = ['throw', e] }\n[log.join(','), res[0], String(res[1])]"


# ---- skeleton enumeration ----------------------------------------------------------------------------
LEAVES = [("log", "s"), ("break", None), ("continue", None), ("return", "r"), ("return", None), ("throw", "t"), ("callthrow", "q"),
          ("expr", "e"), ("break", "A"), ("continue", "A"), ("exprs", "u")]


def wrappers(tagger):
    """statement constructors with one hole"""
    t = tagger
    W = {
        "block": lambda h: ("seq", [("log", t("b")), h, ("log", t("a"))]),
        "if": lambda h: ("if", ("c", t("i"), True), h, ("log", t("e"))),
        "else": lambda h: ("if", ("c", t("i"), False), ("log", t("n")), h),
        "while": lambda h: ("while", (t("w"),), ("seq", [h, ("log", t("x"))])),
        "dowhile": lambda h: ("dowhile", (t("d"),), ("seq", [h, ("log", t("x"))])),
        "for": lambda h: ("for", (t("f"),), ("seq", [h, ("log", t("x"))])),
        "forin": lambda h: ("forin", 2, ("seq", [h, ("log", t("x"))])),
        "forof": lambda h: ("forof", 2, ("seq", [h, ("log", t("x"))])),
        "switch": lambda h: ("switch", 1, [(0, [("log", t("z"))]), (1, [("log", t("o")), h]), (None, [("log", t("df"))]), (2, [("log", t("tw"))])]),
        "switch-default": lambda h: ("switch", 9, [(0, [("log", t("z"))]), (None, [h, ("log", t("df"))]), (2, [("log", t("tw")), ("break", None)])]),
        # the default clause is taken only when NO case matches, wherever it is written (ECMA-262 14.12.2 CaseBlockEvaluation)
        "switch-default-before-match": lambda h: ("switch", 2, [(0, [("log", t("z"))]), (None, [("log", t("df"))]), (2, [("log", t("tw")), h]), (3, [("log", t("th"))])]),
        "switch-default-first": lambda h: ("switch", 1, [(None, [("log", t("df"))]), (1, [("log", t("o")), h])]),
        "switch-default-first-miss": lambda h: ("switch", 5, [(None, [("log", t("df")), h]), (1, [("log", t("o"))])]),
        "switch-nodefault-miss": lambda h: ("seq", [("switch", 7, [(0, [("log", t("z"))]), (1, [h, ("log", t("o"))])]), h]),
        "switch-nodefault-hit": lambda h: ("switch", 1, [(0, [("log", t("z"))]), (1, [h, ("log", t("o"))])]),
        "labelled-block": lambda h: ("label", "A", ("seq", [("log", t("lb")), h, ("log", t("la"))])),
        "labelled-loop": lambda h: ("label", "A", ("while", (t("lw"),), ("seq", [h, ("log", t("lx"))]))),
        "try-catch": lambda h: ("try", ("seq", [h, ("log", t("ta"))]), ("log", t("ch")), None),
        "try-finally": lambda h: ("try", ("seq", [h, ("log", t("ta"))]), None, ("log", t("fn"))),
        "try-catch-finally": lambda h: ("try", ("seq", [h, ("log", t("ta"))]), ("log", t("ch")), ("log", t("fn"))),
        "in-catch": lambda h: ("try", ("throw", t("th")), ("seq", [h, ("log", t("ca"))]), ("log", t("fn"))),
        "in-catch-nofinally": lambda h: ("try", ("throw", t("th")), ("seq", [h, ("log", t("ca"))]), None),
        "in-finally": lambda h: ("try", ("log", t("tb")), None, ("seq", [h, ("log", t("fa"))])),
        "in-finally-after-throw": lambda h: ("try", ("throw", t("th")), None, ("seq", [h, ("log", t("fa"))])),
        # the try block is LEFT by break / continue / return while a catch clause exists, and the hole sits in the finally
        # block that runs on that exit path: what the finally block does then (throw, jump, return) must not be seen by the
        # statement's own catch clause, and its handler must be gone
        "finally-after-break": lambda h: ("while", (t("bw"),), ("seq", [("try", ("seq", [("log", t("tb")), ("break", None)]), ("log", t("ch")), ("seq", [("log", t("fb")), h])), ("log", t("bx"))])),
        "finally-after-continue": lambda h: ("while", (t("cw"),), ("seq", [("try", ("seq", [("log", t("tb")), ("continue", None)]), ("log", t("ch")), ("seq", [("log", t("fb")), h])), ("log", t("cx"))])),
        "finally-after-return": lambda h: ("try", ("seq", [("log", t("tb")), ("return", t("rv"))]), ("log", t("ch")), ("seq", [("log", t("fb")), h])),
        # function boundaries nested in the construct: the exits of the inner function must not touch the contexts
        # (loops, handlers, finally blocks) of the code around it
        "arrow": lambda h: ("fn", "arrow", t("ar"), ("seq", [("log", t("ab")), h])),
        "funcexpr": lambda h: ("fn", "funcexpr", t("fe"), ("seq", [("log", t("fb")), h])),
        "callback": lambda h: ("fn", "callback", t("cb"), ("seq", [("log", t("kb")), h])),
        "getter": lambda h: ("fn", "getter", t("gt"), ("seq", [("log", t("gb")), h])),
    }
    return W


def skeletons(depth, outer_loop=True):
    """all nestings of `depth` wrappers around each leaf (fresh tags per level), optionally inside an outer
    loop so that break/continue have a target"""
    ctr = itertools.count()

    def tagger(level):
        return lambda base: f"{base}{level}"
    Ws = [wrappers(tagger(i)) for i in range(depth)]
    names = list(Ws[0]) if depth else []
    for combo in itertools.product(names, repeat=depth):
        for leaf in LEAVES:
            s = leaf
            for lvl in range(depth - 1, -1, -1):
                s = Ws[lvl][combo[lvl]](s)
            if outer_loop:
                s = ("seq", [("for", ("O",), ("seq", [s, ("log", "ox")])), ("log", "after")])
            yield combo, leaf, s
