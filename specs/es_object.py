"""Reference object model (ECMA-262 10.1 ordinary objects, 10.2 function objects, 13.x operators,
20.1 Object.*) for histories of object-graph operations, plus the generator of those histories.

The same history yields (a) a JavaScript program fed to the real engine through Context.eval and
(b) the expected observation log computed by the reference model below.  Strict-mode function
semantics are used throughout (plain call: this = undefined; primitives are not boxed), which is
what the engine documents.  Property attributes are outside the model (the engine documents that
they are not implemented): defineProperty is only generated with complete, all-true descriptors, for
which ES behaviour coincides with plain data / accessor properties.

Reference semantics transcribed from:
  OrdinaryGet 10.1.8.1, OrdinarySet 10.1.9.1/.2, OrdinaryHasProperty 10.1.7.1, OrdinaryDelete 10.1.10.1,
  OrdinaryOwnPropertyKeys 10.1.11.1 (integer keys ascending, then strings in creation order),
  ValidateAndApplyPropertyDescriptor 10.1.6.3 (data<->accessor conversion keeps the position; absent
  get/set fields keep the old value), OrdinarySetPrototypeOf 10.1.2.1 (cycle => TypeError from
  Object.setPrototypeOf), OrdinaryCreateFromConstructor 10.1.13 / [[Construct]] 10.2.2 (prototype read
  at call time, fallback Object.prototype, object result overrides), InstanceofOperator 13.10.2 /
  OrdinaryHasInstance 7.3.22 (bound functions use the target), EnumerableOwnProperties 7.3.23,
  for-in: the engine documents own keys only (the ES chain walk is NOT required by the property).
"""
import random

UNDEF = ("u",)
NULL = ("n",)


class TypeErr(Exception):
    pass


class RObj:
    """an object of the reference heap"""

    def __init__(self, kind="object", proto=None):
        self.kind = kind            # object | function | array
        self.proto = proto
        self.props = {}             # key -> ["data", value] | ["acc", getter|None, setter|None]   (insertion ordered)
        self.fn = None              # for functions: dict describing the template
        self.elems = None           # arrays (read-only in histories)
        self.hidden = set()         # non-enumerable own keys (only the built-in `constructor` of a function's prototype)

    def own_keys(self):
        ks = list(self.props)
        if self.kind == "array":
            ks = [str(i) for i in range(len(self.elems))] + ks
        idx = [k for k in ks if is_index(k)]
        return sorted(idx, key=int) + [k for k in ks if not is_index(k)]


def is_index(k):
    return k.isdigit() and k.isascii() and (k == "0" or k[0] != "0") and int(k) < 2 ** 32 - 1


class Heap:
    def __init__(self):
        self.object_proto = RObj()
        self.function_proto = RObj("function", proto=self.object_proto)
        self.function_proto.fn = dict(tmpl="noop", name="", length=0)
        self.array_proto = RObj(proto=self.object_proto)
        self.all = []               # registered objects, in registration order (identity = index)
        self.vars = {}

    # ---- abstract operations ----------------------------------------------------------------
    def own(self, o, k):
        if o.kind == "array":
            if is_index(k) and int(k) < len(o.elems):
                return ["data", o.elems[int(k)]]
            if k == "length":
                return ["data", len(o.elems)]
        if o.kind == "function":
            if k == "prototype" and "prototype" in o.fn:
                return ["data", o.fn["prototype"]]
            if k == "length":
                return ["data", o.fn["length"]]
            if k == "name":
                return ["data", o.fn["name"]]
        return o.props.get(k)

    def find(self, o, k):
        while o is not None:
            p = self.own(o, k)
            if p is not None:
                return o, p
            o = o.proto
        return None, None

    def get(self, o, k, receiver=None):
        receiver = o if receiver is None else receiver
        _, p = self.find(o, k)
        if p is None:
            return UNDEF
        if p[0] == "data":
            return p[1]
        if p[1] is None:
            return UNDEF
        return self.call(p[1], receiver, [])

    def set(self, o, k, v):
        """strict-mode assignment o[k] = v.  Returns 'ok' or 'TypeError?' (no state change; ES strict
        throws, sloppy ignores: both accepted)"""
        holder, p = self.find(o, k)
        if p is not None and p[0] == "acc":
            if p[2] is None:
                return "noop"
            self.call(p[2], o, [v])
            return "ok"
        if o.kind == "function" and k in ("name", "length"):
            return "noop"
        if o.kind == "function" and k == "prototype":
            o.fn["prototype"] = v
            return "ok"
        if holder is o:
            p[1] = v
        else:
            o.props[k] = ["data", v]
        return "ok"

    def has(self, o, k):
        return self.find(o, k)[1] is not None

    def has_own(self, o, k):
        return self.own(o, k) is not None

    def delete(self, o, k):
        if o.kind == "function" and k in ("prototype",):
            return False        # non-configurable (strict: TypeError)
        if k in o.props:
            del o.props[k]
            o.hidden.discard(k)
        return True

    def define_data(self, o, k, v):
        p = o.props.get(k)
        if p is None:
            o.props[k] = ["data", v]
        else:
            p[:] = ["data", v]

    def define_acc(self, o, k, getter=Ellipsis, setter=Ellipsis):
        """absent fields (Ellipsis) keep the previous accessor half; converting from data starts from none"""
        p = o.props.get(k)
        if p is None:
            p = o.props[k] = ["acc", None, None]
        elif p[0] == "data":
            p[:] = ["acc", None, None]
        if getter is not Ellipsis:
            p[1] = getter
        if setter is not Ellipsis:
            p[2] = setter

    def set_proto(self, o, proto):
        q = proto
        while q is not None:
            if q is o:
                raise TypeErr("cyclic")
            q = q.proto
        o.proto = proto

    def keys(self, o):
        """EnumerableOwnProperties"""
        return [k for k in o.own_keys() if k not in o.hidden]

    def instance_of(self, v, f):
        if not (isinstance(f, RObj) and f.kind == "function"):
            raise TypeErr("rhs not callable")
        while "target" in f.fn:
            f = f.fn["target"]
        if not isinstance(v, RObj):
            return False
        p = self.own(f, "prototype")
        p = p[1] if p else UNDEF
        if not isinstance(p, RObj):
            raise TypeErr("prototype not object")
        q = v.proto
        while q is not None:
            if q is p:
                return True
            q = q.proto
        return False

    # ---- functions --------------------------------------------------------------------------
    def make_fn(self, tmpl, name="", length=0, ctor=True, **kw):
        f = RObj("function", self.function_proto)
        f.fn = dict(tmpl=tmpl, name=name, length=length, **kw)
        if ctor:
            pr = RObj(proto=self.object_proto)
            pr.props["constructor"] = ["data", f]
            pr.hidden.add("constructor")
            f.fn["prototype"] = pr
        return f

    def call(self, f, this, args):
        fn = f.fn
        if "target" in fn:
            return self.call(fn["target"], fn["this"], list(fn["args"]) + list(args))
        t = fn["tmpl"]
        a0 = args[0] if args else UNDEF
        if t == "getter":
            return self.get_v(this, fn["k"])
        if t == "setter":
            self.set_v(this, fn["k"], a0)
            return UNDEF
        if t == "method":
            return ("s", f"{fn['tag']}:{self.render(this)}:{len(args)}")
        if t == "ctor":
            if fn.get("k"):
                self.set_v(this, fn["k"], a0)
            r = fn.get("ret")
            return self.vars.get("RET", UNDEF) if r == "RET" else UNDEF
        raise AssertionError(t)

    def construct(self, f, args):
        if not (isinstance(f, RObj) and f.kind == "function"):
            raise TypeErr("not a constructor")
        target = f
        pre = []
        while "target" in target.fn:
            pre = list(target.fn["args"]) + pre
            target = target.fn["target"]
        if not target.fn.get("ctor", True) or "prototype" not in target.fn:
            raise TypeErr("not a constructor")
        p = target.fn["prototype"]
        o = RObj(proto=p if isinstance(p, RObj) else self.object_proto)
        r = self.call(target, o, pre + list(args))
        return r if isinstance(r, RObj) else o

    # value-level get/set (primitives as receivers raise on undefined/null, read undefined otherwise)
    def get_v(self, v, k):
        if v is UNDEF or v is NULL:
            raise TypeErr("read of undefined")
        if not isinstance(v, RObj):
            return UNDEF
        return self.get(v, k)

    def set_v(self, v, k, x):
        if v is UNDEF or v is NULL:
            raise TypeErr("write to undefined")
        if not isinstance(v, RObj):
            return      # strict: TypeError for primitives; not generated
        self.set(v, k, x)

    # ---- observation ------------------------------------------------------------------------
    def ident(self, v):
        for i, o in enumerate(self.all):
            if o is v:
                return f"#{i}"
        if v is self.object_proto:
            return "OP"
        if v is self.function_proto:
            return "FP"
        return "fn" if v.kind == "function" else "obj"

    def render(self, v):
        if v is UNDEF:
            return "u"
        if v is NULL:
            return "n"
        if isinstance(v, RObj):
            return self.ident(v)
        if v[0] == "b":
            return "b:" + ("true" if v[1] else "false")
        return f"{v[0]}:{v[1]}"

    def observe(self, keys, ctors):
        out = []
        for i, o in enumerate(self.all):
            s = f"#{i}{{"
            for k in keys:
                try:
                    v = self.get(o, k)
                    r = self.render(v)
                    if isinstance(v, RObj) and v.kind == "function" and v.fn.get("tmpl") == "method":
                        r += "(" + self.render(self.call(v, o, [("i", 1), ("i", 2)])) + ")"
                except TypeErr:
                    r = "!TypeError"
                s += f"{k}={r},{'I' if self.has(o, k) else 'i'}{'O' if self.has_own(o, k) else 'o'};"
            ks = self.keys(o)
            s += "K=" + "/".join(ks) + ";"
            s += "F=" + "".join(k + "/" for k in ks) + ";"
            vals = []
            for k in ks:
                try:
                    vals.append(self.render(self.get(o, k)))
                except TypeErr:
                    vals.append("!TypeError")
            s += "V=" + "/".join(vals) + ";"
            s += "E=" + "/".join(f"{k}~{v}" for k, v in zip(ks, vals)) + ";"
            s += "P=" + (self.render(o.proto) if o.proto is not None else "n") + ";"
            inst = ""
            for f in ctors:
                try:
                    inst += "1" if self.instance_of(o, f) else "0"
                except TypeErr:
                    inst += "T"
            s += "N=" + inst + "}"
            out.append(s)
        return "".join(out)


# ------------------------------------------------------------------------------------------
# histories
# ------------------------------------------------------------------------------------------
KEYS = ["a", "b", "c", "1", "m"]
ACC_KEYS = ["a", "b"]           # keys that may become accessors
BACK_KEYS = ["c", "1"]          # backing keys read/written by accessor bodies (never accessors themselves)
NVARS = 4
NCTORS = 3

PRELUDE = r"""
var ALL = []; var LOG = []; var RET;
var HOP = Object.prototype.hasOwnProperty;
var KEYS = ["a", "b", "c", "1", "m"];
function REG(v) { for (var i = 0; i < ALL.length; i++) { if (ALL[i] === v) return v; } ALL.push(v); return v; }
function ID(v) { for (var i = 0; i < ALL.length; i++) { if (ALL[i] === v) return "#" + i; }
  if (v === Object.prototype) return "OP"; if (v === Function.prototype) return "FP"; return typeof v === "function" ? "fn" : "obj"; }
function R(v) { if (v === undefined) return "u"; if (v === null) return "n"; var t = typeof v;
  if (t === "number") return "i:" + v; if (t === "boolean") return "b:" + v; if (t === "string") return "s:" + v; return ID(v); }
function M0() { return "M0:" + R(this) + ":" + arguments.length; }
function M1() { return "M1:" + R(this) + ":" + arguments.length; }
function F0(a) { this.a = a; }
function F1(a) { this.c = a; return RET; }
function F2() { }
var CT = [F0, F1, F2];
function G_c() { return this.c; }
function G_1() { return this[1]; }
function S_c(v) { this.c = v; }
function S_1(v) { this[1] = v; }
function OBS() {
  var out = "";
  for (var i = 0; i < ALL.length; i++) {
    var o = ALL[i]; out += "#" + i + "{";
    for (var j = 0; j < KEYS.length; j++) {
      var k = KEYS[j]; var r;
      try { var v = o[k]; r = R(v); if (v === M0 || v === M1) { r += "(" + R(o[k](1, 2)) + ")"; } } catch (e) { r = "!" + e.name; }
      var hi; try { hi = (k in o) ? "I" : "i"; } catch (e) { hi = "!"; }
      var ho; try { ho = HOP.call(o, k) ? "O" : "o"; } catch (e) { ho = "!"; }
      out += k + "=" + r + "," + hi + ho + ";";
    }
    var ks; try { ks = Object.keys(o).join("/"); } catch (e) { ks = "!" + e.name; }
    out += "K=" + ks + ";";
    var fi = ""; try { for (var q in o) { fi += q + "/"; } } catch (e) { fi = "!" + e.name; }
    out += "F=" + fi + ";";
    var vs; try { var va = Object.values(o); var vr = []; for (var z = 0; z < va.length; z++) vr.push(R(va[z])); vs = vr.join("/"); } catch (e) { vs = "!" + e.name; }
    out += "V=" + vs + ";";
    var es; try { var ea = Object.entries(o); var er = []; for (var z = 0; z < ea.length; z++) er.push(ea[z][0] + "~" + R(ea[z][1])); es = er.join("/"); } catch (e) { es = "!" + e.name; }
    out += "E=" + es + ";";
    var pr; try { pr = R(Object.getPrototypeOf(o)); } catch (e) { pr = "!" + e.name; }
    out += "P=" + pr + ";";
    var ins = "";
    for (var c = 0; c < CT.length; c++) { try { ins += (o instanceof CT[c]) ? "1" : "0"; } catch (e) { ins += "T"; } }
    out += "N=" + ins + "}";
  }
  return out;
}
"""


class History:
    """a list of ops; each op is a tuple.  `js()` renders the program, `expected()` the reference log."""

    def __init__(self, ops):
        self.ops = ops

    # -- rendering ---------------------------------------------------------------------------
    @staticmethod
    def val_js(v):
        k = v[0]
        if k == "i":
            return str(v[1])
        if k == "s":
            return '"' + v[1] + '"'
        if k == "b":
            return "true" if v[1] else "false"
        if k == "u":
            return "undefined"
        if k == "n":
            return "null"
        if k == "var":
            return f"o{v[1]}"
        if k == "all":
            return f"ALL[{v[1]}]"
        if k == "fn":
            return v[1]            # M0 / M1 / F0..F2
        raise AssertionError(v)

    @staticmethod
    def key_js(form, k):
        """member access text for key k in the given form"""
        if form == "id":
            return f".{k}" if not k.isdigit() else f"[{k}]"
        if form == "str":
            return f'["{k}"]'
        if form == "num":
            return f"[{k}]" if k.isdigit() else f'["{k}"]'
        if form == "numf":
            return f"[{k}.0]" if k.isdigit() else f'["{k}"]'
        if form == "comp":
            return f'[KEYS[{KEYS.index(k)}]]'
        if form == "concat":
            return f'["" + "{k}"]'
        raise AssertionError(form)

    @staticmethod
    def lit_key(form, k):
        if form == "comp":
            return f"[KEYS[{KEYS.index(k)}]]"
        if form == "str" or (not k.isdigit() and not k.isidentifier()):
            return f'"{k}"'
        return k

    def op_js(self, op):
        V, K = self.val_js, self.key_js
        k = op[0]
        if k == "lit":          # ("lit", var, [(kind, form, key, payload)...])
            parts = []
            for kind, form, key, pay in op[2]:
                if kind == "data":
                    parts.append(f"{self.lit_key(form, key)}: {V(pay)}")
                elif kind == "get":
                    body = f"return this.{pay};" if not pay.isdigit() else f"return this[{pay}];"
                    parts.append(f"get {self.lit_key(form, key)}() {{ {body} }}")
                elif kind == "set":
                    body = f"this.{pay} = v;" if not pay.isdigit() else f"this[{pay}] = v;"
                    parts.append(f"set {self.lit_key(form, key)}(v) {{ {body} }}")
                elif kind == "proto":
                    parts.append(f"__proto__: {V(pay)}")
                elif kind == "meth":
                    parts.append(f"{self.lit_key(form, key)}: {pay}")
            return f"o{op[1]} = REG({{{', '.join(parts)}}});"
        if k == "create":       # ("create", var, protoval)
            return f"o{op[1]} = REG(Object.create({V(op[2])}));"
        if k == "newobj":
            return f"o{op[1]} = REG(new Object());"
        if k == "new":          # ("new", var, ctor index, arg)
            return f"o{op[1]} = REG(new F{op[2]}({V(op[3])}));"
        if k == "newbound":     # new (F.bind(thisval, arg))()
            return f"o{op[1]} = REG(new (F{op[2]}.bind({V(op[3])}, {V(op[4])}))());"
        if k == "set":          # ("set", target val, form, key, value)
            return f"{V(op[1])}{K(op[2], op[3])} = {V(op[4])};"
        if k == "del":
            return f"LOG.push('d' + (delete {V(op[1])}{K(op[2], op[3])}));"
        if k == "defdata":
            return (f'Object.defineProperty({V(op[1])}, "{op[2]}", '
                    f'{{value: {V(op[3])}, writable: true, enumerable: true, configurable: true}});')
        if k == "defacc":       # ("defacc", target, key, getter backing|None, setter backing|None)
            parts = []
            if op[3] is not None:
                parts.append(f"get: G_{op[3]}")
            if op[4] is not None:
                parts.append(f"set: S_{op[4]}")
            parts += ["enumerable: true", "configurable: true"]
            return f'Object.defineProperty({V(op[1])}, "{op[2]}", {{{", ".join(parts)}}});'
        if k == "setproto":
            return f"Object.setPrototypeOf({V(op[1])}, {V(op[2])});"
        if k == "fproto":       # F.prototype = value
            return f"F{op[1]}.prototype = {V(op[2])};"
        if k == "fprotoset":    # F.prototype.k = v
            return f"F{op[1]}.prototype{K(op[2], op[3])} = {V(op[4])};"
        if k == "fprotochain":  # F.prototype = Object.create(G.prototype)
            return f"F{op[1]}.prototype = REG(Object.create(F{op[2]}.prototype));"
        if k == "ret":
            return f"RET = {V(op[1])};"
        if k == "regproto":     # make F's current prototype observable
            return f"REG(F{op[1]}.prototype);"
        if k == "regfn":
            return f"REG(F{op[1]});"
        if k == "arr":
            return f"o{op[1]} = REG([{', '.join(V(x) for x in op[2])}]);"
        raise AssertionError(op)

    def js(self, upto=None):
        ops = self.ops if upto is None else self.ops[:upto]
        lines = [PRELUDE, "var " + ", ".join(f"o{i}" for i in range(NVARS)) + ";"]
        for op in ops:
            lines.append("try { " + self.op_js(op) + " LOG.push('ok'); } catch (e) { LOG.push('!' + e.name); }")
            lines.append("LOG.push(OBS());")
        lines.append('LOG.join("\\n")')
        return "\n".join(lines)

    # -- reference ---------------------------------------------------------------------------
    def expected(self, upto=None):
        """list of acceptable log lines per position: each entry is a set of strings (None = not compared)"""
        run = RefRun()
        log = []
        for op in (self.ops if upto is None else self.ops[:upto]):
            log.extend(run.step(op))
        return log


class RefRun:
    """incremental execution of a history on the reference heap"""

    def __init__(self):
        h = self.h = Heap()
        env = self.env = h.vars
        for i in range(NVARS):
            env[f"o{i}"] = UNDEF
        fns = self.fns = {}
        fns["M0"] = h.make_fn("method", name="M0", tag="M0")
        fns["M1"] = h.make_fn("method", name="M1", tag="M1")
        fns["F0"] = h.make_fn("ctor", name="F0", length=1, k="a")
        fns["F1"] = h.make_fn("ctor", name="F1", length=1, k="c", ret="RET")
        fns["F2"] = h.make_fn("ctor", name="F2", length=0)
        for b in BACK_KEYS:
            fns[f"G_{b}"] = h.make_fn("getter", name=f"G_{b}", k=b)
            fns[f"S_{b}"] = h.make_fn("setter", name=f"S_{b}", length=1, k=b)
        self.ctors = [fns["F0"], fns["F1"], fns["F2"]]

    def val(self, v):
        h, env, fns = self.h, self.env, self.fns
        k = v[0]
        if k in ("i", "s", "b"):
            return v
        if k == "u":
            return UNDEF
        if k == "n":
            return NULL
        if k == "var":
            return env[f"o{v[1]}"]
        if k == "all":
            return h.all[v[1]] if v[1] < len(h.all) else UNDEF
        if k == "fn":
            return fns[v[1]]
        raise AssertionError(v)

    def step(self, op):
        h, env, fns, val = self.h, self.env, self.fns, self.val

        def reg(o):
            if not any(o is x for x in h.all):
                h.all.append(o)
            return o

        def obj_target(v):
            t = val(v)
            if t is UNDEF or t is NULL:
                raise TypeErr("undefined target")
            return t

        log = []
        k = op[0]
        extra = []
        try:
            outcome = {"ok"}
            if k == "lit":
                o = RObj(proto=h.object_proto)
                for kind, form, key, pay in op[2]:
                    if kind == "data":
                        h.define_data(o, key, val(pay))
                    elif kind == "meth":
                        h.define_data(o, key, fns[pay])
                    elif kind == "get":
                        h.define_acc(o, key, getter=h.make_fn("getter", k=pay, ctor=False))
                    elif kind == "set":
                        h.define_acc(o, key, setter=h.make_fn("setter", k=pay, length=1, ctor=False))
                    elif kind == "proto":
                        p = val(pay)
                        if isinstance(p, RObj):
                            o.proto = p
                        elif p is NULL:
                            o.proto = None
                env[f"o{op[1]}"] = reg(o)
            elif k == "create":
                p = val(op[2])
                if not (isinstance(p, RObj) or p is NULL):
                    raise TypeErr("proto")
                env[f"o{op[1]}"] = reg(RObj(proto=p if isinstance(p, RObj) else None))
            elif k == "newobj":
                env[f"o{op[1]}"] = reg(RObj(proto=h.object_proto))
            elif k == "new":
                env[f"o{op[1]}"] = reg(h.construct(fns[f"F{op[2]}"], [val(op[3])]))
            elif k == "newbound":
                f = fns[f"F{op[2]}"]
                b = RObj("function", h.function_proto)
                b.fn = dict(target=f, this=val(op[3]), args=[val(op[4])], name="bound " + f.fn["name"], length=0)
                env[f"o{op[1]}"] = reg(h.construct(b, []))
            elif k == "set":
                t = obj_target(op[1])
                if isinstance(t, RObj):
                    if h.set(t, op[3], val(op[4])) == "noop":
                        outcome = {"ok", "!TypeError"}
                else:
                    outcome = {"ok", "!TypeError"}
            elif k == "del":
                t = obj_target(op[1])
                if isinstance(t, RObj):
                    if h.delete(t, op[3]):
                        extra = [{"dtrue"}]
                    else:
                        outcome = {"!TypeError"}
                else:
                    extra = [{"dtrue"}]
            elif k == "defdata":
                t = obj_target(op[1])
                if not isinstance(t, RObj):
                    raise TypeErr("defineProperty on primitive")
                h.define_data(t, op[2], val(op[3]))
            elif k == "defacc":
                t = obj_target(op[1])
                if not isinstance(t, RObj):
                    raise TypeErr("defineProperty on primitive")
                h.define_acc(t, op[2],
                             getter=fns[f"G_{op[3]}"] if op[3] is not None else Ellipsis,
                             setter=fns[f"S_{op[4]}"] if op[4] is not None else Ellipsis)
            elif k == "setproto":
                t = val(op[1])
                p = val(op[2])
                if t is UNDEF or t is NULL:
                    raise TypeErr("target")
                if not (isinstance(p, RObj) or p is NULL):
                    raise TypeErr("proto")
                if isinstance(t, RObj):
                    h.set_proto(t, p if isinstance(p, RObj) else None)
            elif k == "fproto":
                fns[f"F{op[1]}"].fn["prototype"] = val(op[2])
            elif k == "fprotoset":
                p = fns[f"F{op[1]}"].fn["prototype"]
                if p is UNDEF or p is NULL:
                    raise TypeErr("write to undefined")
                if isinstance(p, RObj):
                    if h.set(p, op[3], val(op[4])) == "noop":
                        outcome = {"ok", "!TypeError"}
                else:
                    outcome = {"ok", "!TypeError"}
            elif k == "fprotochain":
                p = fns[f"F{op[2]}"].fn["prototype"]
                if not (isinstance(p, RObj) or p is NULL):
                    raise TypeErr("proto")
                o = reg(RObj(proto=p if isinstance(p, RObj) else None))
                fns[f"F{op[1]}"].fn["prototype"] = o
            elif k == "ret":
                env["RET"] = val(op[1])
            elif k == "regproto":
                reg(fns[f"F{op[1]}"].fn["prototype"])
            elif k == "regfn":
                reg(fns[f"F{op[1]}"])
            elif k == "arr":
                o = RObj("array", h.array_proto)
                o.elems = [val(x) for x in op[2]]
                env[f"o{op[1]}"] = reg(o)
            else:
                raise AssertionError(op)
            log.extend(extra)
            log.append(outcome)
        except TypeErr:
            log.append({"!TypeError"})
        log.append({h.observe(KEYS, self.ctors)})
        return log


# ------------------------------------------------------------------------------------------
def gen_history(rng, n_ops=8, features=None):
    """random history, generated while running the reference model so that targets are known to be
    ordinary objects / functions (arrays are only observed, never mutated: their writes are C17's).
    `features` restricts the op kinds (None = all)."""
    run = RefRun()
    h = run.h
    ops = []
    forms = ["id", "str", "num", "numf", "comp", "concat"]
    feats = features or ["lit", "create", "newobj", "new", "newbound", "set", "del", "defdata", "defacc", "setproto",
                         "fproto", "fprotoset", "fprotochain", "ret", "regproto", "regfn", "arr"]

    def prim():
        return rng.choice([("i", 1), ("i", 2), ("i", 3), ("s", "x"), ("b", True), ("u",), ("n",)])

    def objval(mutable=False, plain=False, proto=False):
        """a reference to a registered object.  mutable: not an array; plain: kind == object;
        proto: usable as a prototype (the engine's functions are not full objects: they are receivers of
        get/set/delete/in/hasOwnProperty only -- see known findings)"""
        c = []
        for i in range(NVARS):
            o = run.env[f"o{i}"]
            if isinstance(o, RObj):
                c += [(("var", i), o)] * 2
        for i, o in enumerate(h.all):
            c.append((("all", i), o))
        if mutable:
            c = [x for x in c if x[1].kind != "array"]
        if plain:
            c = [x for x in c if x[1].kind == "object"]
        if proto:
            c = [x for x in c if x[1].kind != "function"]
        return rng.choice(c)[0] if c else None

    def anyval():
        r = rng.random()
        if r < 0.45:
            return prim()
        if r < 0.8:
            return objval() or prim()
        return ("fn", rng.choice(["M0", "M1", "F0", "F2"]))

    def key():
        return rng.choice(KEYS)

    for _ in range(n_ops):
        op = None
        for _try in range(20):
            f = rng.choice(feats)
            v = rng.randrange(NVARS)
            if f == "lit":
                props = []
                for _i in range(rng.randrange(0, 4)):
                    r = rng.random()
                    k = key()
                    form = rng.choice(["id", "str", "comp"])
                    if r < 0.5:
                        props.append(("data", form, k, anyval()))
                    elif r < 0.65 and k in ACC_KEYS:
                        props.append(("get", form, k, rng.choice(BACK_KEYS)))
                    elif r < 0.8 and k in ACC_KEYS:
                        props.append(("set", form, k, rng.choice(BACK_KEYS)))
                    elif r < 0.9:
                        props.append(("meth", form, "m", rng.choice(["M0", "M1"])))
                    else:
                        p = objval(proto=True)
                        if p and not any(x[0] == "proto" for x in props):
                            props.append(("proto", "id", "__proto__", rng.choice([p, p, ("n",)])))
                op = ("lit", v, props)
            elif f == "create":
                p = objval(proto=True) if rng.random() < 0.8 else ("n",)
                if p is None:
                    continue
                op = ("create", v, p)
            elif f == "newobj":
                op = ("newobj", v)
            elif f == "new":
                op = ("new", v, rng.randrange(NCTORS), anyval())
            elif f == "newbound":
                op = ("newbound", v, rng.randrange(NCTORS), rng.choice([("n",), objval() or ("u",)]), prim())
            elif f in ("set", "del", "defdata", "defacc", "setproto"):
                t = objval(mutable=True, plain=f in ("defdata", "defacc", "setproto"))
                if t is None:
                    continue
                if f == "set":
                    op = ("set", t, rng.choice(forms), key(), anyval())
                elif f == "del":
                    op = ("del", t, rng.choice(forms), key())
                elif f == "defdata":
                    op = ("defdata", t, key(), anyval())
                elif f == "defacc":
                    g = rng.choice(BACK_KEYS + [None])
                    s = rng.choice(BACK_KEYS + [None])
                    if g is None and s is None:
                        g = "c"
                    op = ("defacc", t, rng.choice(ACC_KEYS), g, s)
                else:
                    p = objval(proto=True) if rng.random() < 0.85 else ("n",)
                    if p is None:
                        continue
                    op = ("setproto", t, p)
            elif f == "fproto":
                p = objval(plain=True)
                if p is None:
                    continue
                op = ("fproto", rng.randrange(NCTORS), p)
            elif f == "fprotoset":
                c = rng.randrange(NCTORS)
                if not (isinstance(run.fns[f"F{c}"].fn["prototype"], RObj) and run.fns[f"F{c}"].fn["prototype"].kind == "object"):
                    continue
                op = ("fprotoset", c, rng.choice(forms), key(), anyval())
            elif f == "fprotochain":
                a, b = rng.randrange(NCTORS), rng.randrange(NCTORS)
                if a == b:
                    continue
                op = ("fprotochain", a, b)
            elif f == "ret":
                op = ("ret", rng.choice([prim(), objval(plain=True) or prim()]))
            elif f == "regproto":
                c = rng.randrange(NCTORS)
                if not isinstance(run.fns[f"F{c}"].fn["prototype"], RObj):
                    continue
                op = ("regproto", c)
            elif f == "regfn":
                op = ("regfn", rng.randrange(NCTORS))
            elif f == "arr":
                op = ("arr", v, [prim() for _i in range(rng.randrange(0, 3))])
            break
        if op is None:
            continue
        ops.append(op)
        run.step(op)
    return History(ops)


def compare(actual_text, expected):
    """first mismatch index or None"""
    lines = actual_text.split("\n")
    for i, exp in enumerate(expected):
        if exp is None:
            continue
        if i >= len(lines) or lines[i] not in exp:
            return i, (lines[i] if i < len(lines) else "<missing>"), sorted(exp)
    if len(lines) != len(expected):
        return len(expected), "<extra>", []
    return None
