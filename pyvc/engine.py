"""pyvc symbolic executor: runs (a subset of) Python functions taken from the AST of the real
source over SMT terms, path by path (replay-based forking), producing path conditions,
outcomes and named obligations.  See DESIGN.md 2.1-2.4.

The executor refuses loudly (Unsupported) on anything it does not model; it never guesses.
"""
from __future__ import annotations
import ast, itertools, os, sys
import z3
from . import model as M
from .model import Val, ValSeq, FIN, NAN, PINF, NINF, NZERO, CLS, CLASSES

z3.set_param("smt.random_seed", 0)


class Unsupported(Exception):
    pass


class PyExc(Exception):
    """An exception raised by the analysed program."""
    def __init__(self, cls, msg=None, where=None):
        super().__init__(cls)
        self.cls, self.msg, self.where = cls, msg, where


class _Return(Exception):
    def __init__(self, v):
        self.v = v


class _Break(Exception):
    pass


class _Continue(Exception):
    pass


class Infeasible(Exception):
    pass


class PathCut(Exception):
    """the path ends here without further obligations (after the inductive step of a loop invariant)"""
    pass


# ------------------------------------------------------------------------------------------
# symbolic values
# ------------------------------------------------------------------------------------------
class SV:
    __slots__ = ("kind", "t", "k", "r", "items", "cls", "ref", "py", "extra", "rec_term")

    def __init__(self, kind, **kw):
        self.kind = kind
        self.t = self.k = self.r = self.items = self.cls = self.ref = self.py = self.extra = None
        for a, b in kw.items():
            setattr(self, a, b)

    def __repr__(self):
        if self.kind in ("int", "bool", "str", "val", "seq"):
            return f"<{self.kind} {self.t}>"
        if self.kind == "float":
            return f"<float {self.k} {self.r}>"
        if self.kind == "tuple":
            return f"<tuple {self.items}>"
        if self.kind == "ref":
            return f"<ref {self.cls} {self.ref}>"
        return f"<{self.kind} {self.py}>"


def s_int(t):
    return SV("int", t=z3.IntVal(t) if isinstance(t, int) else t)


def s_bool(t):
    return SV("bool", t=z3.BoolVal(t) if isinstance(t, bool) else t)


def s_str(t):
    return SV("str", t=z3.StringVal(t) if isinstance(t, str) else t)


def s_float(k, r):
    return SV("float", k=z3.IntVal(k) if isinstance(k, int) else k,
              r=z3.RealVal(r) if isinstance(r, (int, float, str)) else r)


def s_val(t):
    return SV("val", t=t)


def s_seq(t):
    return SV("seq", t=t)


def s_tuple(items):
    return SV("tuple", items=list(items))


S_NONE = SV("none")


def s_ref(cls, ref):
    """cls: z3 Int term (class index) ; ref: z3 Int term."""
    return SV("ref", cls=z3.IntVal(CLS[cls]) if isinstance(cls, str) else cls, ref=ref)


def s_py(obj, kind="py"):
    return SV(kind, py=obj)


def const_float(x: float):
    import math
    if math.isnan(x):
        return s_float(NAN, 0)
    if math.isinf(x):
        return s_float(PINF if x > 0 else NINF, 0)
    if x == 0 and math.copysign(1, x) < 0:
        return s_float(NZERO, 0)
    from fractions import Fraction
    f = Fraction(x)
    return s_float(FIN, z3.RealVal(f"{f.numerator}/{f.denominator}"))


def lift(x):
    """Python constant -> SV."""
    if isinstance(x, SV):
        return x
    if x is None:
        return S_NONE
    import enum as _enum
    if isinstance(x, _enum.Enum):
        return s_py(x)
    if isinstance(x, bool):
        return s_bool(x)
    if isinstance(x, int):
        return s_int(x)
    if isinstance(x, float):
        return const_float(x)
    if isinstance(x, str):
        return s_str(x)
    if isinstance(x, tuple):
        return s_tuple([lift(i) for i in x])
    return s_py(x)


def simp(t):
    return z3.simplify(t)


def conc_int(t):
    t = simp(t)
    return t.as_long() if z3.is_int_value(t) else None


def conc_str(t):
    t = simp(t)
    return t.as_string() if z3.is_string_value(t) else None


def conc_bool(t):
    t = simp(t)
    if z3.is_true(t):
        return True
    if z3.is_false(t):
        return False
    return None


# ------------------------------------------------------------------------------------------
# class table taken from the real classes
# ------------------------------------------------------------------------------------------
class ClassTable:
    def __init__(self, real_classes: dict):
        """real_classes: name -> real class object (from the imported repo) for CLASSES that
        exist there; builtins are added."""
        self.real = dict(real_classes)
        self.real.update({"list": list, "tuple": tuple, "dict": dict, "complex": complex,
                          "object": object, "bytes": bytes, "bytearray": bytearray})

    def subclasses_of(self, name):
        base = self.real.get(name)
        if base is None:
            raise Unsupported(f"unknown class {name}")
        out = []
        for n in CLASSES:
            c = self.real.get(n)
            if c is not None and isinstance(c, type) and issubclass(c, base):
                out.append(n)
        return out

    def callable_classes(self):
        out = []
        for n in CLASSES:
            if n == "PyCallable":
                out.append(n)
                continue
            c = self.real.get(n)
            if c is not None and isinstance(c, type) and hasattr(c, "__call__") and n not in (
                    "list", "tuple", "dict", "complex", "object", "bytes", "bytearray"):
                out.append(n)
        return out

    def has_attr_classes(self, attr):
        """classes whose instances (as created by their own __init__/class body) have `attr`."""
        out = []
        for n in CLASSES:
            c = self.real.get(n)
            if c is None or not isinstance(c, type):
                continue
            if hasattr(c, attr) or attr in _INIT_ATTRS.get(n, ()):  # filled by extract
                out.append(n)
        return out


_INIT_ATTRS: dict = {}

# field sorts: by field name.  Everything else is Val.
INT_FIELDS = {"ip", "bp", "instruction_count", "index", "pos", "line", "column", "length_",
              "_byte_offset", "step_count", "lastIndex_int", "num_locals", "_capture_count"}
BOOL_FIELDS = {"is_constructor_call", "_in_function"}


def conjuncts(t):
    if z3.is_and(t):
        out = []
        for ch in t.children():
            out.extend(conjuncts(ch))
        return out
    return [t]


def is_initial_read(v):
    """is the term a read of the initial heap: select(H0_f, _), or an element (nth) of such a read / of an input?"""
    t = v
    for _ in range(6):
        if not z3.is_app(t):
            return False
        k = t.decl().kind()
        if k == z3.Z3_OP_SELECT:
            a = t.arg(0)
            return z3.is_const(a) and a.decl().name().startswith("H0_")
        if k in (z3.Z3_OP_SEQ_NTH,) or t.decl().name() in ("seq.nth_i", "seq.nth_u", "seq.nth"):
            t = t.arg(0)
            if z3.is_const(t) and t.decl().kind() == z3.Z3_OP_UNINTERPRETED:
                return True
            continue
        return False
    return False


_SEQ_GENERIC = {z3.Z3_OP_SEQ_CONCAT, z3.Z3_OP_SEQ_EXTRACT, z3.Z3_OP_SEQ_AT, z3.Z3_OP_SEQ_PREFIX, z3.Z3_OP_SEQ_SUFFIX, z3.Z3_OP_SEQ_CONTAINS}
TAGS = ["VUndef", "VNull", "VNone", "VBool", "VInt", "VFlt", "VStr", "VRef"]
TESTERS = None
_HEAVY_KINDS = None
_heavy_cache = {}


def heavy(t):
    """does the term use string/sequence operations beyond length / nth / unit / equality?
    Memoised over the term DAG (terms are kept alive so that ids stay valid)."""
    global _HEAVY_KINDS
    if _HEAVY_KINDS is None:
        ok = {"Z3_OP_SEQ_LENGTH", "Z3_OP_SEQ_NTH", "Z3_OP_SEQ_UNIT", "Z3_OP_SEQ_EMPTY"}
        _HEAVY_KINDS = {getattr(z3, n) for n in dir(z3) if (n.startswith("Z3_OP_SEQ_") or n.startswith("Z3_OP_STR") or n.startswith("Z3_OP_INT_TO_STR") or n.startswith("Z3_OP_RE_")) and n not in ok}
    cache = _heavy_cache
    i0 = t.get_id()
    hit = cache.get(i0)
    if hit is not None:
        return hit[0]
    stack = [(t, False)]
    while stack:
        x, done = stack.pop()
        xi = x.get_id()
        if xi in cache:
            continue
        if z3.is_quantifier(x):
            cache[xi] = (True, x)
            continue
        if not z3.is_app(x):
            cache[xi] = (False, x)
            continue
        if not done:
            k = x.decl().kind()
            hv = k in _HEAVY_KINDS or (k == z3.Z3_OP_UNINTERPRETED and x.num_args() > 0 and x.decl().name().startswith("seq."))
            if hv and k in _SEQ_GENERIC:
                # concat / extract / at on sequences of values (lists, stacks) stay light; on strings heavy
                srt = x.sort()
                if srt == ValSeq or (x.num_args() and x.arg(0).sort() == ValSeq):
                    hv = False
            if hv:
                cache[xi] = (True, x)
                continue
            ch = x.children()
            if not ch:
                cache[xi] = (False, x)
                continue
            stack.append((x, True))
            pend = False
            for c_ in ch:
                h = cache.get(c_.get_id())
                if h is None:
                    stack.append((c_, False))
                elif h[0]:
                    cache[xi] = (True, x)
                    pend = True
                    break
            if pend:
                continue
        else:
            cache[xi] = (any(cache[c_.get_id()][0] for c_ in x.children() if c_.get_id() in cache), x)
    return cache[i0][0]


# ------------------------------------------------------------------------------------------
# one symbolic path
# ------------------------------------------------------------------------------------------
class Path:
    def __init__(self, decisions, timeout_ms=3000):
        self.decisions = list(decisions)
        self.idx = 0
        self.pending = []
        self.pc = []
        self.pc_raw = {}
        self.decision_ids = set()
        self.solver = z3.Solver()
        self.solver.set("timeout", timeout_ms)
        self.n_solver_calls = 0
        self.heap = {}
        self.alloc0 = z3.Int("alloc0")
        self.nalloc = 0
        self.assume(self.alloc0 >= 1)
        self.obligations = []      # (name, cond z3 Bool, info)
        self.covers = []
        self.fresh_ctr = 0
        self.inputs = {}           # name -> SV (harness parameters)
        self.notes = []
        self.uf_used = set()
        self.inlined = set()
        self.summarised = set()
        self.known_tag = {}
        self.known_cls = {}
        self.keep = []
        self.n_base = 0
        self.decision_ids = set()
        self.pc_raw = {}

    # -- constraints
    def assume(self, c, decision=False):
        raw = c if not isinstance(c, bool) else z3.BoolVal(c)
        c = simp(c) if not isinstance(c, bool) else z3.BoolVal(c)
        if z3.is_true(c):
            return
        if c.get_id() in self.pc_raw and not decision:
            return                       # already part of the path condition
        self.pc.append(c)
        self.pc_raw[c.get_id()] = raw
        if decision:
            self.decision_ids.add(c.get_id())
            # remember a decided tag test  is(VX, t)
            try:
                if z3.is_app(c) and c.decl().kind() == z3.Z3_OP_DT_IS:
                    ctor = c.decl().params()[0].name()
                    self.known_tag[c.arg(0).get_id()] = TAGS.index(ctor)
                    self.keep.append(c.arg(0))
            except Exception:   # noqa
                pass
        # the feasibility solver sees only the cheap part of the path condition (an
        # over-approximation of feasibility: sound, extra paths are discharged vacuously)
        if not heavy(c):
            self.solver.add(c)
        elif z3.is_and(c):
            # the cheap conjuncts of a mixed conjunction (e.g. the bounds in a loop invariant that also talks about
            # strings) still inform the feasibility solver
            for ch in c.children():
                if not heavy(ch):
                    self.solver.add(ch)

    def assume_prepared(self, prepared):
        """prepared: [(simplified term, is_heavy)] computed once (merged-call summaries)"""
        light = []
        for c, hv in prepared:
            i = c.get_id()
            if i in self.pc_raw:
                continue
            self.pc.append(c)
            self.pc_raw[i] = c
            if not hv:
                light.append(c)
        if light:
            self.solver.add(*light)

    prune_ms = 0       # > 0: branches are also checked against the WHOLE path condition (strings included) with this budget

    def feasible(self, c):
        if heavy(c):
            return self.feasible_full(c) if self.prune_ms else True
        self.solver.push()
        self.solver.add(c)
        self.n_solver_calls += 1
        r = self.solver.check()
        self.solver.pop()
        if r != z3.unsat and self.prune_ms and len(self.pc) > len(self.solver.assertions()):
            return self.feasible_full(c)
        return r != z3.unsat

    def feasible_full(self, c):
        """pruning only: `unsat` within the budget drops the branch, anything else keeps it (sound: an infeasible
        branch that is kept is discharged vacuously)"""
        s = z3.Solver()
        s.set("timeout", self.prune_ms)
        for a in self.pc:
            s.add(a)
        s.add(c)
        self.n_solver_calls += 1
        return s.check() != z3.unsat

    def fork(self, cond):
        cond = simp(cond)
        if z3.is_true(cond):
            return True
        if z3.is_false(cond):
            return False
        if self.idx < len(self.decisions):
            d = self.decisions[self.idx]
        else:
            t = self.feasible(cond)
            f = self.feasible(z3.Not(cond)) if t else True
            if t and f:
                d = True
                self.pending.append(self.decisions[: self.idx] + [False])
            elif t:
                d = True
            elif f:
                d = False
            else:
                raise Infeasible()
            self.decisions.append(d)
        self.idx += 1
        self.assume(cond if d else z3.Not(cond), decision=True)
        return d

    def explore(self, thunk, restore):
        """run `thunk` over all of its feasible sub-paths from the current state; returns a list of
        (constraints added on the sub-path, result or PyExc).  The outer decision list is untouched."""
        saved = (self.decisions, self.idx, self.pending)
        base = len(self.pc)
        results = []
        work = [[]]
        try:
            while work:
                dec = work.pop()
                self.decisions, self.idx, self.pending = list(dec), 0, []
                self.solver.push()
                snap = restore()
                try:
                    try:
                        r = thunk()
                    except PyExc as ex:
                        r = ex
                    new = self.pc[base:]
                    results.append(([c for c in new if c.get_id() in self.decision_ids],
                                    [c for c in new if c.get_id() not in self.decision_ids], r, snap()))
                    work.extend(self.pending)
                except Infeasible:
                    work.extend(self.pending)
                except Unsupported as ex:
                    # a sub-path outside the subset is a result like any other: it matters only if the caller's
                    # path can reach it (explorations run under base facts, a superset of the caller's sub-paths)
                    new = self.pc[base:]
                    results.append(([c for c in new if c.get_id() in self.decision_ids],
                                    [c for c in new if c.get_id() not in self.decision_ids], ex, True))
                    work.extend(self.pending)
                finally:
                    for c_ in self.pc[base:]:
                        self.pc_raw.pop(c_.get_id(), None)
                    del self.pc[base:]
                    self.solver.pop()
                if len(results) > 400:
                    raise Unsupported("merged call with too many sub-paths")
        finally:
            self.decisions, self.idx, self.pending = saved
        return results

    def choose(self, conds):
        for i, c in enumerate(conds[:-1]):
            if self.fork(c):
                return i
        self.assume(conds[-1], decision=True)
        return len(conds) - 1

    def fresh(self, sort, hint="t"):
        self.fresh_ctr += 1
        return z3.Const(f"{hint}!{self.fresh_ctr}", sort)

    # -- heap
    def field_sort(self, field):
        if field in INT_FIELDS:
            return z3.IntSort()
        if field in BOOL_FIELDS:
            return z3.BoolSort()
        if field == "list.items":
            return ValSeq
        if field == "dict.dom":
            return z3.ArraySort(z3.StringSort(), z3.BoolSort())
        if field == "dict.map":
            return z3.ArraySort(z3.StringSort(), Val)
        if field == "dict.order":
            return M.StrSeq
        if field == "idict.dom":
            return z3.ArraySort(z3.IntSort(), z3.BoolSort())
        if field == "idict.map":
            return z3.ArraySort(z3.IntSort(), Val)
        return Val

    def heap_arr(self, field):
        if field not in self.heap:
            self.heap[field] = z3.Const(f"H0_{field}", z3.ArraySort(z3.IntSort(), self.field_sort(field)))
        return self.heap[field]

    read_track = None       # set of field names read (footprint of a recursive ghost function)

    def hread(self, field, ref):
        if self.read_track is not None:
            self.read_track.add(field)
        # resolve the read through the stores of this path where the written reference is the same term or provably
        # another one (fresh allocations against older references, by the light solver): the remaining term is equal
        # to the plain Select under the path condition and lets the syntactic list rewrites see what was stored
        a = self.heap_arr(field)
        r = simp(ref) if not z3.is_const(ref) else ref
        steps = 0
        while z3.is_store(a) and steps < 12:
            i = a.arg(1)
            if i.eq(r):
                return a.arg(2)
            if not self.distinct_refs(i, r):
                break
            a = a.arg(0)
            steps += 1
        return z3.Select(a, ref)

    def distinct_refs(self, i, j):
        def off(t):
            if t.eq(self.alloc0):
                return 0
            if z3.is_add(t) and t.num_args() == 2:
                x, y = t.arg(0), t.arg(1)
                if y.eq(self.alloc0) and z3.is_int_value(x):
                    return x.as_long()
                if x.eq(self.alloc0) and z3.is_int_value(y):
                    return y.as_long()
            return None
        oi, oj = off(i), off(j)
        if oi is not None and oj is not None:
            return oi != oj
        if z3.is_int_value(i) and z3.is_int_value(j):
            return i.as_long() != j.as_long()
        dc = self.__dict__.setdefault("_distinct_cache", {})
        key = (i.get_id(), j.get_id())
        hit = dc.get(key)
        if hit is not None:
            res, n, h = hit
            # a positive answer holds on every extension of the path condition it was derived from; a negative one
            # only for that very path condition
            if (len(self.pc) >= n if res else len(self.pc) == n) and hash(tuple(a.get_id() for a in self.pc[:n])) == h:
                return res
        self.keep.append(i)
        self.keep.append(j)
        n = len(self.pc)
        h = hash(tuple(a.get_id() for a in self.pc))
        if heavy(i) or heavy(j):
            dc[key] = (False, n, h)
            return False
        self.solver.push()
        self.solver.add(i == j)
        self.n_solver_calls += 1
        res = self.solver.check() == z3.unsat
        self.solver.pop()
        dc[key] = (res, n, h)
        return res

    def hwrite(self, field, ref, value):
        self.heap[field] = z3.Store(self.heap_arr(field), ref, value)

    def alloc(self, cls):
        ref = self.alloc0 + self.nalloc
        self.nalloc += 1
        return s_ref(cls, simp(ref))

    def old_ref_fact(self, v):
        """Val read from inputs / initial heap: well-formed and allocated before alloc0."""
        self.assume(M.val_wf(v))
        self.assume(z3.Implies(Val.is_VRef(v), Val.ref(v) < self.alloc0))


# ------------------------------------------------------------------------------------------
# the executor
# ------------------------------------------------------------------------------------------
class Frame:
    def __init__(self, locals_, closure, module, qualname=None, fn_node=None):
        self.locals = locals_
        self.closure = closure      # list of dicts (outer function locals), innermost first
        self.module = module        # ModuleInfo
        self.qualname = qualname    # "module:Class.method" of the function being executed (loop invariants are keyed by it)
        self.fn_node = fn_node


class ModuleInfo:
    def __init__(self, name, tree, source_path):
        self.name, self.tree, self.path = name, tree, source_path
        self.globals = {}           # name -> ast node (FunctionDef/ClassDef/Assign value) or SV
        self.classes = {}           # class name -> {method name -> FunctionDef}; bases


class Engine:
    def __init__(self, modules: dict, classtable: ClassTable, summaries=None, builtins_extra=None,
                 field_types=None, max_inline_depth=6, loop_unroll=0):
        self.modules = modules               # module name -> ModuleInfo
        self.ct = classtable
        self.summaries = summaries or {}     # qualname ("module:Class.method" or "module:func") -> python callable(engine, path, args, kwargs) -> SV
        self.extra = builtins_extra or {}    # names visible to harness code
        self.field_types = field_types or {} # field name -> class name (type invariant of a field)
        self.max_inline_depth = max_inline_depth
        self.loop_unroll = loop_unroll
        self.depth = 0
        self.p: Path = None

    # ---- boxing ----------------------------------------------------------------------
    def box(self, sv: SV):
        k = sv.kind
        if k == "val":
            return sv.t
        if k == "int":
            return Val.VInt(sv.t)
        if k == "bool":
            return Val.VBool(sv.t)
        if k == "float":
            return Val.VFlt(sv.k, sv.r)
        if k == "str":
            return Val.VStr(sv.t)
        if k == "none":
            return Val.VNone
        if k == "ref":
            return Val.VRef(sv.cls, sv.ref)
        if k == "seq":      # immutable tuple of symbolic length -> box as tuple object
            r = self.p.alloc("tuple")
            self.p.hwrite("list.items", r.ref, sv.t)
            return Val.VRef(r.cls, r.ref)
        if k == "tuple":
            r = self.p.alloc("tuple")
            self.p.hwrite("list.items", r.ref, self.seq_of(sv.items))
            return Val.VRef(r.cls, r.ref)
        if k == "py":
            import enum as _enum
            if isinstance(sv.py, _enum.IntEnum):
                return Val.VInt(int(sv.py))
        if k == "dict" and all(isinstance(key, str) for key in sv.py):
            # a dictionary display stored into the heap (e.g. self._properties = {}): a fresh heap dictionary
            r = self.p.alloc("dict")
            dom = z3.K(z3.StringSort(), z3.BoolVal(False))
            mp = self.p.hread("dict.map", r.ref)
            order = z3.Empty(M.StrSeq)
            for key, val in sv.py.items():
                dom = z3.Store(dom, z3.StringVal(key), True)
                mp = z3.Store(mp, z3.StringVal(key), self.box(val))
                order = z3.Concat(order, z3.Unit(z3.StringVal(key)))
            self.p.hwrite("dict.dom", r.ref, dom)
            self.p.hwrite("dict.map", r.ref, mp)
            self.p.hwrite("dict.order", r.ref, order)
            return Val.VRef(r.cls, r.ref)
        if k == "func":
            # a Python-level callable created by the analysed code: an opaque callable object
            if sv.ref is None:
                sv.ref = self.p.alloc("PyCallable").ref
                self.func_objects[str(sv.ref)] = sv
            return Val.VRef(z3.IntVal(CLS["PyCallable"]), sv.ref)
        raise Unsupported(f"box of {k}")

    func_objects: dict = {}

    def seq_of(self, items):
        if not items:
            return z3.Empty(ValSeq)
        units = [z3.Unit(self.box(i)) for i in items]
        return units[0] if len(units) == 1 else z3.Concat(*units)

    def refine(self, sv: SV) -> SV:
        """Turn a dynamic 'val' into a statically-kinded SV, forking on the tag."""
        if sv.kind != "val":
            return sv
        t = simp(sv.t)
        p = self.p
        if z3.is_app(t) and t.decl().kind() == z3.Z3_OP_DT_CONSTRUCTOR:
            name = t.decl().name()
            i = ["VUndef", "VNull", "VNone", "VBool", "VInt", "VFlt", "VStr", "VRef"].index(name)
        elif t.get_id() in p.known_tag:
            i = p.known_tag[t.get_id()]
        else:
            conds = [Val.is_VUndef(t), Val.is_VNull(t), Val.is_VNone(t), Val.is_VBool(t), Val.is_VInt(t),
                     Val.is_VFlt(t), Val.is_VStr(t), Val.is_VRef(t)]
            hint = self.tag_hints.get(t.get_id())
            if hint and hint[0].eq(t):
                order = sorted(hint[1])
                j = p.choose([conds[x] for x in order])
                i = order[j]
            else:
                i = p.choose(conds)
            p.known_tag[t.get_id()] = i
            p.keep.append(t)
        if i == 0:
            return s_val(Val.VUndef)
        if i == 1:
            return s_val(Val.VNull)
        if i == 2:
            return S_NONE
        if i == 3:
            return s_bool(simp(Val.vb(t)))
        if i == 4:
            return s_int(simp(Val.vi(t)))
        if i == 5:
            return SV("float", k=simp(Val.fk(t)), r=simp(Val.fr(t)))
        if i == 6:
            return s_str(simp(Val.vs(t)))
        return SV("ref", cls=simp(Val.cls(t)), ref=simp(Val.ref(t)))

    def static_cls(self, sv: SV, candidates=None):
        """class name of a ref; forks over feasible classes when symbolic."""
        c = conc_int(sv.cls)
        if c is not None:
            return CLASSES[c]
        known = self.p.known_cls.get(sv.cls.get_id())
        if known is not None:
            return known
        cands = candidates or CLASSES
        # only the classes the path still allows (one cheap feasibility query each, cached per path length)
        allowed = self.feasible_classes(sv.cls)
        cands = [n for n in cands if n in allowed] or list(cands)
        if len(cands) == 1:
            self.p.known_cls[sv.cls.get_id()] = cands[0]
            self.p.keep.append(sv.cls)
            return cands[0]
        conds = [sv.cls == CLS[n] for n in cands]
        feas = []
        for n, c_ in zip(cands, conds):
            feas.append((n, c_))
        i = self.p.choose([c_ for _, c_ in feas] + [z3.BoolVal(False)])
        if i >= len(feas):
            raise Infeasible()
        # the decision is recorded per path (never on the shared SV: the same SV object is re-used when
        # sub-paths of a merged call are re-executed)
        self.p.known_cls[sv.cls.get_id()] = feas[i][0]
        self.p.keep.append(sv.cls)
        return feas[i][0]

    def feasible_classes(self, ct):
        """classes the term ct (a class index) may denote on this path, by the light feasibility solver"""
        p = self.p
        fc = getattr(p, "feas_cls", None)
        if fc is None:
            fc = p.feas_cls = {}
        hit = fc.get(ct.get_id())
        if hit is not None and hit[0] == len(p.pc):
            return hit[1]
        known = p.known_cls.get(ct.get_id())
        cands = [known] if known is not None else (hit[1] if hit is not None else CLASSES)
        feas = [n for n in cands if p.feasible(ct == CLS[n])]
        fc[ct.get_id()] = (len(p.pc), feas)
        p.keep.append(ct)
        return feas

    def static_cls_by(self, sv: SV, keyfn):
        """class of a ref as far as `keyfn` can tell: forks between groups of classes with different keys only and
        returns a representative of the chosen group (the class itself stays symbolic within the group)"""
        c = conc_int(sv.cls)
        if c is not None:
            return CLASSES[c]
        known = self.p.known_cls.get(sv.cls.get_id())
        if known is not None:
            return known
        groups = {}
        for n in CLASSES:
            groups.setdefault(keyfn(n), []).append(n)
        gl = list(groups.values())
        conds = [z3.Or([sv.cls == CLS[n] for n in g]) for g in gl]
        i = self.p.choose(conds + [z3.BoolVal(False)])
        if i >= len(gl):
            raise Infeasible()
        if len(gl[i]) == 1:
            self.p.known_cls[sv.cls.get_id()] = gl[i][0]
            self.p.keep.append(sv.cls)
        return gl[i][0]

    # ---- path merging ----------------------------------------------------------------
    merge_cache: dict = {}
    keepalive: list = []
    tag_hints: dict = {}
    TAG_OF_KIND = {"int": 4, "bool": 3, "str": 6, "float": 5, "none": 2, "ref": 7}

    def merged(self, thunk, key=None, ctx=()):
        """execute a pure computation over all its sub-paths and continue on ONE path with the
        results merged into if-then-else terms (outer forks only between distinct exception classes).
        With a key (function + argument terms + heap identity) the exploration is done once under the
        base facts only (a superset of the sub-paths feasible on any outer path) and cached."""
        p = self.p
        heap0, nalloc0, known0, depth0 = dict(p.heap), p.nalloc, dict(p.known_tag), self.depth
        kcls0 = dict(p.known_cls)
        pre = []
        if key is not None:
            key = key + (tuple(sorted((k, v.get_id()) for k, v in p.heap.items())), p.nalloc)
            self.keepalive.extend(p.heap.values())
            # context sensitivity: tags of the arguments already decided on the caller's path
            testers = [Val.is_VUndef, Val.is_VNull, Val.is_VNone, Val.is_VBool, Val.is_VInt, Val.is_VFlt, Val.is_VStr, Val.is_VRef]
            for t in ctx:
                tg = p.known_tag.get(t.get_id())
                if tg is not None:
                    pre.append(testers[tg](t))
                    key = key + (("tag", t.get_id(), tg),)
                # ... and the classes a reference argument may still have on the caller's path
                ct = None
                if z3.is_app(t) and t.decl().kind() == z3.Z3_OP_DT_CONSTRUCTOR and t.decl().name() == "VRef":
                    ct = t.arg(0)
                elif tg == 7:
                    ct = simp(Val.cls(t))
                if ct is not None and conc_int(ct) is None:
                    feas = self.feasible_classes(ct)
                    if len(feas) < len(CLASSES):
                        pre.append(z3.Or([ct == CLS[n] for n in feas]))
                        key = key + (("cls", ct.get_id(), tuple(feas)),)

        def restore():
            p.heap = dict(heap0)
            p.nalloc = nalloc0
            p.known_tag = dict(known0) if (key is None or restore.final) else {}
            p.known_cls = dict(kcls0) if (key is None or restore.final) else {}
            self.depth = depth0

            def snap():
                pure = p.nalloc == nalloc0 and set(p.heap) >= set(heap0) and all(p.heap[k] is heap0[k] or p.heap[k].eq(heap0[k]) for k in heap0)
                return pure
            return snap
        restore.final = False
        if key is not None and key in self.merge_cache:
            results = self.merge_cache[key]
        elif key is not None:
            saved_solver, saved_pc = p.solver, p.pc
            p.solver = z3.Solver()
            p.solver.set("timeout", 700)
            p.pc = list(saved_pc[:p.n_base]) + pre
            for a in p.pc:
                p.solver.add(a)
            try:
                results = p.explore(thunk, restore)
            finally:
                p.solver, p.pc = saved_solver, saved_pc
            self.merge_cache[key] = results
        else:
            results = p.explore(thunk, restore)
        restore.final = True
        restore()
        if not results:
            raise Infeasible()
        summ = self.merge_cache.get(("S",) + key) if key is not None else None
        if summ is None:
            if not all(pure for _, _, _, pure in results):
                raise Unsupported("merged call is not pure (heap effect)")
            groups = {}
            for ds, fs, r, _ in results:
                key2 = ("raise", r.cls) if isinstance(r, PyExc) else ("unsup", str(r)) if isinstance(r, Unsupported) else ("ret",)
                groups.setdefault(key2, []).append((simp(z3.And(ds)) if ds else z3.BoolVal(True), fs, r))
            keys = list(groups)
            summ = {"keys": keys, "conds": [simp(z3.Or([c for c, _, _ in groups[k]])) for k in keys], "groups": {}}
            for k in keys:
                prepared = []
                seen = set()
                for c, fs, _ in groups[k]:
                    for f in fs:
                        for g in conjuncts(f):
                            t = simp(z3.Implies(c, g))
                            if z3.is_true(t) or t.get_id() in seen:
                                continue
                            seen.add(t.get_id())
                            prepared.append((t, heavy(t)))
                summ["groups"][k] = {"alts": [(c, r) for c, _, r in groups[k]], "facts": prepared, "value": None}
            if key is not None:
                self.merge_cache[("S",) + key] = summ
        gi = p.choose(summ["conds"])
        key2 = summ["keys"][gi]
        g = summ["groups"][key2]
        p.assume_prepared(g["facts"])
        if key2[0] == "unsup":
            raise Unsupported(key2[1])
        if key2[0] == "raise":
            raise g["alts"][0][1]
        if g["value"] is None or key is None:
            self.merge_ctr = getattr(self, "merge_ctr", 0) + 1
            name = f"m!{abs(hash(key)) % (10 ** 10)}" if key is not None else f"m!{p.fresh_ctr}!{self.merge_ctr}"
            # collect the defining constraints themselves (not the path-condition delta: a constraint that is
            # already on this path would be missing from the cached definition on other paths)
            self._merge_defs = []
            try:
                val = self.merge_values(g["alts"], name)
                defs = [(c, heavy(c)) for c in self._merge_defs]
            finally:
                self._merge_defs = None
            g["value"] = (val, defs)
            return val
        val, defs = g["value"]
        p.assume_prepared(defs)
        return val

    _merge_defs = None

    def _massume(self, c):
        self.p.assume(c)
        if self._merge_defs is not None:
            c = simp(c)
            if not z3.is_true(c):
                self._merge_defs.append(c)

    def merge_values(self, alts, name):
        """alts: [(cond, SV)] mutually exclusive, exhaustive under the current pc.  The merged value is
        a named constant defined by cond_i => const == value_i (keeps later terms small)."""
        p = self.p
        if len(alts) == 1:
            return alts[0][1]
        return self._merge(alts, name)

    def _merge(self, alts, name):
        p = self.p
        kinds = {v.kind for _, v in alts}

        def define(sort, sel, suffix=""):
            ts = [simp(sel(v)) for _, v in alts]
            if all(t.eq(ts[0]) for t in ts):
                return ts[0]
            k = z3.Const(name + suffix, sort)
            for (c, _), t in zip(alts, ts):
                self._massume(z3.Implies(c, k == t))
            return k
        if kinds == {"int"}:
            return s_int(define(z3.IntSort(), lambda v: v.t))
        if kinds == {"bool"}:
            return s_bool(define(z3.BoolSort(), lambda v: v.t))
        if kinds == {"str"}:
            return s_str(define(z3.StringSort(), lambda v: v.t))
        if kinds == {"float"}:
            return SV("float", k=define(z3.IntSort(), lambda v: v.k, "k"), r=define(z3.RealSort(), lambda v: v.r, "r"))
        if kinds == {"none"}:
            return S_NONE
        if kinds <= {"int", "bool", "str", "float", "none", "val", "ref"}:
            t = define(Val, lambda v: self.box(v))
            testers = {"int": Val.is_VInt, "bool": Val.is_VBool, "str": Val.is_VStr, "float": Val.is_VFlt,
                       "none": Val.is_VNone, "ref": Val.is_VRef}
            for c, v in alts:      # light facts about the tag (the defining equalities may be string-heavy)
                if v.kind in testers:
                    self._massume(z3.Implies(c, testers[v.kind](t)))
            if "val" not in kinds:
                self.tag_hints[t.get_id()] = (t, {self.TAG_OF_KIND[k] for k in kinds})
            return s_val(t)
        if kinds == {"tuple"} and len({len(v.items) for _, v in alts}) == 1:
            return s_tuple([self._merge([(c, v.items[i]) for c, v in alts], f"{name}.{i}") for i in range(len(alts[0][1].items))])
        if kinds <= {"func", "class", "py", "module"} and len({id(v.py) for _, v in alts}) == 1:
            return alts[0][1]
        raise Unsupported(f"merge of kinds {kinds}")

    # ---- truthiness -----------------------------------------------------------------
    def truthy(self, sv: SV):
        k = sv.kind
        if k == "bool":
            return sv.t
        if k == "int":
            return sv.t != 0
        if k == "float":
            return z3.Not(z3.Or(sv.k == NZERO, z3.And(sv.k == FIN, sv.r == 0)))
        if k == "str":
            return z3.Length(sv.t) > 0
        if k == "none":
            return z3.BoolVal(False)
        if k == "seq":
            return z3.Length(sv.t) > 0
        if k == "tuple":
            return z3.BoolVal(len(sv.items) > 0)
        if k == "ref":
            return self._ref_truthy(sv.cls, sv.ref)
        if k in ("func", "class", "module", "py"):
            if k == "py" and isinstance(sv.py, (dict, list, tuple, set, frozenset, str)):
                return z3.BoolVal(bool(sv.py))
            return z3.BoolVal(True)
        if k == "dict":
            return z3.BoolVal(bool(sv.py))
        if k == "val":
            t = sv.t
            return z3.And(
                z3.Not(Val.is_VUndef(t)), z3.Not(Val.is_VNull(t)), z3.Not(Val.is_VNone(t)),
                z3.Implies(Val.is_VBool(t), Val.vb(t)),
                z3.Implies(Val.is_VInt(t), Val.vi(t) != 0),
                z3.Implies(Val.is_VFlt(t), z3.Not(z3.Or(Val.fk(t) == NZERO, z3.And(Val.fk(t) == FIN, Val.fr(t) == 0)))),
                z3.Implies(Val.is_VStr(t), z3.Length(Val.vs(t)) > 0),
                z3.Implies(Val.is_VRef(t), self._ref_truthy(Val.cls(t), Val.ref(t))),
            )
        raise Unsupported(f"truthiness of {k}")

    def _ref_truthy(self, cls, ref):
        is_listy = z3.Or(cls == CLS["list"], cls == CLS["tuple"], cls == CLS["bytes"], cls == CLS["bytearray"])
        return z3.And(z3.Implies(is_listy, z3.Length(self.p.hread("list.items", ref)) > 0),
                      z3.Implies(cls == CLS["dict"], z3.Length(self.p.hread("dict.order", ref)) > 0))

    # ---- numeric helpers ------------------------------------------------------------
    def num(self, sv: SV) -> SV:
        """refine to int/float (bool -> int); raises TypeError in the analysed program otherwise"""
        sv = self.refine(sv)
        if sv.kind == "bool":
            return s_int(z3.If(sv.t, 1, 0))
        if sv.kind in ("int", "float"):
            return sv
        raise PyExc("TypeError", None, f"numeric operation on {sv.kind}")

    def to_float(self, sv: SV) -> SV:
        """Python float(int) for int SV; identity on floats."""
        if sv.kind == "float":
            return sv
        if sv.kind == "int":
            big = z3.Or(z3.ToReal(sv.t) >= M.OVF, z3.ToReal(sv.t) <= -M.OVF)
            if self.p.fork(big):
                raise PyExc("OverflowError", None, "int too large to convert to float")
            return s_float(FIN, self.rnd(z3.ToReal(sv.t)))
        raise Unsupported("to_float")

    def rnd(self, x):
        """binary64 rounding of a real in the finite range, with the few axioms we rely on
        instantiated for this application."""
        x = simp(x)
        if z3.is_rational_value(x) or z3.is_int_value(x):
            # constants: exact rounding through CPython
            from fractions import Fraction
            fr = Fraction(x.numerator_as_long(), x.denominator_as_long())
            try:
                f = Fraction(float(fr))
                return z3.RealVal(f"{f.numerator}/{f.denominator}")
            except OverflowError:
                pass
        y = M.rnd(x)
        p = self.p
        p.uf_used.add("rnd")
        p.assume(z3.Implies(x >= 0, y >= 0))
        p.assume(z3.Implies(x <= 0, y <= 0))
        p.assume(z3.Implies(z3.And(z3.IsInt(x), x <= z3.ToReal(M.TWO53), x >= -z3.ToReal(M.TWO53)), y == x))
        p.assume(z3.Implies(z3.And(x < M.OVF, x > -M.OVF), z3.And(y <= M.MAXDBL, y >= -M.MAXDBL)))
        # rounding is monotone and the identity on doubles: integers below 2^53 are doubles, so
        # rnd never crosses an integer in that range
        p.assume(z3.Implies(z3.And(x <= z3.ToReal(M.TWO53), x >= -z3.ToReal(M.TWO53)),
                            z3.And(y >= z3.ToReal(z3.ToInt(x)), y <= z3.ToReal(z3.ToInt(x)) + 1)))
        # monotonicity, instantiated pairwise for the applications on this path
        apps = getattr(p, "rnd_apps", None)
        if apps is None:
            apps = p.rnd_apps = []
        for (x2, y2) in apps[-6:]:
            p.assume(z3.Implies(x <= x2, y <= y2))
            p.assume(z3.Implies(x2 <= x, y2 <= y))
        apps.append((x, y))
        return y

    def float_result(self, x, zero_kind):
        """finite real result x of a float operation -> SV float with overflow/underflow"""
        x = simp(x)
        p = self.p
        if p.fork(x == 0):
            return SV("float", k=simp(zero_kind), r=z3.RealVal(0))
        if p.fork(z3.Or(x >= M.OVF, x <= -M.OVF)):
            return SV("float", k=simp(z3.If(x > 0, z3.IntVal(PINF), z3.IntVal(NINF))), r=z3.RealVal(0))
        y = self.rnd(x)
        if conc_bool(y == 0) is False:
            return SV("float", k=z3.IntVal(FIN), r=y)
        # underflow to a signed zero
        k = z3.If(y == 0, z3.If(x < 0, z3.IntVal(NZERO), z3.IntVal(FIN)), z3.IntVal(FIN))
        return SV("float", k=simp(k), r=y)

    def is_zero(self, f):
        return z3.Or(f.k == NZERO, z3.And(f.k == FIN, f.r == 0))

    def is_neg(self, f):
        """sign bit set (for non-NaN)"""
        return z3.Or(f.k == NZERO, f.k == NINF, z3.And(f.k == FIN, f.r < 0))

    def farith(self, op, a: SV, b: SV) -> SV:
        p = self.p
        nan = s_float(NAN, 0)
        if p.fork(z3.Or(a.k == NAN, b.k == NAN)):
            if op in ("/", "//", "%") and False:
                pass
            if op in ("/", "//", "%"):
                if p.fork(self.is_zero(b)):
                    raise PyExc("ZeroDivisionError", None, "float division by zero")
            return nan
        a_inf = z3.Or(a.k == PINF, a.k == NINF)
        b_inf = z3.Or(b.k == PINF, b.k == NINF)
        if op in ("+", "-"):
            bk = b.k if op == "+" else z3.If(b.k == PINF, z3.IntVal(NINF), z3.If(b.k == NINF, z3.IntVal(PINF), b.k))
            if p.fork(a_inf):
                if p.fork(z3.And(b_inf, bk != a.k)):
                    return nan
                return SV("float", k=a.k, r=z3.RealVal(0))
            if p.fork(b_inf):
                return SV("float", k=simp(bk), r=z3.RealVal(0))
            x = a.r + b.r if op == "+" else a.r - b.r
            bneg = (b.k == NZERO) if op == "+" else z3.And(b.k == FIN, b.r == 0)
            both_negzero = z3.And(a.k == NZERO, bneg)
            return self.float_result(x, z3.If(both_negzero, z3.IntVal(NZERO), z3.IntVal(FIN)))
        if op == "*":
            neg = z3.Xor(self.is_neg(a), self.is_neg(b))
            if p.fork(z3.Or(a_inf, b_inf)):
                if p.fork(z3.Or(self.is_zero(a), self.is_zero(b))):
                    return nan
                return SV("float", k=simp(z3.If(neg, z3.IntVal(NINF), z3.IntVal(PINF))), r=z3.RealVal(0))
            return self.float_result(a.r * b.r, z3.If(neg, z3.IntVal(NZERO), z3.IntVal(FIN)))
        if op == "/":
            if p.fork(self.is_zero(b)):
                raise PyExc("ZeroDivisionError", None, "float division by zero")
            neg = z3.Xor(self.is_neg(a), self.is_neg(b))
            if p.fork(a_inf):
                if p.fork(b_inf):
                    return nan
                return SV("float", k=simp(z3.If(neg, z3.IntVal(NINF), z3.IntVal(PINF))), r=z3.RealVal(0))
            if p.fork(b_inf):
                return SV("float", k=simp(z3.If(neg, z3.IntVal(NZERO), z3.IntVal(FIN))), r=z3.RealVal(0))
            return self.float_result(a.r / b.r, z3.If(neg, z3.IntVal(NZERO), z3.IntVal(FIN)))
        if op == "%":
            # Python float %: sign of the divisor; x % inf = x (or inf-adjusted); inf % y = nan
            if p.fork(self.is_zero(b)):
                raise PyExc("ZeroDivisionError", None, "float modulo")
            if p.fork(a_inf):
                return nan
            if p.fork(b_inf):
                # Python: fmod(a, inf) = a; if signs differ and a != 0 the result is b (inf)
                if p.fork(z3.And(z3.Not(self.is_zero(a)), z3.Xor(self.is_neg(a), self.is_neg(b)))):
                    return SV("float", k=b.k, r=z3.RealVal(0))
                # result has the sign of b when zero
                if p.fork(self.is_zero(a)):
                    return SV("float", k=simp(z3.If(self.is_neg(b), z3.IntVal(NZERO), z3.IntVal(FIN))), r=z3.RealVal(0))
                return a
            q = z3.ToReal(z3.ToInt(a.r / b.r))
            x = a.r - b.r * q
            # exact in binary64 (fmod is exact; the adjustment may round - ignored: A-IEEE note)
            zk = z3.If(self.is_neg(b), z3.IntVal(NZERO), z3.IntVal(FIN))
            if p.fork(x == 0):
                return SV("float", k=simp(zk), r=z3.RealVal(0))
            return SV("float", k=z3.IntVal(FIN), r=self.rnd(x))
        raise Unsupported(f"float op {op}")

    def binop(self, op, a: SV, b: SV) -> SV:
        a, b = self.refine(a), self.refine(b)
        p = self.p
        ka, kb = a.kind, b.kind
        # string / sequence operations
        if op == "+":
            if ka == "str" and kb == "str":
                return s_str(z3.Concat(a.t, b.t))
            if ka == "str" or kb == "str":
                raise PyExc("TypeError", None, "can only concatenate str")
            if ka in ("tuple", "seq") and kb in ("tuple", "seq"):
                if ka == "tuple" and kb == "tuple":
                    return s_tuple(a.items + b.items)
                return s_seq(z3.Concat(self.as_seq(a), self.as_seq(b)))
            if ka == "ref" and kb == "ref":
                ca, cb = self.static_cls(a), self.static_cls(b)
                if ca == "list" and cb == "list":
                    r = p.alloc("list")
                    p.hwrite("list.items", r.ref, z3.Concat(p.hread("list.items", a.ref), p.hread("list.items", b.ref)))
                    return r
                raise PyExc("TypeError", None, "unsupported operand +")
        if op == "*" and ((ka == "str" and kb in ("int", "bool")) or (kb == "str" and ka in ("int", "bool"))):
            s_, n_ = (a, b) if ka == "str" else (b, a)
            n_ = self.num(n_)
            if p.fork(n_.t <= 0):
                return s_str("")
            c = conc_int(n_.t)
            if c is not None and c <= 8:
                return s_str(z3.Concat(*[s_.t] * c) if c > 1 else s_.t)
            rep = z3.Function("str_repeat", z3.StringSort(), z3.IntSort(), z3.StringSort())
            p.uf_used.add("str_repeat")
            out = rep(s_.t, n_.t)
            p.assume(z3.Length(out) == z3.Length(s_.t) * n_.t)
            p.assume(z3.Implies(n_.t == 1, out == s_.t))
            return s_str(out)
        if op == "*" and ka == "ref" and kb == "int" and self.static_cls(a) == "list":
            # [X] * n : only for single-element or concrete lists
            items = p.hread("list.items", a.ref)
            n = b.t
            r = p.alloc("list")
            cn_, cl_ = conc_int(n), conc_int(z3.Length(items))
            if cn_ is not None and cl_ is not None and cn_ * cl_ <= 16:
                # concrete small repetition (e.g. [UNDEFINED] * 0): the sequence itself
                parts = [items] * max(cn_, 0)
                p.hwrite("list.items", r.ref, simp(z3.Concat(*parts)) if len(parts) > 1 else (parts[0] if parts else z3.Empty(ValSeq)))
                return r
            out = p.fresh(ValSeq, "rep")
            p.assume(z3.Length(out) == z3.If(n > 0, n, 0) * z3.Length(items))
            if conc_int(z3.Length(items)) == 1:
                j = z3.Int("j!rep")
                p.assume(z3.ForAll([j], z3.Implies(z3.And(j >= 0, j < z3.Length(out)), out[j] == items[0])))
            else:
                raise Unsupported("list * n")
            p.hwrite("list.items", r.ref, out)
            return r
        if op == "%" and ka == "str":
            raise Unsupported("str % formatting")
        # numeric
        a, b = self.num(a), self.num(b)
        if a.kind == "int" and b.kind == "int":
            x, y = a.t, b.t
            if op == "+":
                return s_int(x + y)
            if op == "-":
                return s_int(x - y)
            if op == "*":
                return s_int(x * y)
            if op == "/":
                if p.fork(y == 0):
                    raise PyExc("ZeroDivisionError", None, "division by zero")
                fa, fb = z3.ToReal(x), z3.ToReal(y)
                return self.float_result(fa / fb, z3.If(z3.Xor(x < 0, y < 0), z3.IntVal(FIN), z3.IntVal(FIN)))
            if op == "//":
                if p.fork(y == 0):
                    raise PyExc("ZeroDivisionError", None, "integer division by zero")
                return s_int(self.floordiv(x, y))
            if op == "%":
                if p.fork(y == 0):
                    raise PyExc("ZeroDivisionError", None, "integer modulo by zero")
                return s_int(x - y * self.floordiv(x, y))
            if op == "**":
                return self.int_pow(x, y)
            if op in ("&", "|", "^", "<<", ">>"):
                return self.bitop(op, x, y, a.extra, b.extra)
            raise Unsupported(f"int op {op}")
        if op in ("&", "|", "^", "<<", ">>"):
            raise PyExc("TypeError", None, f"unsupported operand type(s) for {op}: float")
        if op == "**":
            return self.float_pow(a, b)
        if op == "//":
            raise Unsupported("float //")
        fa, fb = self.to_float(a), self.to_float(b)
        return self.farith(op, fa, fb)

    def floordiv(self, x, y):
        # python floor division for y != 0 (z3 div is Euclidean: floors for y>0, ceils for y<0)
        return z3.If(y > 0, x / y, (-x) / (-y)) if False else z3.If(y > 0, x / y, -((-x) / y) if False else (0 - x) / (0 - y))

    def int_pow(self, x, y):
        p = self.p
        cy = conc_int(y)
        cx = conc_int(x)
        if cy is not None and cy >= 0 and cy <= 64:
            out = z3.IntVal(1)
            for _ in range(cy):
                out = out * x
            return s_int(out)
        if cx is not None and cy is not None:
            return lift(cx ** cy) if not (cx == 0 and cy < 0) else self._raise("ZeroDivisionError")
        if cx == 10 and True:
            # 10**d for symbolic d: integer power for d>=0, float for d<0
            if p.fork(y < 0):
                f = z3.Function("pow10r", z3.IntSort(), z3.RealSort())
                p.uf_used.add("pow10r")
                return s_float(FIN, f(y))
            f = z3.Function("pow10", z3.IntSort(), z3.IntSort())
            p.uf_used.add("pow10")
            out = f(y)
            p.assume(out >= 1)
            return s_int(out)
        if p.fork(z3.And(x == 0, y < 0)):
            raise PyExc("ZeroDivisionError", None, "0 ** negative")
        if p.fork(y < 0):
            f = z3.Function("ipow_neg", z3.IntSort(), z3.IntSort(), z3.RealSort())
            p.uf_used.add("ipow")
            return s_float(FIN, f(x, y))
        f = z3.Function("ipow", z3.IntSort(), z3.IntSort(), z3.IntSort())
        p.uf_used.add("ipow")
        return s_int(f(x, y))

    def _raise(self, cls, msg=None):
        raise PyExc(cls, None, msg)

    def float_pow(self, a: SV, b: SV) -> SV:
        """Python a ** b with at least one float: exception rows are exact, the value is a UF."""
        p = self.p
        fa, fb = self.to_float(a), self.to_float(b)
        a_zero = self.is_zero(fa)
        b_negative = z3.Or(fb.k == NINF, z3.And(fb.k == FIN, fb.r < 0))
        if p.fork(z3.And(a_zero, b_negative)):
            raise PyExc("ZeroDivisionError", None, "0.0 cannot be raised to a negative power")
        a_neg_fin = z3.And(fa.k == FIN, fa.r < 0)
        b_nonint = z3.And(fb.k == FIN, z3.Not(z3.IsInt(fb.r)))
        if p.fork(z3.And(a_neg_fin, b_nonint)):
            # CPython returns a complex number
            r = p.alloc("complex")
            return r
        fk = z3.Function("fpow_k", z3.IntSort(), z3.RealSort(), z3.IntSort(), z3.RealSort(), z3.IntSort())
        fr = z3.Function("fpow_r", z3.IntSort(), z3.RealSort(), z3.IntSort(), z3.RealSort(), z3.RealSort())
        ovf = z3.Function("fpow_overflows", z3.IntSort(), z3.RealSort(), z3.IntSort(), z3.RealSort(), z3.BoolSort())
        p.uf_used.add("fpow")
        both_fin = z3.And(z3.Or(fa.k == FIN, fa.k == NZERO), z3.Or(fb.k == FIN, fb.k == NZERO))
        if p.fork(z3.And(both_fin, ovf(fa.k, fa.r, fb.k, fb.r))):
            raise PyExc("OverflowError", None, "(34, 'Numerical result out of range')")
        k, r = fk(fa.k, fa.r, fb.k, fb.r), fr(fa.k, fa.r, fb.k, fb.r)
        p.assume(M.flt_wf(k, r))
        return SV("float", k=k, r=r)

    def bitop(self, op, x, y, xa=None, ya=None):
        p = self.p
        if op == "|":
            # a | (b << k) with 0 <= a < 2**k is a + b * 2**k  (disjoint bits)
            for (u, ue, w) in ((x, xa, y), (y, ya, x)):
                pass
            for (shifted, info, other) in ((y, ya, x), (x, xa, y)):
                if isinstance(info, tuple) and info[0] == "shl":
                    k = info[1]
                    if not p.feasible(z3.Or(other < 0, other >= 2 ** k)) and not p.feasible(shifted < 0):
                        return s_int(other + shifted)
        cy = conc_int(y)
        cx = conc_int(x)
        if cx is not None and cy is not None:
            return lift({"&": cx & cy, "|": cx | cy, "^": cx ^ cy, "<<": cx << cy if cy >= 0 else 0,
                         ">>": cx >> cy if cy >= 0 else 0}[op])
        if op == "&":
            for m, o in ((cy, x), (cx, y)):
                if m is not None and m >= 0 and (m & (m + 1)) == 0:
                    return s_int(o % (m + 1))          # z3 mod is Euclidean: matches Python & mask
                if m is not None and m > 0 and (m & (m - 1)) == 0:
                    # single bit test
                    return s_int(z3.If((o / m) % 2 == 1, z3.IntVal(m), z3.IntVal(0)))
        if op in ("<<", ">>"):
            if p.fork(y < 0):
                raise PyExc("ValueError", None, "negative shift count")
            if cy is not None:
                pw = z3.IntVal(2 ** cy)
            else:
                if not p.feasible(y > 63):
                    pw = M.pow2(y)
                    p.uf_used.add("pow2")
                    for k in range(64):
                        p.assume(M.pow2(z3.IntVal(k)) == 2 ** k)
                    # make the instance usable: y in 0..63 -> case split by the solver
                    p.assume(z3.Or([z3.And(y == k, pw == 2 ** k) for k in range(64)]))
                else:
                    raise Unsupported("shift by unbounded amount")
            if op == "<<":
                r = s_int(x * pw)
                if cy is not None:
                    r.extra = ("shl", cy)
                return r
            return s_int(x / pw)      # pw > 0: Euclidean div == floor
        # general &,|,^ : exact for operands that fit 64-bit two's complement, via bit-vectors
        if not p.feasible(z3.Or(x >= 2 ** 63, x < -2 ** 63, y >= 2 ** 63, y < -2 ** 63)):
            bx, by = z3.Int2BV(x, 64), z3.Int2BV(y, 64)
            bz = {"&": bx & by, "|": bx | by, "^": bx ^ by}[op]
            return s_int(z3.BV2Int(bz, is_signed=True))
        raise Unsupported("bit operation on unbounded ints")

    # ---- comparisons -----------------------------------------------------------------
    def cmp_num(self, op, a: SV, b: SV):
        """z3 Bool for a <op> b on int/float SVs (Python semantics: exact, NaN unordered)"""
        if a.kind == "int" and b.kind == "int":
            x, y = a.t, b.t
            return {"<": x < y, "<=": x <= y, ">": x > y, ">=": x >= y, "==": x == y, "!=": x != y}[op]
        fa = a if a.kind == "float" else SV("float", k=z3.IntVal(FIN), r=z3.ToReal(a.t))
        fb = b if b.kind == "float" else SV("float", k=z3.IntVal(FIN), r=z3.ToReal(b.t))
        anynan = z3.Or(fa.k == NAN, fb.k == NAN)
        # rank: NINF < finite < PINF
        def rank(f):
            return z3.If(f.k == NINF, -1, z3.If(f.k == PINF, 1, 0))
        ra, rb = rank(fa), rank(fb)
        lt = z3.Or(ra < rb, z3.And(ra == 0, rb == 0, fa.r < fb.r))
        eq = z3.And(ra == rb, z3.Or(ra != 0, fa.r == fb.r))
        if op == "<":
            return z3.And(z3.Not(anynan), lt)
        if op == "<=":
            return z3.And(z3.Not(anynan), z3.Or(lt, eq))
        if op == ">":
            return z3.And(z3.Not(anynan), z3.Not(lt), z3.Not(eq))
        if op == ">=":
            return z3.And(z3.Not(anynan), z3.Not(lt))
        if op == "==":
            return z3.And(z3.Not(anynan), eq)
        if op == "!=":
            return z3.Or(anynan, z3.Not(eq))
        raise Unsupported(op)

    def eq(self, a: SV, b: SV):
        """Python == as z3 Bool (no user __eq__ except the documented singletons)."""
        if a.kind == "val" and b.kind == "val":
            a2 = simp(a.t)
            b2 = simp(b.t)
            # identical terms / pure constructors
            if a2.eq(b2) and not self._may_be_nan_val(a2):
                return z3.BoolVal(True)
        if a.kind == "pytype" and b.kind == "pytype":
            return a.t == b.t
        a, b = self.refine(a), self.refine(b)
        ka, kb = a.kind, b.kind
        num = ("int", "float", "bool")
        if ka in num and kb in num:
            return self.cmp_num("==", self.num(a), self.num(b))
        if ka == "str" and kb == "str":
            return a.t == b.t
        if ka == "none" or kb == "none":
            return z3.BoolVal(ka == kb)
        if ka == "val" and kb == "val":      # only VUndef / VNull reach here after refine
            return a.t == b.t
        if ka == "ref" and kb == "ref":
            ca, cb = conc_int(a.cls), conc_int(b.cls)
            listy = (CLS["list"], CLS["tuple"])
            if ca in listy or cb in listy or ca is None or cb is None:
                if ca in listy and cb in listy and ca == cb:
                    return self.p.hread("list.items", a.ref) == self.p.hread("list.items", b.ref)
                if ca is not None and cb is not None and ca != cb and not (ca in listy and cb in listy):
                    return z3.BoolVal(False)
                raise Unsupported("== on possibly structural refs")
            return z3.And(a.cls == b.cls, a.ref == b.ref)
        if ka == "tuple" and kb == "tuple":
            if len(a.items) != len(b.items):
                return z3.BoolVal(False)
            return z3.And([self.eq(x, y) for x, y in zip(a.items, b.items)] + [z3.BoolVal(True)])
        import enum as _enum
        if ka == "py" and isinstance(a.py, _enum.IntEnum) and kb == "int":
            return b.t == int(a.py)
        if kb == "py" and isinstance(b.py, _enum.IntEnum) and ka == "int":
            return a.t == int(b.py)
        if ka in ("py", "class", "func", "module") or kb in ("py", "class", "func", "module"):
            if ka == kb:
                return z3.BoolVal(a.py == b.py)
            return z3.BoolVal(False)
        if ka == "seq" or kb == "seq":
            if ka == kb:
                return a.t == b.t
            raise Unsupported("== seq/other")
        return z3.BoolVal(False)

    def _may_be_nan_val(self, t):
        return True

    def identical(self, a: SV, b: SV):
        """Python `is`.  Only used on singletons/refs/None in the analysed code."""
        ka, kb = a.kind, b.kind
        if ka == "val" and kb == "val":
            ta, tb = a.t, b.t
            both_single = z3.Or(z3.And(Val.is_VUndef(ta), Val.is_VUndef(tb)), z3.And(Val.is_VNull(ta), Val.is_VNull(tb)),
                                z3.And(Val.is_VNone(ta), Val.is_VNone(tb)),
                                z3.And(Val.is_VBool(ta), Val.is_VBool(tb), Val.vb(ta) == Val.vb(tb)),
                                z3.And(Val.is_VRef(ta), Val.is_VRef(tb), ta == tb))
            c = conc_bool(z3.Or(Val.is_VUndef(tb), Val.is_VNull(tb), Val.is_VNone(tb), Val.is_VBool(tb), Val.is_VRef(tb)))
            c2 = conc_bool(z3.Or(Val.is_VUndef(ta), Val.is_VNull(ta), Val.is_VNone(ta), Val.is_VBool(ta), Val.is_VRef(ta)))
            if c or c2:
                return both_single
            unstable = lambda t: z3.Or(Val.is_VInt(t), Val.is_VFlt(t), Val.is_VStr(t))
            if not self.p.feasible(z3.And(unstable(ta), unstable(tb))):
                return both_single
            raise Unsupported("`is` on values that may be numbers/strings")
        if ka == "none" or kb == "none":
            o = b if ka == "none" else a
            if o.kind == "none":
                return z3.BoolVal(True)
            if o.kind == "val":
                return Val.is_VNone(o.t)
            return z3.BoolVal(False)
        if ka == "val" or kb == "val":
            v, o = (a, b) if ka == "val" else (b, a)
            if o.kind == "ref":
                return v.t == Val.VRef(o.cls, o.ref)
            if o.kind == "bool":
                return v.t == Val.VBool(o.t)
            if o.kind in ("int", "float", "str"):
                c = conc_bool(z3.Or(Val.is_VUndef(v.t), Val.is_VNull(v.t), Val.is_VNone(v.t)))
                if c:
                    return z3.BoolVal(False)
                raise Unsupported("`is` between dynamic value and number/str")
            return z3.BoolVal(False)
        if ka == "ref" and kb == "ref":
            return z3.And(a.cls == b.cls, a.ref == b.ref)
        if ka == "bool" and kb == "bool":
            return a.t == b.t
        if ka in ("py", "class", "func", "module") and kb == ka:
            return z3.BoolVal(a.py is b.py)
        if ka != kb:
            return z3.BoolVal(False)
        raise Unsupported(f"`is` on {ka}")

    def compare(self, op, a: SV, b: SV) -> SV:
        p = self.p
        if op == "is":
            return s_bool(self.identical(a, b))
        if op == "is not":
            return s_bool(z3.Not(self.identical(a, b)))
        if op == "==":
            return s_bool(self.eq(a, b))
        if op == "!=":
            return s_bool(z3.Not(self.eq(a, b)))
        if op in ("in", "not in"):
            r = self.contains(b, a)
            return s_bool(r if op == "in" else z3.Not(r))
        a, b = self.refine(a), self.refine(b)
        if a.kind == "str" and b.kind == "str":
            lt = self.str_lt(a.t, b.t)
            if op == "<":
                return s_bool(lt)
            if op == "<=":
                return s_bool(z3.Or(lt, a.t == b.t))
            if op == ">":
                return s_bool(z3.And(z3.Not(lt), a.t != b.t))
            return s_bool(z3.Not(lt))
        if a.kind in ("int", "float", "bool") and b.kind in ("int", "float", "bool"):
            return s_bool(self.cmp_num(op, self.num(a), self.num(b)))
        raise PyExc("TypeError", None, f"'{op}' not supported between {a.kind} and {b.kind}")

    def str_lt(self, x, y):
        # z3's str.< is lexicographic on code points, like Python
        return x < y

    def contains(self, container: SV, item: SV):
        c = self.refine(container)
        p = self.p
        if c.kind == "tuple":
            return z3.Or([self.eq(item, x) for x in c.items] + [z3.BoolVal(False)])
        if c.kind == "str":
            it = self.refine(item)
            if it.kind != "str":
                raise PyExc("TypeError", None, "'in <string>' requires string")
            if isinstance(c.extra, tuple) and c.extra[0] == "slice":
                _, base, a, b = c.extra
                if conc_bool(b == z3.Length(base)):
                    # L3: p in s[a:]  <=>  s.find(p, a) >= 0      (0 <= a <= len(s))
                    return z3.IndexOf(base, it.t, a) >= 0
            return z3.Contains(c.t, it.t)
        if c.kind == "seq":
            return z3.Contains(c.t, z3.Unit(self.box(item)))
        if c.kind == "dict":
            it = self.refine(item)
            if it.kind == "str":
                cs = conc_str(it.t)
                if cs is not None:
                    return z3.BoolVal(cs in c.py)
                return z3.Or([it.t == z3.StringVal(k) for k in c.py if isinstance(k, str)] + [z3.BoolVal(False)])
            raise Unsupported("in dict with non-str key")
        if c.kind == "py" and isinstance(c.py, (set, frozenset, list, tuple, dict)):
            it = self.refine(item)
            if it.kind == "str":
                cs = conc_str(it.t)
                if cs is not None:
                    return z3.BoolVal(cs in c.py)
                return z3.Or([it.t == z3.StringVal(k) for k in c.py if isinstance(k, str)] + [z3.BoolVal(False)])
            if it.kind == "py" or it.kind == "class":
                return z3.BoolVal(it.py in c.py)
            if it.kind == "int":
                return z3.Or([it.t == int(k) for k in c.py if isinstance(k, int)] + [z3.BoolVal(False)])
            raise Unsupported("in python container")
        if c.kind == "ref":
            cn = self.static_cls(c)
            if cn in ("list", "tuple"):
                items = p.hread("list.items", c.ref)
                it = self.refine(item)
                if it.kind in ("int", "float", "bool"):
                    raise Unsupported("numeric membership in list (== semantics)")
                return z3.Contains(items, z3.Unit(self.box(it)))
            if cn == "dict":
                it = self.refine(item)
                if it.kind != "str":
                    raise Unsupported("dict key not str")
                return z3.Select(p.hread("dict.dom", c.ref), it.t)
        raise Unsupported(f"in on {c.kind}")

    def as_seq(self, sv: SV):
        if sv.kind == "seq":
            return sv.t
        if sv.kind == "tuple":
            return self.seq_of(sv.items)
        if sv.kind == "ref":
            return self.p.hread("list.items", sv.ref)
        raise Unsupported(f"as_seq of {sv.kind}")

    # ---- indexing / slicing ----------------------------------------------------------
    def norm_index(self, i, n, what="index"):
        """Python index normalisation; raises IndexError in the analysed program"""
        p = self.p
        i2 = z3.If(i < 0, i + n, i)
        if p.fork(z3.Or(i2 < 0, i2 >= n)):
            raise PyExc("IndexError", None, f"{what} out of range")
        return simp(i2)

    def slice_bounds(self, lo: SV, hi: SV, n):
        def clamp(x, default):
            if x is None or x.kind == "none":
                return default
            x = self.refine(x)
            if x.kind == "bool":
                x = self.num(x)
            if x.kind != "int":
                raise PyExc("TypeError", None, "slice indices must be integers")
            v = x.t
            v = z3.If(v < 0, z3.If(v + n < 0, 0, v + n), z3.If(v > n, n, v))
            return v
        a = clamp(lo, z3.IntVal(0))
        b = clamp(hi, n)
        return simp(a), simp(b)

    def subscript(self, base: SV, idx, is_slice=False, lo=None, hi=None, step=None) -> SV:
        p = self.p
        base = self.refine(base)
        if is_slice:
            if step is not None and step.kind != "none":
                raise Unsupported("slice step")
            if base.kind == "str":
                n = z3.Length(base.t)
                a, b = self.slice_bounds(lo, hi, n)
                r = s_str(z3.SubString(base.t, a, z3.If(b > a, b - a, 0)))
                r.extra = ("slice", base.t, a, b)     # remembered for the slice lemmas L1-L3 (builtins.py)
                return r
            if base.kind in ("seq", "tuple"):
                if base.kind == "tuple":
                    cl = None if lo is None or lo.kind == "none" else conc_int(self.refine(lo).t)
                    ch = None if hi is None or hi.kind == "none" else conc_int(self.refine(hi).t)
                    if (lo is None or lo.kind == "none" or cl is not None) and (hi is None or hi.kind == "none" or ch is not None):
                        return s_tuple(base.items[cl:ch])
                t = self.as_seq(base)
                n = z3.Length(t)
                a, b = self.slice_bounds(lo, hi, n)
                return s_seq(z3.SubSeq(t, a, z3.If(b > a, b - a, 0)))
            if base.kind == "ref":
                cn = self.static_cls(base)
                if cn in ("list", "tuple", "bytes", "bytearray"):
                    t = p.hread("list.items", base.ref)
                    n = z3.Length(t)
                    a, b = self.slice_bounds(lo, hi, n)
                    r = p.alloc(cn)
                    p.hwrite("list.items", r.ref, z3.SubSeq(t, a, z3.If(b > a, b - a, 0)))
                    return r
            raise PyExc("TypeError", None, f"{base.kind} is not subscriptable (slice)")
        idx = self.refine(idx)
        if base.kind == "dict":
            if idx.kind == "str":
                cs = conc_str(idx.t)
                if cs is not None:
                    if cs in base.py:
                        return base.py[cs]
                    raise PyExc("KeyError", None, cs)
            raise Unsupported("dict subscript with symbolic key")
        if base.kind == "py" and isinstance(base.py, dict):
            key = self.concrete_key(idx)
            if key in base.py:
                return lift(base.py[key])
            raise PyExc("KeyError", None, str(key))
        if idx.kind == "bool":
            idx = self.num(idx)
        if base.kind == "str":
            if idx.kind != "int":
                raise PyExc("TypeError", None, "string indices must be integers")
            i = self.norm_index(idx.t, z3.Length(base.t), "string index")
            r = s_str(z3.SubString(base.t, i, 1))
            r.extra = "char"          # length-1 string by construction
            return r
        if base.kind == "tuple":
            if idx.kind != "int":
                raise PyExc("TypeError", None, "tuple indices must be integers")
            c = conc_int(idx.t)
            if c is not None:
                if -len(base.items) <= c < len(base.items):
                    return base.items[c]
                raise PyExc("IndexError", None, "tuple index out of range")
            i = self.norm_index(idx.t, z3.IntVal(len(base.items)), "tuple index")
            k = p.choose([i == j for j in range(len(base.items))])
            return base.items[k]
        if base.kind == "seq":
            if idx.kind != "int":
                raise PyExc("TypeError", None, "tuple indices must be integers")
            i = self.norm_index(idx.t, z3.Length(base.t), "tuple index")
            v = simp(base.t[i])
            self.seq_fact(v)
            return s_val(v)
        if base.kind == "ref":
            cn = self.static_cls(base)
            if cn in ("list", "tuple", "bytes", "bytearray"):
                if idx.kind != "int":
                    raise PyExc("TypeError", None, "list indices must be integers")
                t = p.hread("list.items", base.ref)
                i = self.norm_index(idx.t, z3.Length(t), "list index")
                v = simp(t[i])
                self.elem_fact(base, v)
                return s_val(v)
            if cn == "dict":
                if idx.kind != "str":
                    raise Unsupported("dict key kind")
                if p.fork(z3.Not(z3.Select(p.hread("dict.dom", base.ref), idx.t))):
                    raise PyExc("KeyError", None, "key")
                v = simp(z3.Select(p.hread("dict.map", base.ref), idx.t))
                self.elem_fact(base, v)
                return s_val(v)
            m = self.find_method(cn, "__getitem__") if cn in self.ct.real else None
            if m is not None:
                from .interp import FuncVal
                nodef, mod, owner = m
                return self.call_func(FuncVal(nodef, [], mod, f"{mod.name}:{owner}.__getitem__", self_obj=base), [idx], {})
            raise PyExc("TypeError", None, f"'{cn}' object is not subscriptable")
        raise PyExc("TypeError", None, f"{base.kind} is not subscriptable")

    seq_elem_fact = None

    def seq_fact(self, v):
        """elements of symbolic-length tuples come from the call's arguments (harness inputs)"""
        self.p.old_ref_fact(v)
        if self.seq_elem_fact is not None:
            self.p.assume(self.seq_elem_fact(v))

    def elem_fact(self, container: SV, v):
        """values read from the *initial* heap are old, well-formed values (encoding invariant);
        nothing is assumed about values that may have been stored during this execution"""
        self.p.assume(M.val_wf(v))
        et = getattr(self.p, "elem_types", None)
        if et and container.kind == "ref":
            ty = et.get(container.ref.get_id())
            if ty is not None:
                self.assume_type(v, ty)      # element invariant declared by the harness with elems_are(list, type)
        if is_initial_read(v):
            self.p.assume(z3.Implies(z3.And(Val.is_VRef(v), container.ref < self.p.alloc0), Val.ref(v) < self.p.alloc0))

    def concrete_key(self, idx: SV):
        if idx.kind == "str":
            c = conc_str(idx.t)
        elif idx.kind == "int":
            c = conc_int(idx.t)
        elif idx.kind in ("py", "class"):
            c = idx.py
        else:
            c = None
        if c is None:
            raise Unsupported("symbolic key into concrete dict")
        return c

    def store_subscript(self, base: SV, idx: SV, value: SV):
        p = self.p
        base = self.refine(base)
        idx = self.refine(idx)
        if base.kind == "ref":
            cn = self.static_cls(base)
            if cn in ("list", "bytearray"):
                if idx.kind == "bool":
                    idx = self.num(idx)
                if idx.kind != "int":
                    raise PyExc("TypeError", None, "list indices must be integers")
                t = p.hread("list.items", base.ref)
                n = z3.Length(t)
                i = self.norm_index(idx.t, n, "list assignment index")
                if cn == "bytearray":
                    v = self.refine(value)
                    if v.kind != "int":
                        raise PyExc("TypeError", None, "an integer is required")
                    if p.fork(z3.Or(v.t < 0, v.t > 255)):
                        raise PyExc("ValueError", None, "byte must be in range(0, 256)")
                new = z3.Concat(z3.SubSeq(t, 0, i), z3.Unit(self.box(value)), z3.SubSeq(t, i + 1, n - i - 1))
                p.hwrite("list.items", base.ref, simp(new))
                return
            if cn == "dict" and idx.kind == "int":
                # dict with integer keys (source maps): separate map, insertion order not modelled
                dom = p.heap_arr("idict.dom")
                p.heap["idict.dom"] = z3.Store(dom, base.ref, z3.Store(z3.Select(dom, base.ref), idx.t, True))
                mp = p.heap_arr("idict.map")
                p.heap["idict.map"] = z3.Store(mp, base.ref, z3.Store(z3.Select(mp, base.ref), idx.t, self.box(value)))
                return
            if cn == "dict":
                if idx.kind != "str":
                    raise Unsupported("dict store key kind")
                dom = p.hread("dict.dom", base.ref)
                order = p.hread("dict.order", base.ref)
                had = z3.Select(dom, idx.t)
                p.hwrite("dict.order", base.ref, z3.If(had, order, z3.Concat(order, z3.Unit(idx.t))))
                p.hwrite("dict.dom", base.ref, z3.Store(dom, idx.t, True))
                p.hwrite("dict.map", base.ref, z3.Store(p.hread("dict.map", base.ref), idx.t, self.box(value)))
                return
            if cn == "tuple":
                raise PyExc("TypeError", None, "'tuple' object does not support item assignment")
        if base.kind == "dict":
            key = self.concrete_key(idx)
            base.py[key] = value
            return
        raise Unsupported(f"store subscript on {base.kind}")
