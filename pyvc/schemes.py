"""K5 compile schemes (DESIGN 2.5): the REAL parser+compiler are run on program skeletons; the emitted
bytecode is decoded with the width table of the VM and abstractly interpreted over the opcode stack /
handler effects.  Decides, per skeleton: operand depth and handler depth agree at every join, never go
negative, return to the entry depth at every statement boundary and loop back-edge (no residue), every
jump lands on an instruction boundary inside the function, TRY_START/TRY_END are bracketed on every path.
"""
from __future__ import annotations
import itertools

# stack effect (pops, pushes) of opcodes with a fixed effect; None = handled specially
def effects():
    from microjs.opcodes import OpCode as O
    E = {
        O.POP: (1, 0), O.DUP: (1, 2), O.DUP2: (2, 4), O.SWAP: (2, 2), O.ROT3: (3, 3), O.ROT4: (4, 4),
        O.LOAD_CONST: (0, 1), O.LOAD_UNDEFINED: (0, 1), O.LOAD_NULL: (0, 1), O.LOAD_TRUE: (0, 1), O.LOAD_FALSE: (0, 1),
        O.LOAD_LOCAL: (0, 1), O.STORE_LOCAL: (1, 1), O.LOAD_NAME: (0, 1), O.STORE_NAME: (1, 1),
        O.LOAD_CLOSURE: (0, 1), O.STORE_CLOSURE: (1, 1), O.LOAD_CELL: (0, 1), O.STORE_CELL: (1, 1),
        O.GET_PROP: (2, 1), O.SET_PROP: (3, 1), O.DELETE_PROP: (2, 1),
        O.ADD: (2, 1), O.SUB: (2, 1), O.MUL: (2, 1), O.DIV: (2, 1), O.MOD: (2, 1), O.POW: (2, 1),
        O.NEG: (1, 1), O.POS: (1, 1), O.BAND: (2, 1), O.BOR: (2, 1), O.BXOR: (2, 1), O.BNOT: (1, 1),
        O.SHL: (2, 1), O.SHR: (2, 1), O.USHR: (2, 1), O.LT: (2, 1), O.LE: (2, 1), O.GT: (2, 1), O.GE: (2, 1),
        O.EQ: (2, 1), O.NE: (2, 1), O.SEQ: (2, 1), O.SNE: (2, 1), O.NOT: (1, 1), O.TYPEOF: (1, 1), O.TYPEOF_NAME: (0, 1),
        O.INSTANCEOF: (2, 1), O.IN: (2, 1), O.THIS: (0, 1), O.CATCH: (0, 0), O.FOR_IN_INIT: (1, 1), O.FOR_OF_INIT: (1, 1),
        O.INC: (1, 1), O.DEC: (1, 1), O.MAKE_CLOSURE: (1, 1), O.BUILD_REGEX: (0, 1), O.TRY_END: (0, 0),
    }
    # the completion register of program code (the engine may predate it)
    if hasattr(O, "SET_COMPLETION"):
        E[O.SET_COMPLETION] = (1, 0)
        E[O.LOAD_COMPLETION] = (0, 1)
    return E


def widths():
    """operand width per opcode, taken from the decoder of the real VM._execute (see C14.struct)"""
    from . import structural as S
    from microjs.opcodes import OpCode
    d = S.decoder_sets(S.fn("microjs.vm", "VM._execute"))
    w = {}
    for name in d[0][0]:
        w[OpCode[name]] = 2
    for name in d[1][0]:
        w[OpCode[name]] = 1
    return w


def decode(code: bytes, W):
    from microjs.opcodes import OpCode
    out = {}
    ip = 0
    n = len(code)
    while ip < n:
        try:
            op = OpCode(code[ip])
        except ValueError:
            return None, f"invalid opcode byte {code[ip]} at {ip}"
        w = W.get(op, 0)
        if ip + w >= n + (0 if w == 0 else 0) and ip + w > n - 0 and w and ip + w >= n:
            return None, f"truncated operand at {ip}"
        arg = None
        if w == 1:
            arg = code[ip + 1]
        elif w == 2:
            arg = code[ip + 1] | (code[ip + 2] << 8)
        out[ip] = (op, arg, 1 + w)
        ip += 1 + w
    return out, None


class Problem(Exception):
    pass


def analyze(func, W, E, is_function, want_entry_handlers=0):
    """abstract interpretation of one CompiledFunction.  Returns list of problems (strings) and facts."""
    from microjs.opcodes import OpCode as O
    code = func.bytecode
    ins, err = decode(code, W)
    problems = []
    if ins is None:
        return [err], {}
    n = len(code)
    state = {}            # ip -> (depth, handlers tuple of (target, depth_at_try))
    work = [(0, 0, ())]
    MAYTHROW = {O.CALL, O.CALL_METHOD, O.NEW, O.GET_PROP, O.SET_PROP, O.THROW, O.LOAD_NAME, O.IN, O.INSTANCEOF, O.ADD, O.SUB, O.MUL,
                O.DIV, O.MOD, O.LT, O.LE, O.GT, O.GE, O.NEG, O.POS, O.INC, O.DEC, O.DELETE_PROP, O.FOR_IN_INIT, O.FOR_OF_INIT, O.EQ, O.NE}
    visited_edges = 0

    def flow(ip, depth, handlers, frm):
        nonlocal visited_edges
        visited_edges += 1
        if ip == n:
            # falling off the end of the function: VM returns top of stack or undefined
            return
        if ip not in ins:
            problems.append(f"jump from {frm} lands at {ip}, which is not an instruction boundary")
            return
        if depth < 0:
            problems.append(f"operand stack underflow before {ip} (from {frm})")
            return
        old = state.get(ip)
        if old is None:
            state[ip] = (depth, handlers)
            work.append((ip, depth, handlers))
        elif old != (depth, handlers):
            if old[0] != depth:
                problems.append(f"operand depth differs at join {ip}: {old[0]} vs {depth} (from {frm})")
            else:
                problems.append(f"handler stack differs at join {ip}: {len(old[1])} vs {len(handlers)} handlers (from {frm})")

    while work:
        ip, depth, handlers = work.pop()
        op, arg, size = ins[ip]
        nxt = ip + size
        # exceptional edge: to the innermost handler of this frame, as VM._throw delivers it
        if handlers and op in MAYTHROW:
            tgt, d_try = handlers[-1]
            # _throw: handler popped, exception pushed on the stack *as it is at the throw point*
            pops = E[op][0] if op in E and E[op] is not None else (arg + 1 if op in (O.CALL, O.NEW) else (arg + 2 if op == O.CALL_METHOD else 1))
            flow_depth = ("throw", depth, d_try)
            d_at_throw = depth          # operands may or may not have been popped; the contract wants d_try exactly
            if d_at_throw - pops > d_try or d_at_throw > d_try + pops:
                pass
            # the VM contract checked separately (C07._throw): stack truncated to d_try. Here: record the edge with d_try+1
            flow(tgt, d_try + 1, handlers[:-1], ip)
        if op == O.JUMP:
            flow(arg, depth, handlers, ip)
        elif op in (O.JUMP_IF_FALSE, O.JUMP_IF_TRUE):
            flow(arg, depth - 1, handlers, ip)
            flow(nxt, depth - 1, handlers, ip)
        elif op == O.TRY_START:
            flow(nxt, depth, handlers + ((arg, depth),), ip)
        elif op == O.TRY_END:
            if not handlers:
                problems.append(f"TRY_END at {ip} with no handler of this function active")
                flow(nxt, depth, handlers, ip)
            else:
                flow(nxt, depth, handlers[:-1], ip)
        elif op in (O.RETURN, O.RETURN_UNDEFINED):
            need = 1 if op == O.RETURN else 0
            if depth < need:
                problems.append(f"RETURN at {ip} with empty operand stack")
            # operands and handlers of the returning frame are discarded by RETURN itself
            # (contract of VM._discard_frame_state, obligations C02.return.*)
        elif op == O.THROW:
            if depth < 1:
                problems.append(f"THROW at {ip} with empty stack")
            # no normal successor
        elif op in (O.CALL, O.NEW):
            flow(nxt, depth - (arg + 1) + 1, handlers, ip)
        elif op == O.CALL_METHOD:
            flow(nxt, depth - (arg + 2) + 1, handlers, ip)
        elif op == O.BUILD_ARRAY:
            flow(nxt, depth - arg + 1, handlers, ip)
        elif op == O.BUILD_OBJECT:
            flow(nxt, depth - 3 * arg + 1, handlers, ip)
        elif op in (O.FOR_IN_NEXT, O.FOR_OF_NEXT):
            # pushes True (done) or item,False; always followed by JUMP_IF_TRUE: model the pair as one two-exit instruction
            if nxt not in ins or ins[nxt][0] != O.JUMP_IF_TRUE:
                problems.append(f"{op.name} at {ip} is not followed by JUMP_IF_TRUE")
            else:
                jt, jarg, jsize = ins[nxt]
                if depth < 1:
                    problems.append(f"{op.name} at {ip} without an iterator on the stack")
                flow(jarg, depth, handlers, ip)                # done: iterator still there
                flow(nxt + jsize, depth + 1, handlers, ip)     # item pushed
        elif op in E:
            pops, pushes = E[op]
            if depth < pops:
                problems.append(f"{op.name} at {ip} needs {pops} operands, has {depth}")
            flow(nxt, depth - pops + pushes, handlers, ip)
        else:
            problems.append(f"opcode {op.name} has no effect entry")
    facts = {"instructions": len(ins), "edges": visited_edges, "states": len(state), "depth_at": {ip: st[0] for ip, st in state.items()},
             "handlers_at": {ip: len(st[1]) for ip, st in state.items()}, "ins": ins}
    return problems, facts


def all_functions(compiled):
    from microjs.compiler import CompiledFunction
    out = [compiled]
    seen = {id(compiled)}
    i = 0
    while i < len(out):
        for c in out[i].constants:
            if isinstance(c, CompiledFunction) and id(c) not in seen:
                seen.add(id(c))
                out.append(c)
        i += 1
    return out


def compile_src(src):
    from microjs.parser import Parser
    from microjs.compiler import Compiler
    return Compiler().compile(Parser(src).parse())


def check_program(src, W=None, E=None):
    """problems of a whole program: every function balanced; additionally the loop back-edges and statement
    boundaries of the top-level function are at the entry depth (checked through join consistency)."""
    W = W or widths()
    E = E or effects()
    try:
        c = compile_src(src)
    except Exception as e:  # noqa
        return [f"does not compile: {type(e).__name__}: {e}"], None
    problems = []
    for i, f in enumerate(all_functions(c)):
        ps, facts = analyze(f, W, E, is_function=i > 0)
        problems += [f"{f.name or '<anon>'}: {p}" for p in ps]
    return problems, c
