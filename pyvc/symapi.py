"""Symbolic implementations of the harness vocabulary (pyvc.api) and of abstracted spec
functions.  Installed into an engine per contract."""
from __future__ import annotations
import ast, sys
import z3
from . import model as M, api
from .model import Val, ValSeq, FIN, NAN, PINF, NINF, NZERO, CLS
from .engine import (SV, PyExc, Unsupported, s_int, s_bool, s_str, s_float, s_val, s_seq, s_tuple, s_ref, s_py,
                     S_NONE, lift, simp, conc_int, conc_str, conc_bool)
from .interp import FuncVal


def num_kind(v):
    return z3.If(Val.is_VInt(v), z3.IntVal(FIN), Val.fk(v))


def num_real(v):
    return z3.If(Val.is_VInt(v), z3.ToReal(Val.vi(v)), Val.fr(v))


def is_num(v):
    return z3.Or(Val.is_VInt(v), Val.is_VFlt(v))


def same_value_term(va, vb):
    both = z3.And(is_num(va), is_num(vb))
    same_num = z3.And(num_kind(va) == num_kind(vb), num_real(va) == num_real(vb))
    return z3.If(both, same_num, z3.And(z3.Not(is_num(va)), z3.Not(is_num(vb)), va == vb))


def install(eng, c, runner):
    ex = {}

    def f_assume(e, args, kw):
        cnd = e.truthy(args[0])
        cb = conc_bool(cnd)
        if cb is False:
            raise PyExc("AssumeFailed")
        e.p.assume(cnd)
        if not e.p.feasible(z3.BoolVal(True)):
            raise PyExc("AssumeFailed")
        return S_NONE

    def f_check(e, args, kw):
        name = conc_str(e.refine(args[0]).t)
        cnd = e.truthy(args[1])
        e.p.obligations.append((name, simp(cnd), ""))
        return S_NONE

    def f_cover(e, args, kw):
        e.p.covers.append(conc_str(e.refine(args[0]).t))
        return S_NONE

    def f_outcome(e, args, kw):
        f = args[0]
        try:
            v = e.call(f, list(args[1:]), dict(kw))
            return s_tuple([s_str("ret"), v])
        except PyExc as ex_:
            if ex_.cls == "AssumeFailed":
                raise
            e.p.notes.append(f"outcome: {ex_.cls} {ex_.where}")
            return s_tuple([s_str("raise"), s_str(ex_.cls)])

    def f_es_outcome(e, args, kw):
        f = args[0]
        try:
            v = e.merged(lambda: e.call(f, list(args[1:]), dict(kw)), e.merge_key('es_outcome', args, kw), e.val_terms(args))
            return s_tuple([s_str("ret"), v])
        except PyExc as ex_:
            if ex_.cls in api.ES_TO_HOST:
                return s_tuple([s_str("raise"), s_str(api.ES_TO_HOST[ex_.cls])])
            raise

    def f_same_value(e, args, kw):
        a, b = args
        return s_bool(simp(same_value_term(e.box(a), e.box(b))))

    def f_same_elements(e, args, kw):
        def seq(v):
            v = e.refine(v)
            if v.kind == "seq":
                return v.t
            if v.kind == "tuple":
                return e.seq_of(v.items)
            if v.kind == "ref" and e.static_cls(v) in ("list", "tuple"):
                return e.p.hread("list.items", v.ref)
            raise Unsupported("same_elements of a non-list")
        return s_bool(simp(seq(args[0]) == seq(args[1])))

    def f_same_ref(e, args, kw):
        a, b = args
        return s_bool(simp(e.box(a) == e.box(b)))

    # ---- frame conditions over the heap ---------------------------------------------------------
    def heap_array(e, heap, name):
        return heap.get(name) if heap.get(name) is not None else z3.Const(f"H0_{name}", z3.ArraySort(z3.IntSort(), e.p.field_sort(name)))

    def f_heap_snapshot(e, args, kw):
        e.keepalive.extend(e.p.heap.values())
        return s_py(("heap", dict(e.p.heap), e.p.nalloc))

    def f_loop_entry(e, args, kw):
        snap = getattr(e, "_loop_entry_snap", None)
        if snap is None:
            raise Unsupported("loop_entry() outside a loop invariant")
        return s_py(snap)

    def f_heap_unchanged(e, args, kw):
        """heap_unchanged(snap, (obj, "field"), (dictref, "dict"), ...): every heap location not listed holds its
        value of the snapshot (objects allocated since the snapshot are not constrained)"""
        _, old, nalloc0 = args[0].py
        allowed = {}
        for a in args[1:]:
            a = e.refine(a)
            o, fld = e.refine(a.items[0]), conc_str(e.refine(a.items[1]).t)
            names = ["dict.dom", "dict.map", "dict.order"] if fld == "dict" else [fld]
            if o.kind == "none":
                continue
            if o.kind != "ref":
                raise Unsupported("heap_unchanged: location of a non-reference")
            for n in names:
                allowed.setdefault(n, []).append(o.ref)
        conj = []
        fresh_lo = e.p.alloc0 + nalloc0
        for name in sorted(set(old) | set(e.p.heap)):
            o_arr, n_arr = heap_array(e, old, name), heap_array(e, e.p.heap, name)
            if o_arr is n_arr or o_arr.eq(n_arr):
                continue
            exp = o_arr
            for r in allowed.get(name, []):
                exp = z3.Store(exp, r, z3.Select(n_arr, r))
            # locations of objects allocated after the snapshot are free
            for i in range(nalloc0, e.p.nalloc):
                r = simp(e.p.alloc0 + i)
                exp = z3.Store(exp, r, z3.Select(n_arr, r))
            conj.append(exp == n_arr)
        return s_bool(simp(z3.And(conj)) if conj else True)

    def f_dict_after_store(e, args, kw):
        """dict_after_store(snap, d, key, value): d now maps key to value, every other key as in the snapshot,
        insertion order extended by key iff it was absent"""
        _, old, _n = args[0].py
        d, k, v = e.refine(args[1]), e.refine(args[2]), args[3]
        if d.kind != "ref" or k.kind != "str":
            raise Unsupported("dict_after_store arguments")
        dom0 = z3.Select(heap_array(e, old, "dict.dom"), d.ref)
        map0 = z3.Select(heap_array(e, old, "dict.map"), d.ref)
        ord0 = z3.Select(heap_array(e, old, "dict.order"), d.ref)
        dom1, map1, ord1 = e.p.hread("dict.dom", d.ref), e.p.hread("dict.map", d.ref), e.p.hread("dict.order", d.ref)
        had = z3.Select(dom0, k.t)
        return s_bool(simp(z3.And(dom1 == z3.Store(dom0, k.t, True), map1 == z3.Store(map0, k.t, e.box(v)),
                                  ord1 == z3.If(had, ord0, z3.Concat(ord0, z3.Unit(k.t))))))

    def f_dict_after_remove(e, args, kw):
        """dict_after_remove(snap, d, key): key absent, every other key as in the snapshot"""
        _, old, _n = args[0].py
        d, k = e.refine(args[1]), e.refine(args[2])
        if d.kind != "ref" or k.kind != "str":
            raise Unsupported("dict_after_remove arguments")
        dom0 = z3.Select(heap_array(e, old, "dict.dom"), d.ref)
        map0 = z3.Select(heap_array(e, old, "dict.map"), d.ref)
        dom1, map1 = e.p.hread("dict.dom", d.ref), e.p.hread("dict.map", d.ref)
        j = z3.String("k!frame")
        return s_bool(simp(z3.And(dom1 == z3.Store(dom0, k.t, False),
                                  z3.ForAll([j], z3.Implies(j != k.t, z3.Select(map1, j) == z3.Select(map0, j))))))

    def f_same_outcome(e, args, kw):
        r, x = e.refine(args[0]), e.refine(args[1])
        k1, k2 = conc_str(r.items[0].t), conc_str(x.items[0].t)
        if k1 != k2:
            return s_bool(False)
        if k1 == "raise":
            return s_bool(r.items[1].t == x.items[1].t)
        return f_same_value(e, [r.items[1], x.items[1]], {})

    def f_exc_in(e, args, kw):
        o = e.refine(args[0])
        if conc_str(o.items[0].t) != "raise":
            return s_bool(False)
        names = e.refine(args[1])
        return s_bool(e.contains(names, o.items[1]))

    def f_is_number(e, args, kw):
        v = args[0]
        if v.kind == "val":
            return s_bool(is_num(v.t))
        return s_bool(v.kind in ("int", "float"))

    def f_fresh(e, args, kw):
        """fresh(Type): an arbitrary value of that harness type (havoc)"""
        ty = args[0].py
        e.p.fresh_ctr += 1
        return runner.fresh_of(e, f"fresh{e.p.fresh_ctr}", ty)

    def f_ghost_set(e, args, kw):
        e.ghost[conc_str(e.refine(args[0]).t)] = args[1]
        return S_NONE

    def f_ghost_get(e, args, kw):
        return e.ghost.get(conc_str(e.refine(args[0]).t), args[1] if len(args) > 1 else S_NONE)

    def f_elems_are(e, args, kw):
        """elems_are(lst, "tuple-of-3-int"): every element read from this list object satisfies the type (an assumed
        representation invariant of the list, instantiated at each read; natively it is checked on the whole list)"""
        lst = e.refine(args[0])
        ty = conc_str(e.refine(args[1]).t)
        if lst.kind != "ref":
            raise Unsupported("elems_are of a non-list")
        et = getattr(e.p, "elem_types", None)
        if et is None:
            et = e.p.elem_types = {}
        et[lst.ref.get_id()] = ty
        e.keepalive.append(lst.ref)
        e.p.notes.append(f"assumed element type {ty}")
        return s_bool(True)

    def f_is_js_value(e, args, kw):
        return s_bool(simp(M.is_js_value(e.box(args[0]))))

    ex.update(assume=f_assume, check=f_check, cover=f_cover, outcome=f_outcome, es_outcome=f_es_outcome,
              same_value=f_same_value, same_ref=f_same_ref, same_elements=f_same_elements, same_outcome=f_same_outcome, heap_snapshot=f_heap_snapshot, loop_entry=f_loop_entry,
              heap_unchanged=f_heap_unchanged, dict_after_store=f_dict_after_store, dict_after_remove=f_dict_after_remove, exc_in=f_exc_in, is_number=f_is_number,
              fresh=f_fresh, ghost_set=f_ghost_set, ghost_get=f_ghost_get, is_js_value=f_is_js_value, elems_are=f_elems_are)
    for k, v in list(ex.items()):
        ex[k] = s_py(v, "func")
    # harness types usable as values (fresh(JSVal))
    for k in ("Str", "Int", "Bool", "Num", "Flt", "JSVal", "JSPrim", "JSArgs", "PyVal", "ValList"):
        ex[k] = s_py(getattr(api, k))
    # real singletons and classes by name
    ex["UNDEFINED"] = s_val(Val.VUndef)
    ex["NULL"] = s_val(Val.VNull)
    eng.extra = ex
    eng.abstract_impls = ABSTRACT
    # callee summaries named by the contract: qualname -> spec function (python callable in /verif)
    for qn, spec in c.summaries.items():
        eng.summaries[qn] = make_summary(eng, spec)


def spec_funcval(eng, pyfunc):
    from .run import harness_module_info
    mi = harness_module_info(sys.modules[pyfunc.__module__])
    from .run import src_index_harness
    src_index_harness(mi, sys.modules[pyfunc.__module__], [])
    eng.modules.setdefault(mi.name, mi)
    node = mi.globals[pyfunc.__name__]
    return s_py(FuncVal(node, [], mi, f"{mi.name}:{pyfunc.__name__}"), "func")


def make_summary(eng, spec):
    """the callee is replaced by its contract.  spec is either a python function of /verif
    (its body *is* the contract: result same_value as the spec function's result, same
    exceptions) or a callable(engine, args, kwargs) for hand-written summaries."""
    if getattr(spec, "__pyvc_summary__", False):
        return spec

    def summ(e, args, kw):
        fv = spec_funcval(e, spec)
        if getattr(spec, "__effectful__", False):
            return e.call(fv, list(args), dict(kw))
        r = e.merged(lambda: e.call(fv, list(args), dict(kw)), e.merge_key('summary:' + spec.__name__, args, kw), e.val_terms(args))
        # representation independence: callers only learn the JS-level value of numbers
        rr = e.refine(r) if r.kind == "val" else r
        if rr.kind in ("int", "float") and getattr(spec, "__num_repr_free__", False):
            e.p.fresh_ctr += 1
            t = z3.Const(f"num!{e.p.fresh_ctr}", Val)
            e.p.assume(is_num(t))
            e.p.assume(M.val_wf(t))
            e.p.assume(same_value_term(t, e.box(rr)))
            return s_val(t)
        return r
    return summ


def raw_summary(fn):
    fn.__pyvc_summary__ = True
    return fn


# ------------------------------------------------------------------------------------------
# abstracted spec functions (uninterpreted in proofs, executable natively)
# ------------------------------------------------------------------------------------------
def a_str2num(e, args):
    s = e.refine(args[0])
    if s.kind != "str":
        raise Unsupported("str2num of non-string")
    e.p.uf_used.add("str2num")
    t = M.str2num(s.t)
    e.p.assume(is_num(t))
    e.p.assume(M.val_wf(t))
    return s_val(t)


def a_num2str(e, args):
    v = e.num(args[0])
    e.p.uf_used.add("num2str")
    if v.kind == "int":
        # ES Number::toString of an integer-valued Number below 1e21 is its decimal expansion
        small = z3.And(v.t < 10 ** 21, v.t > -(10 ** 21))
        dec = z3.If(v.t >= 0, z3.IntToStr(v.t), z3.Concat(z3.StringVal("-"), z3.IntToStr(-v.t)))
        return s_str(z3.If(small, dec, M.num2str_k(z3.IntVal(FIN), z3.ToReal(v.t))))
    return s_str(M.num2str_k(v.k, v.r))


def a_lower(e, args):
    return e.str_method(e.refine(args[0]), "lower", [], {})


def a_upper(e, args):
    return e.str_method(e.refine(args[0]), "upper", [], {})


def a_es_trim(e, args):
    # ES trim == python strip is established separately by exhaustion over all code points (K4)
    which = conc_str(e.refine(args[1]).t)
    from specs.es_core import ES_WHITESPACE
    ws = s_str("".join(sorted(ES_WHITESPACE)))
    return e.str_method(e.refine(args[0]), {"both": "strip", "start": "lstrip", "end": "rstrip"}[which], [ws], {})


def a_obj2num(e, args):
    f = z3.Function("obj2num", Val, Val)
    t = f(e.box(args[0]))
    e.p.assume(is_num(t)); e.p.assume(M.val_wf(t))
    e.p.uf_used.add("obj2num")
    return s_val(t)


def a_obj2str(e, args):
    f = z3.Function("obj2str", Val, z3.StringSort())
    e.p.uf_used.add("obj2str")
    return s_str(f(e.box(args[0])))


def a_typeof_obj(e, args):
    v = e.box(args[0])
    e.p.uf_used.add("typeof_obj")
    return s_str(z3.If(M.cls_in(v, e.ct.callable_classes() + ["JSFunction"]), z3.StringVal("function"), z3.StringVal("object")))


def a_array_own(e, args):
    o, k = e.refine(args[0]), e.refine(args[1])
    f = z3.Function("array_own", ValSeq, z3.StringSort(), z3.BoolSort())
    e.p.uf_used.add("array_own")
    if k.kind != "str":
        raise PyExc("TypeError", None, "array_own: key is not a string")
    elems = e.refine(e.getattr(o, "_elements"))
    if elems.kind != "ref":
        raise Unsupported(f"array_own: _elements is {elems.kind}")
    return s_bool(f(e.p.hread("list.items", elems.ref), k.t))


def a_array_get_own(e, args):
    o, k = e.refine(args[0]), e.refine(args[1])
    f = z3.Function("array_get_own", ValSeq, z3.StringSort(), Val)
    e.p.uf_used.add("array_get_own")
    if k.kind != "str":
        raise PyExc("TypeError", None, "array_get_own: key is not a string")
    elems = e.refine(e.getattr(o, "_elements"))
    if elems.kind != "ref":
        raise Unsupported(f"array_get_own: _elements is {elems.kind}")
    t = f(e.p.hread("list.items", elems.ref), k.t)
    e.p.assume(M.val_wf(t))
    e.p.assume(z3.Implies(Val.is_VRef(t), Val.ref(t) < e.p.alloc0 + e.p.nalloc))
    return s_val(t)


ABSTRACT = {"array_own": a_array_own, "array_get_own": a_array_get_own, "obj2num": a_obj2num, "obj2str": a_obj2str, "typeof_obj": a_typeof_obj,"str2num": a_str2num, "num2str": a_num2str, "py_lower": a_lower, "py_upper": a_upper,
            "es_trim": a_es_trim}
