"""Extraction of the real source (DESIGN 2.1): every run re-reads /repo/src/microjs, parses it
with `ast`, and indexes functions by qualified name (nested closures included).  What is
dropped: comments, docstrings (kept in the AST but skipped by the interpreter), type
annotations, decorators other than @property/@x.setter/@dataclass/@staticmethod (which are
modelled).  Nothing is rewritten."""
from __future__ import annotations
import ast, hashlib, importlib, os, sys
from .engine import ModuleInfo, ClassTable, lift, s_py, SV
from .model import CLASSES
import builtins as _b

REPO_SRC = os.environ.get("MICROJS_SRC", "/repo/src")
MODULES = ["microjs.values", "microjs.errors", "microjs.opcodes", "microjs.tokens", "microjs.ast_nodes",
           "microjs.lexer", "microjs.parser", "microjs.compiler", "microjs.vm", "microjs.context",
           "microjs.regex.opcodes", "microjs.regex.parser", "microjs.regex.compiler", "microjs.regex.vm",
           "microjs.regex.regex", "microjs.regex", "microjs"]


def module_path(name):
    p = os.path.join(REPO_SRC, *name.split("."))
    if os.path.isdir(p):
        return os.path.join(p, "__init__.py")
    return p + ".py"


class Source:
    def __init__(self, src_root=None):
        self.root = src_root or REPO_SRC
        self.modules = {}
        self.hashes = {}
        for name in MODULES:
            path = module_path(name) if src_root is None else os.path.join(
                src_root, *name.split(".")) + (".py" if not os.path.isdir(os.path.join(src_root, *name.split("."))) else "/__init__.py")
            if not os.path.exists(path):
                continue
            text = open(path, encoding="utf-8").read()
            tree = ast.parse(text, filename=path)
            mi = ModuleInfo(name, tree, path)
            mi.text = text
            self.hashes[name] = hashlib.sha256(text.encode()).hexdigest()[:16]
            self.index_module(mi)
            self.modules[name] = mi
        self.real_classes = {}
        self.exc_hier = {}
        self.enum_members = {}
        self.load_real()
        self.known_fields, self.optional_fields, self.instance_fields = self.field_tables()

    # ------------------------------------------------------------------
    def index_module(self, mi):
        for st in mi.tree.body:
            if isinstance(st, ast.FunctionDef):
                mi.globals[st.name] = st
            elif isinstance(st, ast.ClassDef):
                mi.globals[st.name] = st
                mi.classes[st.name] = self.index_class(st)
            elif isinstance(st, ast.Assign):
                for t in st.targets:
                    if isinstance(t, ast.Name):
                        mi.globals[t.id] = st.value
            elif isinstance(st, ast.AnnAssign) and isinstance(st.target, ast.Name) and st.value is not None:
                mi.globals[st.target.id] = st.value
            elif isinstance(st, ast.ImportFrom):
                for a in st.names:
                    base = mi.name.rsplit(".", st.level)[0] if st.level else ""
                    if mi.path.endswith("__init__.py") and st.level:
                        base = mi.name if st.level == 1 else mi.name.rsplit(".", st.level - 1)[0]
                    full = (base + "." + st.module) if (st.level and st.module) else (st.module or base)
                    mi.globals[a.asname or a.name] = ("import", full, a.name)
            elif isinstance(st, ast.Import):
                for a in st.names:
                    mi.globals[a.asname or a.name.split(".")[0]] = ("import", a.name, None)
            elif isinstance(st, ast.If):
                pass  # TYPE_CHECKING blocks

    def index_class(self, cd: ast.ClassDef):
        info = {"methods": {}, "consts": {}, "setters": {}, "bases": [], "dataclass": False, "dc_fields": [], "node": cd}
        for b in cd.bases:
            info["bases"].append(b.id if isinstance(b, ast.Name) else getattr(b, "attr", "?"))
        for d in cd.decorator_list:
            n = d.id if isinstance(d, ast.Name) else (d.func.id if isinstance(d, ast.Call) and isinstance(d.func, ast.Name) else None)
            if n == "dataclass":
                info["dataclass"] = True
        for st in cd.body:
            if isinstance(st, ast.FunctionDef):
                is_setter = any(isinstance(d, ast.Attribute) and d.attr == "setter" for d in st.decorator_list)
                if is_setter:
                    info["setters"][st.name] = st
                else:
                    info["methods"][st.name] = st
            elif isinstance(st, ast.Assign):
                for t in st.targets:
                    if isinstance(t, ast.Name):
                        info["consts"][t.id] = st.value
            elif isinstance(st, ast.AnnAssign) and isinstance(st.target, ast.Name):
                if info["dataclass"]:
                    default = st.value
                    if isinstance(default, ast.Call) and getattr(default.func, "id", "") == "field":
                        default = ast.Constant(value=None)
                        for kw in st.value.keywords:
                            if kw.arg == "default_factory":
                                default = ast.Call(func=kw.value, args=[], keywords=[])
                                ast.copy_location(default, st)
                                ast.fix_missing_locations(default)
                    info["dc_fields"].append((st.target.id, default))
                elif st.value is not None:
                    info["consts"][st.target.id] = st.value
        return info

    # ------------------------------------------------------------------
    def load_real(self):
        """import the real package (for class hierarchy / enums only)"""
        if self.root not in sys.path:
            sys.path.insert(0, self.root)
        import microjs  # noqa
        if not os.path.abspath(microjs.__file__).startswith(os.path.abspath(self.root)):
            raise RuntimeError(f"microjs imported from {microjs.__file__}, expected under {self.root}")
        mods = {}
        for name in MODULES:
            try:
                mods[name] = importlib.import_module(name)
            except Exception:
                continue
        self.real_modules = mods
        for m in mods.values():
            for k, v in vars(m).items():
                if isinstance(v, type):
                    if k in CLASSES:
                        self.real_classes[k] = v
                    if issubclass(v, BaseException):
                        self.exc_hier[k] = [c.__name__ for c in v.__mro__]
                    import enum
                    if issubclass(v, enum.Enum) and v is not enum.Enum and v is not enum.IntEnum:
                        self.enum_members[k] = {mem.name: s_py(mem) for mem in v}
        for k in dir(_b):
            v = getattr(_b, k)
            if isinstance(v, type) and issubclass(v, BaseException):
                self.exc_hier[k] = [c.__name__ for c in v.__mro__]
        self.exc_hier["JSONDecodeError"] = ["JSONDecodeError", "ValueError", "Exception", "BaseException", "object"]

    def class_info(self, cname):
        for mi in self.modules.values():
            if cname in mi.classes:
                return mi.classes[cname], mi
        return None, None

    def field_tables(self):
        known, instance = {}, {}
        own_init = {}
        for mi in self.modules.values():
            for cname, ci in mi.classes.items():
                fields = set()
                init = ci["methods"].get("__init__")
                if init is not None:
                    for n in ast.walk(init):
                        if isinstance(n, ast.Attribute) and isinstance(n.ctx, ast.Store) and isinstance(n.value, ast.Name) and n.value.id == "self":
                            fields.add(n.attr)
                for f, _ in ci["dc_fields"]:
                    fields.add(f)
                own_init[cname] = fields
        for cname in CLASSES:
            real = self.real_classes.get(cname)
            if real is None:
                continue
            ks = set()
            for c in real.__mro__:
                ks |= own_init.get(c.__name__, set())
            known[cname] = ks
            instance[cname] = set(ks)
        # attributes stored on receivers other than `self` anywhere in the sources
        adhoc = set()
        for mi in self.modules.values():
            for n in ast.walk(mi.tree):
                if isinstance(n, ast.Attribute) and isinstance(n.ctx, ast.Store) and not (isinstance(n.value, ast.Name) and n.value.id == "self"):
                    adhoc.add(n.attr)
        optional = {}
        for cname in CLASSES:
            if cname in ("list", "tuple", "dict", "complex", "object", "bytes", "bytearray", "PyCallable"):
                optional[cname] = {}
                continue
            real = self.real_classes.get(cname)
            class_attrs = set(dir(real)) if real is not None else set()
            optional[cname] = {a: True for a in adhoc if a not in known.get(cname, set()) and a not in class_attrs}
        return known, optional, instance

    # ------------------------------------------------------------------
    def find(self, module, qualname):
        """qualname: 'func', 'Class.method', 'Class.method.<inner>', 'Class.method.<inner>.<inner2>'
        returns (node, [enclosing function nodes outermost first], class name or None)"""
        mi = self.modules[module]
        parts = qualname.split(".")
        scope_body = mi.tree.body
        cls = None
        chain = []
        node = None
        for i, part in enumerate(parts):
            name = part.strip("<>")
            found = None
            for st in walk_defs(scope_body):
                if isinstance(st, (ast.FunctionDef, ast.ClassDef)) and st.name == name:
                    found = st
                    break
            if found is None:
                raise KeyError(f"{module}:{qualname} (at {part})")
            if isinstance(found, ast.ClassDef):
                cls = found.name
            else:
                if node is not None:
                    chain.append(node)
                node = found
            scope_body = found.body
        return node, chain, cls

    def find_unique(self, module, simple_name):
        """rename tolerance: a unique function of that simple name anywhere in the module"""
        mi = self.modules[module]
        hits = [n for n in ast.walk(mi.tree) if isinstance(n, ast.FunctionDef) and n.name == simple_name]
        return hits[0] if len(hits) == 1 else None

    def segment(self, module, node):
        return ast.get_source_segment(self.modules[module].text, node)


def walk_defs(body):
    """definitions directly in this scope (descending into if/try/for/while/with but not defs)"""
    for st in body:
        if isinstance(st, (ast.FunctionDef, ast.ClassDef)):
            yield st
        elif isinstance(st, (ast.If, ast.For, ast.While, ast.Try, ast.With)):
            for f in ("body", "orelse", "finalbody"):
                yield from walk_defs(getattr(st, f, []) or [])
            for h in getattr(st, "handlers", []) or []:
                yield from walk_defs(h.body)
