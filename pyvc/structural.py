"""K3 structural analyses over the AST of the real source (DESIGN 2.5).  Conservative: they either
establish the fact syntactically or report refuted/unknown; they never guess."""
from __future__ import annotations
import ast
from .extract import Source

_SRC = None


def source() -> Source:
    global _SRC
    if _SRC is None:
        _SRC = Source()
    return _SRC


def fn(module, qualname):
    node, chain, cls = source().find(module, qualname)
    return node


def module(name):
    """the parsed module (ast.Module) of the real source"""
    return source().modules[name].tree


def opcode_names_in(node):
    """OpCode.X names mentioned in an expression"""
    return [n.attr for n in ast.walk(node) if isinstance(n, ast.Attribute) and isinstance(n.value, ast.Name) and n.value.id == "OpCode"]


def decoder_sets(func_node):
    """the two `op in (OpCode...)` tuples of an operand decoder: (16-bit set, 8-bit set, decode statements)"""
    sets = []
    decodes = []
    for n in ast.walk(func_node):
        if isinstance(n, ast.If) and isinstance(n.test, ast.Compare) and len(n.test.ops) == 1 and isinstance(n.test.ops[0], ast.In) \
                and isinstance(n.test.left, ast.Name) and n.test.left.id == "op":
            names = opcode_names_in(n.test.comparators[0])
            if names:
                body_src = [ast.dump(s) for s in n.body]
                sets.append((frozenset(names), body_src, n.lineno))
    return sets


def calls_to(node, method):
    out = []
    for n in ast.walk(node):
        if isinstance(n, ast.Call) and isinstance(n.func, ast.Attribute) and n.func.attr == method:
            out.append(n)
    return out


def handlers_in(module):
    """every try/except handler of a module: (function qualname, handler node, try node)"""
    mi = source().modules[module]
    out = []

    def visit(node, qual):
        for ch in ast.iter_child_nodes(node):
            q = qual
            if isinstance(ch, (ast.FunctionDef, ast.ClassDef)):
                q = qual + [ch.name]
            if isinstance(ch, ast.Try):
                for h in ch.handlers:
                    out.append((".".join(q), h, ch))
            visit(ch, q)
    visit(mi.tree, [])
    return out


def handler_type_names(h):
    if h.type is None:
        return ["BaseException"]
    if isinstance(h.type, ast.Tuple):
        return [getattr(e, "id", getattr(e, "attr", "?")) for e in h.type.elts]
    return [getattr(h.type, "id", getattr(h.type, "attr", "?"))]


def always_reraises(h):
    """does every path through the handler body end in a bare `raise` (or `raise <bound name>`)?"""
    def block(stmts):
        for s in stmts:
            if isinstance(s, ast.Raise):
                if s.exc is None:
                    return True
                if h.name and isinstance(s.exc, ast.Name) and s.exc.id == h.name:
                    return True
                return False
            if isinstance(s, ast.If):
                if block(s.body) and s.orelse and block(s.orelse):
                    return True
            if isinstance(s, (ast.Return, ast.Continue, ast.Break)):
                return False
        return False
    return block(h.body)


def segment(module, node):
    return source().segment(module, node)


_LIMIT_REACH = None


def limit_raisers():
    """simple names of functions that may raise a limit error: they raise TimeLimitError/MemoryLimitError/
    RegexTimeoutError themselves, call a function that may, or call an unknown callable (callbacks)"""
    global _LIMIT_REACH
    if _LIMIT_REACH is not None:
        return _LIMIT_REACH
    funcs = {}
    for mod, mi in source().modules.items():
        for n in ast.walk(mi.tree):
            if isinstance(n, ast.FunctionDef):
                funcs.setdefault(n.name, []).append(n)
    reach = set()
    for name, nodes in funcs.items():
        for f in nodes:
            for r in ast.walk(f):
                if isinstance(r, ast.Raise) and r.exc is not None and any(k in ast.unparse(r.exc) for k in ("TimeLimitError", "MemoryLimitError", "RegexTimeoutError")):
                    reach.add(name)
    changed = True
    while changed:
        changed = False
        for name, nodes in funcs.items():
            if name in reach:
                continue
            for f in nodes:
                if called_names(f) & reach:
                    reach.add(name)
                    changed = True
                    break
    _LIMIT_REACH = reach
    return reach


def called_names(node):
    out = set()
    for c in ast.walk(node):
        if isinstance(c, ast.Call):
            if isinstance(c.func, ast.Attribute):
                out.add(c.func.attr)
            elif isinstance(c.func, ast.Name):
                out.add(c.func.id)
    return out


OPAQUE_CALLS = {"callback", "method", "fn", "_call_fn", "callee", "getter", "setter", "comparator", "poll_callback", "_fn"}


def may_raise_limit_error(module, stmts):
    names = set()
    for s_ in stmts:
        names |= called_names(s_)
    return bool(names & limit_raisers()) or bool(names & OPAQUE_CALLS)


def dispatchers():
    """functions of vm.py that call self._execute_opcode (the run loops)"""
    vm = source().modules["microjs.vm"].tree
    return [f for f in ast.walk(vm) if isinstance(f, ast.FunctionDef) and calls_to(f, "_execute_opcode")]


# ---- order-sensitive uses of sets (hash-seed dependent iteration order), by a small type inference -------------------
def set_consumers(tree, set_funcs=frozenset(), collect_returns=None):
    out = []
    for f in ast.walk(tree):
        if not isinstance(f, (ast.FunctionDef,)):
            continue
        setnames = set()
        def is_set(e):
            if isinstance(e, (ast.Set, ast.SetComp)):
                return True
            if isinstance(e, ast.Call):
                fn = e.func
                if isinstance(fn, ast.Name) and (fn.id in ("set", "frozenset") or fn.id in set_funcs):
                    return True
                if isinstance(fn, ast.Attribute) and fn.attr in set_funcs:
                    return True
                if isinstance(fn, ast.Attribute) and fn.attr in ("union", "intersection", "difference", "symmetric_difference", "copy") and is_set(fn.value):
                    return True
            if isinstance(e, ast.BinOp) and isinstance(e.op, (ast.Sub, ast.BitOr, ast.BitAnd, ast.BitXor)):
                def viewish(x):
                    return isinstance(x, ast.Call) and isinstance(x.func, ast.Attribute) and x.func.attr in ("keys", "items")
                return is_set(e.left) or is_set(e.right) or viewish(e.left) or viewish(e.right)
            if isinstance(e, ast.Name):
                return e.id in setnames
            if isinstance(e, ast.IfExp):
                return is_set(e.body) or is_set(e.orelse)
            return False
        changed = True
        while changed:
            changed = False
            for n in ast.walk(f):
                pairs = []
                if isinstance(n, ast.Assign):
                    pairs = [(t, n.value) for t in n.targets]
                elif isinstance(n, ast.AnnAssign):
                    ann = ast.unparse(n.annotation)
                    if isinstance(n.target, ast.Name) and (ann.startswith("Set[") or ann.startswith("set") or ann.startswith("FrozenSet")) and n.target.id not in setnames:
                        setnames.add(n.target.id); changed = True
                    if n.value is not None:
                        pairs = [(n.target, n.value)]
                elif isinstance(n, ast.AugAssign):
                    pairs = [(n.target, n.value)]
                for t, v in pairs:
                    if isinstance(t, ast.Name) and t.id not in setnames and is_set(v):
                        setnames.add(t.id); changed = True
            for a in f.args.args + f.args.kwonlyargs:
                if a.annotation is not None and ast.unparse(a.annotation).lower().startswith(("set", "frozenset", "optional[set")) and a.arg not in setnames:
                    setnames.add(a.arg); changed = True
        if collect_returns is not None:
            ann = ast.unparse(f.returns).lower() if f.returns is not None else ""
            if ann.startswith(("set", "frozenset")) or any(isinstance(n, ast.Return) and n.value is not None and is_set(n.value) for n in ast.walk(f)):
                collect_returns.add(f.name)
        for n in ast.walk(f):
            if isinstance(n, ast.For) and is_set(n.iter):
                out.append((f.name, n.lineno, "for " + ast.unparse(n.target) + " in " + ast.unparse(n.iter)))
            if isinstance(n, (ast.ListComp, ast.GeneratorExp, ast.DictComp)):
                for g in n.generators:
                    if is_set(g.iter):
                        out.append((f.name, n.lineno, ast.unparse(n)[:80]))
            if isinstance(n, ast.Call):
                fn = n.func
                nm = fn.id if isinstance(fn, ast.Name) else (fn.attr if isinstance(fn, ast.Attribute) else "")
                if nm in ("list", "tuple", "enumerate", "iter", "next", "zip", "fromkeys", "join", "extend", "map", "filter", "reversed") and any(is_set(a) for a in n.args):
                    out.append((f.name, n.lineno, ast.unparse(n)[:80]))
                if isinstance(fn, ast.Attribute) and fn.attr == "pop" and is_set(fn.value) and not n.args:
                    out.append((f.name, n.lineno, ast.unparse(n)[:80]))
            if isinstance(n, ast.Starred) and is_set(n.value):
                out.append((f.name, n.lineno, ast.unparse(n)[:80]))
    return out

def scan_all(modules):
    funcs = set()
    while True:
        new = set()
        for mod, mi in modules.items():
            set_consumers(mi.tree, frozenset(funcs), new)
        if new <= funcs:
            break
        funcs |= new
    res = []
    for mod, mi in modules.items():
        for c in set_consumers(mi.tree, frozenset(funcs)):
            res.append((mod,) + c)
    return res, funcs


# ---- rename-tolerant containment for the structural (K3) obligations --------------------------------------------------
import builtins as _builtins


class Src(str):
    """the source text of a function (ast.unparse) whose `in` test is structural: a needle that parses as Python matches
    when some statement sequence / expression of the function has the same shape, with LOCAL VARIABLE NAMES bound
    consistently instead of compared literally (so renaming a local, or a parameter other than self, changes nothing);
    attribute names, called globals, constants and operators are compared literally.  A needle that does not parse (a
    fragment such as "except X as e:") falls back to plain text containment."""
    node = None

    def __new__(cls, text, node=None):
        o = super().__new__(cls, text)
        o.node = node
        return o

    def __contains__(self, needle):
        if str.__contains__(self, needle):
            return True
        if self.node is None:
            return False
        try:
            pat = ast.parse(_dedent(needle))
        except SyntaxError:
            return self._contains_header(needle)
        if not pat.body:
            return False
        if len(pat.body) == 1 and isinstance(pat.body[0], ast.Expr):
            want = pat.body[0].value
            if isinstance(want, (ast.Name, ast.Constant)) or sum(1 for _ in ast.walk(want)) < 4:
                return False            # a bare word is a text search, not a shape
            return any(_match(want, n, {}) for n in ast.walk(self.node) if isinstance(n, ast.expr))
        stmts = pat.body
        for n in ast.walk(self.node):
            for fld in ("body", "orelse", "finalbody"):
                seq = getattr(n, fld, None)
                if isinstance(seq, list) and len(seq) >= len(stmts):
                    for i in range(len(seq) - len(stmts) + 1):
                        env = {}
                        if all(_match(p_, c_, env) for p_, c_ in zip(stmts, seq[i:i + len(stmts)])):
                            return True
        return False

    def _contains_header(self, needle):
        """a needle that is the HEADER of a compound statement ("while a > b + 1:", "if x and y < z[-1]:", "for v in w:",
        "elif ...:", "except (A, B) as e:") matches a statement of that kind whose header has the same shape"""
        text = _dedent(needle).strip()
        if "\n" in text or not text.endswith(":"):
            return False
        if text.startswith("elif "):
            text = "if " + text[5:]
        try:
            if text.startswith("except"):
                pat = ast.parse("try:\n    pass\n" + text + "\n    pass").body[0].handlers[0]
            else:
                pat = ast.parse(text + "\n    pass").body[0]
        except (SyntaxError, IndexError):
            return False
        for n in ast.walk(self.node):
            if type(n) is not type(pat):
                continue
            env = {}
            if isinstance(pat, (ast.While, ast.If)):
                ok = _match(pat.test, n.test, env)
            elif isinstance(pat, ast.For):
                ok = _match(pat.target, n.target, env) and _match(pat.iter, n.iter, env)
            elif isinstance(pat, ast.ExceptHandler):
                ok = (pat.type is None) == (n.type is None) and (pat.type is None or _match(pat.type, n.type, env)) and (pat.name is None) == (n.name is None)
            elif isinstance(pat, ast.With):
                ok = len(pat.items) == len(n.items) and all(_match(a.context_expr, b.context_expr, env) for a, b in zip(pat.items, n.items))
            else:
                ok = False
            if ok:
                return True
        return False

    def count(self, needle, *a):
        return str.count(self, needle, *a)


def _dedent(text):
    import textwrap
    return textwrap.dedent(text.strip("\n"))


def _is_variable(name):
    """pattern names that stand for a local variable: lower-case identifiers that are neither builtins nor `self`/`cls`"""
    return name not in ("self", "cls") and not hasattr(_builtins, name) and name == name.lower() and not name.startswith("__")


def _match(p, c, env):
    if isinstance(p, ast.Name) and isinstance(c, ast.Name):
        if _is_variable(p.id):
            if p.id in env:
                return env[p.id] == c.id
            if c.id in env.values() or not _is_variable(c.id) and c.id != p.id:
                return False
            env[p.id] = c.id
            return True
        return p.id == c.id
    if type(p) is not type(c):
        return False
    if isinstance(p, ast.arg):
        return _match(ast.Name(id=p.arg), ast.Name(id=c.arg), env)
    if isinstance(p, ast.ExceptHandler):
        if (p.name is None) != (c.name is None):
            return False
        if p.name is not None and not _match(ast.Name(id=p.name), ast.Name(id=c.name), env):
            return False
    for fld, pv in ast.iter_fields(p):
        if fld in ("ctx", "lineno", "col_offset", "end_lineno", "end_col_offset", "type_comment", "kind"):
            continue
        if isinstance(p, ast.ExceptHandler) and fld == "name":
            continue
        cv = getattr(c, fld, None)
        if isinstance(pv, list):
            if not isinstance(cv, list) or len(pv) != len(cv):
                return False
            for a, b in zip(pv, cv):
                if isinstance(a, ast.AST):
                    if not _match(a, b, env):
                        return False
                elif a != b:
                    return False
        elif isinstance(pv, ast.AST):
            if not isinstance(cv, ast.AST) or not _match(pv, cv, env):
                return False
        elif pv != cv:
            return False
    return True


def unparse(node):
    """ast.unparse with rename-tolerant `in` (see Src)"""
    return Src(ast.unparse(node), node)
