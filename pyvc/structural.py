"""K3 structural analyses over the AST of the real source (DESIGN 2.5).  Conservative: they either
establish the fact syntactically or report refuted/unknown; they never guess."""
from __future__ import annotations
import ast
from .extract import Source

_SRC = None


def source() -> Source:
    global _SRC
    if _SRC is None:
        _SRC = Source()
    return _SRC


def fn(module, qualname):
    node, chain, cls = source().find(module, qualname)
    return node


def module(name):
    """the parsed module (ast.Module) of the real source"""
    return source().modules[name].tree


def opcode_names_in(node):
    """OpCode.X names mentioned in an expression"""
    return [n.attr for n in ast.walk(node) if isinstance(n, ast.Attribute) and isinstance(n.value, ast.Name) and n.value.id == "OpCode"]


def decoder_sets(func_node):
    """the two `op in (OpCode...)` tuples of an operand decoder: (16-bit set, 8-bit set, decode statements)"""
    sets = []
    decodes = []
    for n in ast.walk(func_node):
        if isinstance(n, ast.If) and isinstance(n.test, ast.Compare) and len(n.test.ops) == 1 and isinstance(n.test.ops[0], ast.In) \
                and isinstance(n.test.left, ast.Name) and n.test.left.id == "op":
            names = opcode_names_in(n.test.comparators[0])
            if names:
                body_src = [ast.dump(s) for s in n.body]
                sets.append((frozenset(names), body_src, n.lineno))
    return sets


def calls_to(node, method):
    out = []
    for n in ast.walk(node):
        if isinstance(n, ast.Call) and isinstance(n.func, ast.Attribute) and n.func.attr == method:
            out.append(n)
    return out


def handlers_in(module):
    """every try/except handler of a module: (function qualname, handler node, try node)"""
    mi = source().modules[module]
    out = []

    def visit(node, qual):
        for ch in ast.iter_child_nodes(node):
            q = qual
            if isinstance(ch, (ast.FunctionDef, ast.ClassDef)):
                q = qual + [ch.name]
            if isinstance(ch, ast.Try):
                for h in ch.handlers:
                    out.append((".".join(q), h, ch))
            visit(ch, q)
    visit(mi.tree, [])
    return out


def handler_type_names(h):
    if h.type is None:
        return ["BaseException"]
    if isinstance(h.type, ast.Tuple):
        return [getattr(e, "id", getattr(e, "attr", "?")) for e in h.type.elts]
    return [getattr(h.type, "id", getattr(h.type, "attr", "?"))]


def always_reraises(h):
    """does every path through the handler body end in a bare `raise` (or `raise <bound name>`)?"""
    def block(stmts):
        for s in stmts:
            if isinstance(s, ast.Raise):
                if s.exc is None:
                    return True
                if h.name and isinstance(s.exc, ast.Name) and s.exc.id == h.name:
                    return True
                return False
            if isinstance(s, ast.If):
                if block(s.body) and s.orelse and block(s.orelse):
                    return True
            if isinstance(s, (ast.Return, ast.Continue, ast.Break)):
                return False
        return False
    return block(h.body)


def segment(module, node):
    return source().segment(module, node)


_LIMIT_REACH = None


def limit_raisers():
    """simple names of functions that may raise a limit error: they raise TimeLimitError/MemoryLimitError/
    RegexTimeoutError themselves, call a function that may, or call an unknown callable (callbacks)"""
    global _LIMIT_REACH
    if _LIMIT_REACH is not None:
        return _LIMIT_REACH
    funcs = {}
    for mod, mi in source().modules.items():
        for n in ast.walk(mi.tree):
            if isinstance(n, ast.FunctionDef):
                funcs.setdefault(n.name, []).append(n)
    reach = set()
    for name, nodes in funcs.items():
        for f in nodes:
            for r in ast.walk(f):
                if isinstance(r, ast.Raise) and r.exc is not None and any(k in ast.unparse(r.exc) for k in ("TimeLimitError", "MemoryLimitError", "RegexTimeoutError")):
                    reach.add(name)
    changed = True
    while changed:
        changed = False
        for name, nodes in funcs.items():
            if name in reach:
                continue
            for f in nodes:
                if called_names(f) & reach:
                    reach.add(name)
                    changed = True
                    break
    _LIMIT_REACH = reach
    return reach


def called_names(node):
    out = set()
    for c in ast.walk(node):
        if isinstance(c, ast.Call):
            if isinstance(c.func, ast.Attribute):
                out.add(c.func.attr)
            elif isinstance(c.func, ast.Name):
                out.add(c.func.id)
    return out


OPAQUE_CALLS = {"callback", "method", "fn", "_call_fn", "callee", "getter", "setter", "comparator", "poll_callback", "_fn"}


def may_raise_limit_error(module, stmts):
    names = set()
    for s_ in stmts:
        names |= called_names(s_)
    return bool(names & limit_raisers()) or bool(names & OPAQUE_CALLS)


def dispatchers():
    """functions of vm.py that call self._execute_opcode (the run loops)"""
    vm = source().modules["microjs.vm"].tree
    return [f for f in ast.walk(vm) if isinstance(f, ast.FunctionDef) and calls_to(f, "_execute_opcode")]
