"""Statement / expression interpreter on top of pyvc.engine.Engine."""
from __future__ import annotations
import ast
import z3
from . import model as M
from .model import Val, ValSeq, FIN, NAN, PINF, NINF, NZERO, CLS, CLASSES
from .engine import (Engine, SV, PyExc, Unsupported, Infeasible, PathCut, _Return, _Break, _Continue, Frame, is_initial_read,
                     s_int, s_bool, s_str, s_float, s_val, s_seq, s_tuple, s_ref, s_py, S_NONE, lift,
                     const_float, simp, conc_int, conc_str, conc_bool)

BINOPS = {ast.Add: "+", ast.Sub: "-", ast.Mult: "*", ast.Div: "/", ast.FloorDiv: "//", ast.Mod: "%",
          ast.Pow: "**", ast.BitAnd: "&", ast.BitOr: "|", ast.BitXor: "^", ast.LShift: "<<", ast.RShift: ">>"}
CMPOPS = {ast.Eq: "==", ast.NotEq: "!=", ast.Lt: "<", ast.LtE: "<=", ast.Gt: ">", ast.GtE: ">=",
          ast.Is: "is", ast.IsNot: "is not", ast.In: "in", ast.NotIn: "not in"}

BUILTIN_EXC = ["Exception", "ValueError", "TypeError", "IndexError", "KeyError", "OverflowError",
               "ZeroDivisionError", "RecursionError", "AttributeError", "NotImplementedError",
               "SyntaxError", "RuntimeError", "ArithmeticError", "LookupError", "StopIteration",
               "AssertionError", "UnicodeError", "MemoryError", "BaseException"]


class FuncVal:
    """A function value of the analysed program (def or lambda) with its defining environment."""
    def __init__(self, node, closure, module, qualname, self_obj=None):
        self.node, self.closure, self.module, self.qualname, self.self_obj = node, closure, module, qualname, self_obj

    def __repr__(self):
        return f"<func {self.qualname}>"


class Builtin:
    def __init__(self, name, fn):
        self.name, self.fn = name, fn

    def __repr__(self):
        return f"<builtin {self.name}>"


class BoundModel:
    """method of a modelled builtin type bound to its receiver (e.g. s.find)"""
    def __init__(self, recv, name):
        self.recv, self.name = recv, name


class ClassVal:
    def __init__(self, name, module=None, node=None):
        self.name, self.module, self.node = name, module, node

    def __repr__(self):
        return f"<class {self.name}>"


class Interp(Engine):
    def __init__(self, *a, exc_hierarchy=None, **kw):
        super().__init__(*a, **kw)
        self.exc_hier = exc_hierarchy or {}       # exception class name -> list of ancestors names (incl. itself)
        self.ghost = {}
        self.call_log = []

    # ------------------------------------------------------------------------------
    # name resolution
    # ------------------------------------------------------------------------------
    def lookup(self, name, fr: Frame) -> SV:
        if name in fr.locals:
            v = fr.locals[name]
            if v is None:
                raise PyExc("UnboundLocalError", None, name)
            return v
        for env in fr.closure:
            if name in env:
                v = env[name]
                if v is None:
                    raise PyExc("NameError", None, f"free variable {name} referenced before assignment")
                return v
        if fr.module is not None and name in fr.module.globals:
            return self.module_global(fr.module, name)
        if name in self.extra:
            return lift(self.extra[name]) if not isinstance(self.extra[name], SV) else self.extra[name]
        return self.builtin(name)

    def module_global(self, mod, name) -> SV:
        g = mod.globals[name]
        if isinstance(g, SV):
            return g
        if isinstance(g, ast.FunctionDef):
            return s_py(FuncVal(g, [], mod, f"{mod.name}:{name}"), "func")
        if isinstance(g, ast.ClassDef):
            return s_py(ClassVal(name, mod, g), "class")
        if isinstance(g, tuple) and g[0] == "import":
            return self.imported(g[1], g[2])
        if isinstance(g, ast.AST):
            # module-level constant expression: evaluate in module scope
            v = self.eval(g, Frame({}, [], mod))
            mod.globals[name] = v
            return v
        raise Unsupported(f"module global {name}")

    def imported(self, modname, attr):
        """from <modname> import <attr>  (attr None -> the module itself)"""
        base = modname.lstrip(".")
        for full, mi in self.modules.items():
            if full == modname or full.endswith("." + base) or full == base:
                if attr is None:
                    return s_py(("module", mi), "module")
                if attr in mi.globals:
                    return self.module_global(mi, attr)
        if attr is None:
            return s_py(("module", modname), "module")
        if modname in ("math", "time", "json", "random", "struct", "functools", "typing", "dataclasses", "enum"):
            return self.attr_of_pymodule(modname, attr)
        if attr in CLS:
            return s_py(ClassVal(attr), "class")
        raise Unsupported(f"import {attr} from {modname}")

    def builtin(self, name) -> SV:
        if name in CLS or name in ("str", "int", "float", "bool", "bytes", "set", "frozenset", "type"):
            return s_py(ClassVal(name), "class")
        if name in BUILTIN_EXC or name in self.exc_hier or name in self.enum_members:
            return s_py(ClassVal(name), "class")
        if name in ("len", "isinstance", "callable", "hasattr", "getattr", "abs", "min", "max", "range",
                    "enumerate", "ord", "chr", "repr", "reversed", "round", "print", "sorted", "zip", "any", "all",
                    "sum", "id", "hash", "iter", "next", "setattr", "divmod", "issubclass", "super", "map", "filter"):
            return s_py(Builtin(name, getattr(self, "b_" + name, None)), "func")
        if name in ("True", "False", "None"):
            return lift({"True": True, "False": False, "None": None}[name])
        if name in ("math", "time", "json", "random", "struct"):
            return s_py(("module", name), "module")
        raise PyExc("NameError", None, name)

    # ------------------------------------------------------------------------------
    # expressions
    # ------------------------------------------------------------------------------
    def eval(self, e: ast.AST, fr: Frame) -> SV:
        m = getattr(self, "e_" + type(e).__name__, None)
        if m is None:
            raise Unsupported(f"expression {type(e).__name__} at line {getattr(e, 'lineno', '?')}")
        return m(e, fr)

    def e_Constant(self, e, fr):
        v = e.value
        if v is Ellipsis or isinstance(v, (bytes, complex)):
            raise Unsupported("constant kind")
        return lift(v)

    def e_Name(self, e, fr):
        return self.lookup(e.id, fr)

    def e_Tuple(self, e, fr):
        if any(isinstance(x, ast.Starred) for x in e.elts):
            raise Unsupported("starred tuple")
        return s_tuple([self.eval(x, fr) for x in e.elts])

    def e_List(self, e, fr):
        items = []
        for x in e.elts:
            if isinstance(x, ast.Starred):
                raise Unsupported("starred list")
            items.append(self.eval(x, fr))
        r = self.p.alloc("list")
        self.p.hwrite("list.items", r.ref, self.seq_of(items))
        return r

    def e_Dict(self, e, fr):
        d = {}
        for k, v in zip(e.keys, e.values):
            if k is None:
                raise Unsupported("dict unpack")
            kk = self.eval(k, fr)
            d[self.concrete_key(self.refine(kk))] = self.eval(v, fr)
        return SV("dict", py=d)

    def e_Set(self, e, fr):
        return s_py(frozenset(self.concrete_key(self.refine(self.eval(x, fr))) for x in e.elts))

    def e_JoinedStr(self, e, fr):
        parts = []
        for v in e.values:
            if isinstance(v, ast.Constant):
                parts.append(z3.StringVal(v.value))
            else:
                if v.format_spec is not None or v.conversion not in (-1, 115):
                    raise Unsupported("f-string format spec")
                parts.append(self.py_str(self.eval(v.value, fr)).t)
        if not parts:
            return s_str("")
        return s_str(parts[0] if len(parts) == 1 else z3.Concat(*parts))

    def e_UnaryOp(self, e, fr):
        v = self.eval(e.operand, fr)
        if isinstance(e.op, ast.Not):
            return s_bool(z3.Not(self.truthy(v)))
        v = self.num(v)
        if isinstance(e.op, ast.USub):
            if v.kind == "int":
                return s_int(-v.t)
            k = z3.If(v.k == PINF, z3.IntVal(NINF), z3.If(v.k == NINF, z3.IntVal(PINF),
                  z3.If(v.k == NZERO, z3.IntVal(FIN), z3.If(z3.And(v.k == FIN, v.r == 0), z3.IntVal(NZERO), v.k))))
            return SV("float", k=simp(k), r=simp(-v.r))
        if isinstance(e.op, ast.UAdd):
            return v
        if isinstance(e.op, ast.Invert):
            if v.kind != "int":
                raise PyExc("TypeError", None, "bad operand type for unary ~")
            return s_int(-v.t - 1)
        raise Unsupported("unary op")

    def e_BinOp(self, e, fr):
        a = self.eval(e.left, fr)
        b = self.eval(e.right, fr)
        return self.binop(BINOPS[type(e.op)], a, b)

    def e_BoolOp(self, e, fr):
        is_and = isinstance(e.op, ast.And)
        v = None
        for i, x in enumerate(e.values):
            v = self.eval(x, fr)
            if i == len(e.values) - 1:
                return v
            t = self.truthy(v)
            d = self.p.fork(t)
            if is_and and not d:
                return v
            if not is_and and d:
                return v
        return v

    def e_Compare(self, e, fr):
        left = self.eval(e.left, fr)
        res = None
        for op, c in zip(e.ops, e.comparators):
            right = self.eval(c, fr)
            r = self.compare(CMPOPS[type(op)], left, right)
            if len(e.ops) == 1:
                return r
            if not self.p.fork(r.t):
                return s_bool(False)
            res = r
            left = right
        return s_bool(True)

    def e_IfExp(self, e, fr):
        if self.p.fork(self.truthy(self.eval(e.test, fr))):
            return self.eval(e.body, fr)
        return self.eval(e.orelse, fr)

    def e_Lambda(self, e, fr):
        return s_py(FuncVal(e, [fr.locals] + fr.closure, fr.module, "<lambda>"), "func")

    def e_Subscript(self, e, fr):
        base = self.eval(e.value, fr)
        if isinstance(e.slice, ast.Slice):
            lo = self.eval(e.slice.lower, fr) if e.slice.lower is not None else None
            hi = self.eval(e.slice.upper, fr) if e.slice.upper is not None else None
            st = self.eval(e.slice.step, fr) if e.slice.step is not None else None
            return self.subscript(base, None, True, lo, hi, st)
        return self.subscript(base, self.eval(e.slice, fr))

    def e_Attribute(self, e, fr):
        return self.getattr(self.eval(e.value, fr), e.attr)

    def make_super(self, fr):
        """super() inside a method: attribute lookups continue after the defining class in the MRO of self"""
        qn = fr.qualname or ""
        owner = qn.split(":")[-1].split(".")[0]
        names = [a.arg for a in fr.fn_node.args.args] if fr.fn_node is not None else []
        if not names or owner not in self.ct.real:
            raise Unsupported("super() outside a method of a repository class")
        return SV("py", py=("super", fr.locals[names[0]], owner))

    def e_Call(self, e, fr):
        if isinstance(e.func, ast.Name) and e.func.id == "super" and not e.args and not e.keywords:
            return self.make_super(fr)
        f = self.eval(e.func, fr)
        args = []
        for a in e.args:
            if isinstance(a, ast.Starred):
                sv = self.refine(self.eval(a.value, fr))
                if sv.kind == "tuple":
                    args.extend(sv.items)
                elif sv.kind == "seq":
                    args.append(("*", sv))
                elif sv.kind == "ref" and self.static_cls(sv) in ("list", "tuple"):
                    args.append(("*", s_seq(self.p.hread("list.items", sv.ref))))
                else:
                    raise Unsupported("star-arg kind")
            else:
                args.append(self.eval(a, fr))
        kwargs = {}
        for k in e.keywords:
            if k.arg is None:
                raise Unsupported("**kwargs call")
            kwargs[k.arg] = self.eval(k.value, fr)
        return self.call(f, args, kwargs, node=e)

    def e_ListComp(self, e, fr):
        raise Unsupported("list comprehension")

    def e_GeneratorExp(self, e, fr):
        raise Unsupported("generator expression")

    def e_DictComp(self, e, fr):
        raise Unsupported("dict comprehension")

    # ------------------------------------------------------------------------------
    # str(), repr pieces
    # ------------------------------------------------------------------------------
    def py_str(self, v: SV) -> SV:
        v = self.refine(v)
        p = self.p
        if v.kind == "str":
            return v
        if v.kind == "int":
            c = conc_int(v.t)
            if c is not None:
                return s_str(str(c))
            return s_str(z3.If(v.t >= 0, z3.IntToStr(v.t), z3.Concat(z3.StringVal("-"), z3.IntToStr(-v.t))))
        if v.kind == "bool":
            return s_str(z3.If(v.t, z3.StringVal("True"), z3.StringVal("False")))
        if v.kind == "none":
            return s_str("None")
        if v.kind == "val":
            return s_str(z3.If(Val.is_VUndef(v.t), z3.StringVal("undefined"), z3.StringVal("null")))
        if v.kind == "float":
            p.uf_used.add("pyfloat_repr")
            f = z3.Function("pyfloat_repr", z3.IntSort(), z3.RealSort(), z3.StringSort())
            return s_str(f(v.k, v.r))
        if v.kind == "ref":
            p.uf_used.add("obj_repr")
            f = z3.Function("obj_repr", z3.IntSort(), z3.IntSort(), z3.StringSort())
            return s_str(f(v.cls, v.ref))
        if v.kind == "py" and hasattr(v.py, "name") and isinstance(getattr(v.py, "name"), str):
            return s_str(v.py.name)       # enum member .name style
        raise Unsupported(f"str() of {v.kind}")

    # ------------------------------------------------------------------------------
    # attribute access
    # ------------------------------------------------------------------------------
    STR_METHODS = {"find", "rfind", "startswith", "endswith", "strip", "lstrip", "rstrip", "lower", "upper",
                   "replace", "split", "join", "isdigit", "isalpha", "isalnum", "isspace", "index", "count",
                   "format", "zfill", "rjust", "ljust", "encode", "isidentifier"}
    LIST_METHODS = {"append", "pop", "insert", "extend", "reverse", "index", "sort", "copy", "count", "remove", "clear"}
    DICT_METHODS = {"get", "keys", "values", "items", "update", "pop", "setdefault", "copy"}

    def getattr(self, obj: SV, name: str) -> SV:
        o = self.refine(obj)
        p = self.p
        if o.kind == "str":
            if name in self.STR_METHODS:
                return s_py(BoundModel(o, name), "func")
            raise PyExc("AttributeError", None, f"str.{name}")
        if o.kind == "float":
            if name == "is_integer":
                return s_py(BoundModel(o, name), "func")
            raise PyExc("AttributeError", None, f"float.{name}")
        if o.kind == "int":
            if name in ("to_bytes", "bit_length", "is_integer"):
                return s_py(BoundModel(o, name), "func")
            raise PyExc("AttributeError", None, f"int.{name}")
        if o.kind == "module":
            kind, mi = o.py
            if isinstance(mi, str):
                return self.attr_of_pymodule(mi, name)
            if name in mi.globals:
                return self.module_global(mi, name)
            raise PyExc("AttributeError", None, f"module.{name}")
        if o.kind == "class":
            return self.class_attr(o.py, name)
        if o.kind == "dict":
            if name in self.DICT_METHODS:
                return s_py(BoundModel(o, name), "func")
            raise PyExc("AttributeError", None, f"dict.{name}")
        if o.kind in ("tuple", "seq"):
            if name in ("index", "count"):
                return s_py(BoundModel(o, name), "func")
            raise PyExc("AttributeError", None, f"tuple.{name}")
        if o.kind == "py" and isinstance(o.py, tuple) and len(o.py) == 3 and o.py[0] == "super":
            _, selfobj, owner = o.py
            real = self.ct.real.get(owner)
            for base in [c.__name__ for c in real.__mro__[1:]]:
                for mi in self.modules.values():
                    ci = mi.classes.get(base)
                    if ci and name in ci["methods"]:
                        return s_py(FuncVal(ci["methods"][name], [], mi, f"{mi.name}:{base}.{name}", self_obj=selfobj), "func")
            if name == "__init__":
                return s_py(Builtin("object.__init__", lambda a, k: S_NONE), "func")
            raise PyExc("AttributeError", None, f"super().{name}")
        if o.kind == "py":
            # concrete python object (enum member, ast node of the harness, ...)
            if hasattr(o.py, name) and isinstance(getattr(o.py, name), (int, str, bool, float, type(None))):
                return lift(getattr(o.py, name))
            raise Unsupported(f"attribute {name} of python object {type(o.py).__name__}")
        if o.kind == "func":
            raise Unsupported(f"attribute {name} of function")
        if o.kind == "none":
            raise PyExc("AttributeError", None, f"'NoneType' object has no attribute '{name}'")
        if o.kind == "val":      # UNDEFINED / NULL singletons
            raise PyExc("AttributeError", None, f"singleton has no attribute {name}")
        if o.kind == "bool":
            raise PyExc("AttributeError", None, f"bool.{name}")
        if o.kind != "ref":
            raise Unsupported(f"getattr on {o.kind}")
        cn = self.static_cls_by(o, lambda c: self.attr_key(c, name)) if self.group_classes else self.static_cls(o)
        if cn in ("list", "tuple", "bytes", "bytearray"):
            if name in self.LIST_METHODS or (cn == "bytes" and name in ("decode",)):
                return s_py(BoundModel(o, name), "func")
            raise PyExc("AttributeError", None, f"{cn}.{name}")
        if cn == "dict":
            if name in self.DICT_METHODS:
                return s_py(BoundModel(o, name), "func")
            raise PyExc("AttributeError", None, f"dict.{name}")
        if cn == "PyCallable":
            raise PyExc("AttributeError", None, f"function.{name}")
        # instance of a repo class: method / property / data attribute
        found = self.find_method(cn, name)
        if found is not None:
            node, mod, owner = found
            decos = [d.id if isinstance(d, ast.Name) else getattr(d, "attr", None) for d in node.decorator_list]
            fv = FuncVal(node, [], mod, f"{mod.name}:{owner}.{name}", self_obj=o)
            if "property" in decos:
                return self.call(s_py(fv, "func"), [], {})
            if "staticmethod" in decos:
                fv.self_obj = None
            return s_py(fv, "func")
        cattr = self.find_class_const(cn, name)
        if cattr is not None and not self.instance_may_set(cn, name):
            return cattr
        return self.read_field(o, cn, name)

    def attr_key(self, c, name):
        """how attribute `name` resolves on instances of class c (classes with equal keys need no case split)"""
        ck = self._attr_keys.get((c, name))
        if ck is not None:
            return ck
        if c in ("list", "tuple", "bytes", "bytearray", "dict", "PyCallable") or c not in self.ct.real:
            k = ("builtin", c)
        else:
            found = self.find_method(c, name)
            if found is not None:
                k = ("method", found[2], id(found[0]))
            else:
                cattr = self.find_class_const(c, name)
                if cattr is not None and not self.instance_may_set(c, name):
                    k = ("const", c)
                else:
                    known = self.known_fields.get(c)
                    ft = self.field_types.get(f"{c}.{name}") or self.field_types.get(name)
                    if ft is None:
                        real = self.ct.real.get(c)
                        for base in (real.__mro__[1:] if isinstance(real, type) else ()):
                            ft = self.field_types.get(f"{base.__name__}.{name}")
                            if ft is not None:
                                break
                    k = ("field", known is not None and name not in known, name in self.optional_fields.get(c, {}), ft,
                         name == "_prototype" and c == "JSFunction")
        self._attr_keys[(c, name)] = k
        return k

    _attr_keys: dict = {}
    group_classes = True

    def instance_may_set(self, cn, name):
        return name in self.instance_fields.get(cn, ())

    instance_fields: dict = {}

    def read_field(self, o: SV, cn: str, name: str) -> SV:
        p = self.p
        known = self.known_fields.get(cn)
        if known is not None and name not in known:
            # attribute that instances of this class never get: AttributeError
            opt = self.optional_fields.get(cn, {})
            if name in opt:
                flag = z3.Select(p.heap_arr_bool(f"has.{name}"), o.ref) if False else self.has_field(o, name)
                if p.fork(z3.Not(flag)):
                    raise PyExc("AttributeError", None, f"{cn}.{name}")
            else:
                raise PyExc("AttributeError", None, f"'{cn}' object has no attribute '{name}'")
        srt = p.field_sort(name)
        t = simp(p.hread(name, o.ref))
        if srt == z3.IntSort():
            return s_int(t)
        if srt == z3.BoolSort():
            return s_bool(t)
        self.elem_fact(o, t)
        if name == "_prototype" and cn != "JSFunction":
            # A-ACYCLIC: prototype chains are acyclic (ES invariant; Object.setPrototypeOf refuses cycles):
            # instantiated at each read as a strictly decreasing rank
            rank = z3.Function("proto_rank", z3.IntSort(), z3.IntSort())
            p.assume(z3.And(rank(o.ref) >= 0, z3.Implies(Val.is_VRef(t), z3.And(rank(Val.ref(t)) >= 0, rank(Val.ref(t)) < rank(o.ref)))))
        if name in self.SEP_FIELDS and is_initial_read(t):
            # A-SEP: the own-property dictionaries of an object are its own (never shared between objects or
            # fields; discharged structurally: the only assignments to these fields create fresh dictionaries)
            oo = z3.Function("dict_owner", z3.IntSort(), z3.IntSort())
            of = z3.Function("dict_owner_field", z3.IntSort(), z3.IntSort())
            p.assume(z3.Implies(Val.is_VRef(t), z3.And(oo(Val.ref(t)) == o.ref, of(Val.ref(t)) == self.SEP_FIELDS.index(name))))
        ft = self.field_types.get(f"{cn}.{name}") or self.field_types.get(name)
        if ft is None:
            real = self.ct.real.get(cn)
            for base in (real.__mro__[1:] if isinstance(real, type) else ()):
                ft = self.field_types.get(f"{base.__name__}.{name}")
                if ft is not None:
                    break
        if ft is not None:
            self.assume_type(t, ft)
        return s_val(t)

    known_fields: dict = {}
    optional_fields: dict = {}
    SEP_FIELDS = ["_properties", "_getters", "_setters", "_key_order"]

    def has_field(self, o: SV, name: str):
        arr = self.p.heap.get(f"has.{name}")
        if arr is None:
            arr = z3.Const(f"H0_has.{name}", z3.ArraySort(z3.IntSort(), z3.BoolSort()))
            self.p.heap[f"has.{name}"] = arr
        return z3.Select(arr, o.ref)

    def set_has_field(self, o: SV, name: str):
        arr = self.p.heap.get(f"has.{name}")
        if arr is None:
            arr = z3.Const(f"H0_has.{name}", z3.ArraySort(z3.IntSort(), z3.BoolSort()))
        self.p.heap[f"has.{name}"] = z3.Store(arr, o.ref, True)

    def assume_type(self, t, ft: str):
        self.p.assume(self.type_cond(t, ft))

    def type_cond(self, t, ft: str):
        """type invariant of a field: 'list', 'dict', 'int', 'str', 'float?', 'ClassName', 'X?' (optional)"""
        p = self.p
        opt = ft.endswith("?")
        ft = ft.rstrip("?")
        if ft == "int":
            c = Val.is_VInt(t)
        elif ft == "str":
            c = Val.is_VStr(t)
        elif ft == "bool":
            c = Val.is_VBool(t)
        elif ft == "number":
            c = z3.Or(Val.is_VInt(t), Val.is_VFlt(t))
        elif ft == "jsvalue":
            c = M.is_js_value(t)
        elif ft.startswith("tuple-of-") and ft[9:-4].isdigit() and ft.endswith("-int"):
            # an immutable tuple of n integers (e.g. an exception handler record (frame index, catch address, stack depth))
            n = int(ft[9:-4])
            items = p.hread("list.items", Val.ref(t))
            c = z3.And(Val.is_VRef(t), Val.cls(t) == CLS["tuple"], Val.ref(t) >= 0, Val.ref(t) < p.alloc0, z3.Length(items) == n,
                       *[Val.is_VInt(items[i]) for i in range(n)])
        elif ft in CLS:
            subs = self.ct.subclasses_of(ft) if ft in self.ct.real else [ft]
            c = M.cls_in(t, subs)
        else:
            raise Unsupported(f"field type {ft}")
        if opt:
            c = z3.Or(c, Val.is_VNone(t))
        return c

    def find_method(self, cn, name):
        """(FunctionDef, module, owner class) following the MRO of the real class"""
        real = self.ct.real.get(cn)
        mro = [c.__name__ for c in real.__mro__] if isinstance(real, type) else [cn]
        for c in mro:
            for mi in self.modules.values():
                ci = mi.classes.get(c)
                if ci and name in ci["methods"]:
                    return ci["methods"][name], mi, c
        return None

    def find_class_const(self, cn, name):
        real = self.ct.real.get(cn)
        mro = [c.__name__ for c in real.__mro__] if isinstance(real, type) else [cn]
        for c in mro:
            for mi in self.modules.values():
                ci = mi.classes.get(c)
                if ci and name in ci["consts"]:
                    return self.eval(ci["consts"][name], Frame({}, [], mi))
        return None

    def class_attr(self, cv: ClassVal, name):
        if cv.name in self.enum_members and name in self.enum_members[cv.name]:
            return self.enum_members[cv.name][name]
        found = self.find_method(cv.name, name) if cv.name in self.ct.real else None
        if found is not None:
            node, mod, owner = found
            return s_py(FuncVal(node, [], mod, f"{mod.name}:{owner}.{name}"), "func")
        c = self.find_class_const(cv.name, name) if cv.name in self.ct.real else None
        if c is not None:
            return c
        if cv.name == "float" and name == "is_integer":
            raise Unsupported("float.is_integer unbound")
        if cv.name == "int" and name == "from_bytes":
            return s_py(Builtin("int.from_bytes", self.b_int_from_bytes), "func")
        if name == "__name__":
            return s_str(cv.name)
        raise Unsupported(f"class attribute {cv.name}.{name}")

    enum_members: dict = {}
    abstract_impls: dict = {}

    def attr_of_pymodule(self, mod, name):
        if mod == "math":
            consts = {"pi": 3.141592653589793, "e": 2.718281828459045, "inf": float("inf"), "nan": float("nan")}
            if name in consts:
                return const_float(consts[name])
            return s_py(Builtin("math." + name, getattr(self, "m_" + name, None) or self.m_generic(name)), "func")
        if mod == "time":
            return s_py(Builtin("time." + name, getattr(self, "t_" + name, None)), "func")
        if mod == "functools" and name == "cmp_to_key":
            raise Unsupported("functools.cmp_to_key")
        if mod in ("typing", "dataclasses", "enum"):
            return s_py(("typing", name))
        return s_py(Builtin(f"{mod}.{name}", None), "func")

    # ------------------------------------------------------------------------------
    # attribute store
    # ------------------------------------------------------------------------------
    def setattr(self, obj: SV, name: str, value: SV):
        o = self.refine(obj)
        p = self.p
        if o.kind != "ref":
            raise Unsupported(f"setattr on {o.kind}")
        cn = self.static_cls_by(o, lambda c: (c not in self.ct.real and c, id((self.find_setter(c, name) or [None])[0]),
                                              name in self.optional_fields.get(c, {})))
        # property setter?
        setter = self.find_setter(cn, name)
        if setter is not None:
            node, mod, owner = setter
            fv = FuncVal(node, [], mod, f"{mod.name}:{owner}.{name}.setter", self_obj=o)
            self.call(s_py(fv, "func"), [value], {})
            return
        srt = p.field_sort(name)
        v = self.refine(value) if srt != Val else value
        if srt == z3.IntSort():
            if v.kind == "bool":
                v = self.num(v)
            if v.kind != "int":
                raise Unsupported(f"int field {name} assigned {v.kind}")
            p.hwrite(name, o.ref, v.t)
        elif srt == z3.BoolSort():
            if v.kind != "bool":
                raise Unsupported(f"bool field {name} assigned {v.kind}")
            p.hwrite(name, o.ref, v.t)
        else:
            p.hwrite(name, o.ref, self.box(value))
        if name in self.optional_fields.get(cn, {}):
            self.set_has_field(o, name)

    def find_setter(self, cn, name):
        real = self.ct.real.get(cn)
        mro = [c.__name__ for c in real.__mro__] if isinstance(real, type) else [cn]
        for c in mro:
            for mi in self.modules.values():
                ci = mi.classes.get(c)
                if ci and name in ci["setters"]:
                    return ci["setters"][name], mi, c
        return None

    # ------------------------------------------------------------------------------
    # calls
    # ------------------------------------------------------------------------------
    def call(self, f: SV, args, kwargs, node=None) -> SV:
        f = self.refine(f)
        if f.kind == "func":
            fv = f.py
            if isinstance(fv, Builtin):
                if fv.fn is None:
                    raise Unsupported(f"builtin {fv.name}")
                return fv.fn(self.flat_args(args), kwargs)
            if isinstance(fv, BoundModel):
                return self.call_model_method(fv.recv, fv.name, self.flat_args(args), kwargs)
            if isinstance(fv, FuncVal):
                return self.call_func(fv, args, kwargs)
            if callable(fv):      # native helper supplied by the harness API
                return fv(self, args, kwargs)
            raise Unsupported(f"call of {fv}")
        if f.kind == "class":
            return self.instantiate(f.py, self.flat_args(args), kwargs)
        if f.kind == "ref":
            cn = self.static_cls(f)
            m = self.find_method(cn, "__call__") if cn in self.ct.real else None
            if m is not None:
                nodef, mod, owner = m
                return self.call_func(FuncVal(nodef, [], mod, f"{mod.name}:{owner}.__call__", self_obj=f), args, kwargs)
            if cn == "PyCallable":
                fo = self.func_objects.get(str(f.ref))
                if fo is not None:
                    return self.call(fo, args, kwargs)
                return self.call_opaque(f, args, kwargs)
            raise PyExc("TypeError", None, f"'{cn}' object is not callable")
        if f.kind in ("none", "int", "str", "float", "bool", "val", "tuple", "seq"):
            raise PyExc("TypeError", None, f"'{f.kind}' object is not callable")
        raise Unsupported(f"call of {f.kind}")

    def call_opaque(self, f, args, kwargs):
        h = self.summaries.get("<opaque-callable>")
        if h is None:
            raise Unsupported("call of an opaque host callable (no summary)")
        return h(self, f, args, kwargs)

    def flat_args(self, args):
        out = []
        for a in args:
            if isinstance(a, tuple) and a[0] == "*":
                raise Unsupported("symbolic-length star-args to a modelled function")
            out.append(a)
        return out

    def call_func(self, fv: FuncVal, args, kwargs) -> SV:
        qn = fv.qualname
        summ = self.summaries.get(qn)
        if summ is None and ":" in qn:
            summ = self.summaries.get(qn.split(":", 1)[1])
        if summ is None and not isinstance(fv.node, ast.Lambda) and not getattr(self, "_in_merge_of", None) is fv.node:
            for d in fv.node.decorator_list:
                if isinstance(d, ast.Name) and d.id == "pure":
                    prev = getattr(self, "_in_merge_of", None)
                    def thunk(fv=fv, args=args, kwargs=kwargs):
                        self._in_merge_of = fv.node
                        return self.call_func(fv, list(args), dict(kwargs))
                    try:
                        return self.merged(thunk, self.merge_key(fv.qualname, args, kwargs), self.val_terms(args))
                    finally:
                        self._in_merge_of = prev
        if summ is None and not isinstance(fv.node, ast.Lambda):
            for d in fv.node.decorator_list:
                if isinstance(d, ast.Name) and d.id == "recursive":
                    if getattr(self, "_unfold_body", None) is fv.node:
                        self._unfold_body = None        # this call executes the body (the unfolding itself)
                        break
                    if getattr(self, "_unfolding", None) is fv.node and getattr(self, "_unfold_depth", 0) >= self.unfold_depth:
                        return self.rec_apply(fv, args)[0]      # application inside the deepest unfolding: uninterpreted
                    return self.call_recursive(fv, args, kwargs)
        if summ is None and not isinstance(fv.node, ast.Lambda):
            for d in fv.node.decorator_list:
                if isinstance(d, ast.Call) and getattr(d.func, "id", "") == "abstract":
                    impl = self.abstract_impls.get(d.args[0].value)
                    if impl is None:
                        return self.generic_abstract(d.args[0].value, fv, self.flat_args(args))
                    return impl(self, self.flat_args(args))
        if summ is not None:
            self.p.summarised.add(qn)
            all_args = ([fv.self_obj] if fv.self_obj is not None else []) + list(args)
            return summ(self, all_args, kwargs)
        if self.depth >= self.max_inline_depth:
            raise Unsupported(f"inline depth exceeded at {qn}")
        if fv.module is not None and fv.module.name.startswith("microjs") and self.depth > 0:
            self.p.inlined.add(qn)
        node = fv.node
        a = node.args
        locals_ = {}
        params = [x.arg for x in a.posonlyargs + a.args]
        pos = list(args)
        if fv.self_obj is not None:
            pos = [fv.self_obj] + pos
        # split star args
        star_tail = None
        flat = []
        for i, x in enumerate(pos):
            if isinstance(x, tuple) and x[0] == "*":
                if i != len(pos) - 1:
                    raise Unsupported("star-arg not last")
                star_tail = x[1]
            else:
                flat.append(x)
        defaults = a.defaults
        ndef = len(defaults)
        for i, name in enumerate(params):
            if i < len(flat):
                locals_[name] = flat[i]
            elif name in kwargs:
                locals_[name] = kwargs.pop(name)
            elif star_tail is not None:
                raise Unsupported("star-args spilling into named parameters")
            else:
                di = i - (len(params) - ndef)
                if di < 0:
                    raise PyExc("TypeError", None, f"{qn}() missing required argument {name}")
                locals_[name] = self.eval(defaults[di], Frame({}, fv.closure, fv.module))
        extra_pos = flat[len(params):]
        if a.vararg is not None:
            if star_tail is not None:
                t = star_tail.t
                if extra_pos:
                    t = z3.Concat(self.seq_of(extra_pos), t)
                locals_[a.vararg.arg] = s_seq(t)
            else:
                locals_[a.vararg.arg] = s_tuple(extra_pos)
        elif extra_pos or star_tail is not None:
            if star_tail is not None:
                raise Unsupported("star-args to function without *args")
            raise PyExc("TypeError", None, f"{qn}() takes {len(params)} positional arguments")
        for kw in a.kwonlyargs:
            if kw.arg in kwargs:
                locals_[kw.arg] = kwargs.pop(kw.arg)
        if kwargs:
            if a.kwarg is None:
                raise PyExc("TypeError", None, f"{qn}() got unexpected keyword {list(kwargs)}")
        fr = Frame(locals_, fv.closure, fv.module, qualname=qn, fn_node=node)
        self.depth += 1
        try:
            if isinstance(node, ast.Lambda):
                return self.eval(node.body, fr)
            # pre-declare assigned names as unbound locals (Python scoping)
            for n in assigned_names(node):
                fr.locals.setdefault(n, None)
            try:
                self.exec_block(node.body, fr)
            except _Return as r:
                return r.v
            return S_NONE
        finally:
            self.depth -= 1

    def generic_abstract(self, name, fv, args):
        """an uninterpreted function of the (boxed) arguments; the result sort is the declared return annotation
        ("int", "bool", "str", otherwise a Val).  Only for functions that do not read the heap."""
        boxed = [self.box(a) for a in args]
        rt = fv.node.returns.value if isinstance(fv.node.returns, ast.Constant) else None
        sort = {"int": z3.IntSort(), "bool": z3.BoolSort(), "str": z3.StringSort()}.get(rt, Val)
        f = z3.Function(name, *([Val] * len(boxed)), sort)
        t = f(*boxed)
        self.p.uf_used.add(name)
        if rt == "int":
            return s_int(t)
        if rt == "bool":
            return s_bool(t)
        if rt == "str":
            self.p.assume(z3.Length(t) <= 2 ** 32)
            return s_str(t)
        self.p.assume(M.val_wf(t))
        return s_val(t)

    # ---- recursive spec functions over the heap (ghost) --------------------------------
    rec_footprint: dict = {}       # recursive ghost function -> heap fields its body reads

    def heap_epoch(self, fv, sample_args=None):
        """identity of the part of the heap the ghost function reads: it is uninterpreted per state of its footprint"""
        p = self.p
        name = fv.qualname
        fp = self.rec_footprint.get(name)
        if fp is None:
            # learn the footprint by one dry unfolding (every recursion depth executes the same body)
            self.rec_footprint[name] = fp = set()
            saved = p.read_track
            p.read_track = fp
            prev, depth = getattr(self, "_unfolding", None), getattr(self, "_unfold_depth", 0)
            try:
                def dry(fv=fv):
                    self._unfolding = fv.node
                    self._unfold_body = fv.node
                    self._unfold_depth = self.unfold_depth
                    # the arguments of the first application stand for all (every depth runs the same body)
                    if sample_args is not None:
                        args = list(sample_args)
                    else:
                        args = [s_val(p.fresh(Val, "fp")) for _ in fv.node.args.args]
                        for a in args:
                            p.assume(M.val_wf(a.t))
                    return self.call_func(fv, args, {})
                try:
                    self.merged(dry)
                except (PyExc, Infeasible):
                    pass
            finally:
                p.read_track = saved
                self._unfolding, self._unfold_depth = prev, depth
        # fields never written still hold their initial array H0_<field> (created lazily on first read)
        key = tuple(sorted((k, v.get_id()) for k, v in p.heap.items()
                           if k in fp and not (z3.is_const(v) and v.decl().name() == f"H0_{k}")))
        self.keepalive.extend(p.heap.values())
        ep = getattr(p, "rec_epochs", None)
        if ep is None:
            ep = p.rec_epochs = {}
        if key not in ep:
            ep[key] = len(ep)
        return ep[key]

    def rec_apply(self, fv, args):
        """the application term of a @recursive spec function at the current heap"""
        name = fv.qualname.split(":")[-1]
        boxed = [self.box(a) for a in self.flat_args(args)]
        f = z3.Function(f"{name}!h{self.heap_epoch(fv, self.flat_args(args))}", *([Val] * len(boxed)), Val)
        t = f(*boxed)
        self.p.uf_used.add(f"rec:{name}")
        self.p.assume(M.val_wf(t))
        rt = fv.node.returns
        if isinstance(rt, ast.Constant) and isinstance(rt.value, str):
            self.assume_type(t, rt.value)       # declared range of the ghost function (checked against the body at each unfolding)
            tag = {"bool": 3, "int": 4, "str": 6}.get(rt.value)
            if tag is not None:
                self.p.known_tag[t.get_id()] = tag      # no case split on the tag of the result
                self.p.keep.append(t)
        # the result as a statically kinded value when the declared range fixes the tag (no case split at uses)
        kind = rt.value if isinstance(rt, ast.Constant) and isinstance(rt.value, str) else None
        res = {"int": lambda: s_int(simp(Val.vi(t))), "bool": lambda: s_bool(simp(Val.vb(t))),
               "str": lambda: s_str(simp(Val.vs(t)))}.get(kind, lambda: s_val(t))()
        res.rec_term = t
        ens = self.rec_ensures(fv)
        if ens is not None and not getattr(self, "_in_ensures", False):
            # postcondition of the ghost function, proved by induction on its unfolding (obligation <name>.ensures-inductive)
            self._in_ensures = True
            try:
                self.p.assume(self.truthy(self.call_func(ens, list(self.flat_args(args)) + [res], {})))
            finally:
                self._in_ensures = False
        self.p.assume(z3.Implies(Val.is_VRef(t), Val.ref(t) < self.p.alloc0 + self.p.nalloc))
        return res, (f.name(), tuple(b.get_id() for b in boxed)), boxed

    def rec_ensures(self, fv):
        """the companion  <name>__ensures(args..., result)  of a recursive ghost function, if the module defines one"""
        mi = fv.module
        node = mi.globals.get(fv.node.name + "__ensures") if mi is not None else None
        if isinstance(node, ast.FunctionDef):
            return FuncVal(node, [], mi, f"{mi.name}:{node.name}")
        return None

    def call_recursive(self, fv, args, kwargs):
        """r = F(args) with the one-step unfolding  F(args) == body[F := uninterpreted]  assumed at this
        application (a definitional axiom instance; deeper unfoldings come from further applications)"""
        if kwargs:
            raise Unsupported("keyword arguments to a recursive spec function")
        n_pc0 = len(self.p.pc)
        r, key, boxed = self.rec_apply(fv, args)
        done = getattr(self.p, "rec_unfolded", None)
        if done is None:
            done = self.p.rec_unfolded = set()
        if key in done:
            return r
        done.add(key)
        self.keepalive.extend(boxed)
        prev = getattr(self, "_unfolding", None)
        depth = getattr(self, "_unfold_depth", 0)

        def thunk(fv=fv, args=args):
            self._unfolding = fv.node
            self._unfold_body = fv.node
            self._unfold_depth = depth + 1
            return self.call_func(fv, list(args), {})
        try:
            body = self.merged(thunk, self.merge_key(f"unfold{depth}:" + fv.qualname, args, {}), self.val_terms(args))
        finally:
            self._unfolding = prev
            self._unfold_depth = depth
        bt = self.box(body)
        rt = fv.node.returns
        if isinstance(rt, ast.Constant) and isinstance(rt.value, str):
            self.lemma_obligation(f"{fv.qualname.split(':')[-1]}.declared-range", simp(self.type_cond(bt, rt.value)), n_pc0)
        ens = self.rec_ensures(fv)
        if ens is not None:
            # inductive step: the body satisfies the postcondition, given that the inner applications do
            self._in_ensures = True
            try:
                c = self.truthy(self.call_func(ens, list(self.flat_args(args)) + [body if body.kind in ("int", "bool", "str") else s_val(bt)], {}))
            finally:
                self._in_ensures = False
            self.lemma_obligation(f"{fv.qualname.split(':')[-1]}.ensures-inductive", simp(c), n_pc0)
        self.p.assume(r.rec_term == bt)
        return r

    def lemma_obligation(self, name, cond, n_pc0):
        """an obligation about a ghost function itself (declared range, inductive postcondition): it does not depend on
        the path that happens to apply the function, so it is first tried from the facts produced by this unfolding
        alone (definitions of the merged body, hypotheses on the inner applications) and only then from the whole path
        condition -- both are sound, the first is far cheaper and is shared between paths"""
        p = self.p
        local = list(p.pc[n_pc0:])
        lp = getattr(p, "lemma_pc", None)
        if lp is None:
            lp = p.lemma_pc = {}
        lp[cond.get_id()] = local
        self.keepalive.append(cond)
        p.obligations.append((name, cond, ""))

    def val_terms(self, args):
        """terms of the arguments whose tag / class decided on the caller's path specialise a merged call"""
        out = []
        for a in args:
            if not isinstance(a, type(S_NONE)):
                continue
            if a.kind == "val":
                out.append(a.t)
            elif a.kind == "ref" and conc_int(a.cls) is None:
                out.append(Val.VRef(a.cls, a.ref))
        return out

    def merge_key(self, name, args, kwargs):
        parts = [name]
        for a in list(args) + [kwargs[k] for k in sorted(kwargs)]:
            if isinstance(a, tuple):
                a = a[1]
            parts.append(self.sv_key(a))
        if any(x is None for x in parts):
            return None
        return tuple(parts)

    def sv_key(self, a):
        k = a.kind
        if k in ("int", "bool", "str", "val", "seq"):
            self.keepalive.append(a.t)
            return (k, a.t.get_id())
        if k == "float":
            self.keepalive.extend([a.k, a.r])
            return (k, a.k.get_id(), a.r.get_id())
        if k == "none":
            return (k,)
        if k == "ref":
            self.keepalive.extend([a.cls, a.ref])
            return (k, a.cls.get_id(), a.ref.get_id())
        if k == "tuple":
            ks = tuple(self.sv_key(i) for i in a.items)
            return None if any(x is None for x in ks) else (k,) + ks
        if k in ("func", "class", "py", "module"):
            return (k, id(a.py))
        return None

    def instantiate(self, cv: ClassVal, args, kwargs) -> SV:
        n = cv.name
        p = self.p
        if n in BUILTIN_EXC or n in self.exc_hier:
            return SV("excobj", py=n, items=list(args))
        if n == "type":
            v = args[0]
            t = self.box(v)
            tid = z3.If(Val.is_VUndef(t), 0, z3.If(Val.is_VNull(t), 1, z3.If(Val.is_VNone(t), 2, z3.If(Val.is_VBool(t), 3,
                  z3.If(Val.is_VInt(t), 4, z3.If(Val.is_VFlt(t), 5, z3.If(Val.is_VStr(t), 6, 100 + Val.cls(t))))))))
            return SV("pytype", t=simp(tid))
        if n == "JSUndefined":
            return s_val(Val.VUndef)
        if n == "JSNull":
            return s_val(Val.VNull)
        if n == "str":
            if not args:
                return s_str("")
            return self.py_str(args[0])
        if n == "int":
            return self.b_int(args, kwargs)
        if n == "float":
            return self.b_float(args, kwargs)
        if n == "bool":
            return s_bool(self.truthy(args[0])) if args else s_bool(False)
        if n == "list":
            return self.b_list(args, kwargs)
        if n == "tuple":
            if not args:
                return s_tuple([])
            a = self.refine(args[0])
            if a.kind in ("tuple", "seq"):
                return a
            return s_seq(self.as_seq(a))
        if n == "bytes":
            return self.b_bytes(args, kwargs)
        if n == "bytearray":
            return self.b_bytearray(args, kwargs)
        if n == "dict":
            if args or kwargs:
                raise Unsupported("dict(args)")
            return self.new_dict()
        if n in ("set", "frozenset"):
            if not args:
                return s_py(frozenset())
            items = self.iter_items(args[0], None)
            if items is None:
                raise Unsupported("set() of symbolic-length iterable")
            return s_py(frozenset(self.concrete_key(self.refine(i)) for i in items))
        if n in self.enum_members:
            # OpCode(x): lookup by value
            v = self.refine(args[0])
            if v.kind == "int":
                members = self.enum_members[n]
                conds = [v.t == m.py.value for m in members.values()]
                names = list(members)
                i = p.choose(conds + [z3.BoolVal(True)])
                if i >= len(names):
                    raise PyExc("ValueError", None, f"not a valid {n}")
                return members[names[i]]
            raise Unsupported("enum lookup by non-int")
        if n not in self.ct.real:
            raise Unsupported(f"instantiate {n}")
        obj = p.alloc(n)
        # dataclass?
        ci = None
        for mi in self.modules.values():
            if n in mi.classes:
                ci = mi.classes[n]
                cmod = mi
        if ci is not None and ci.get("dataclass"):
            fields = ci["dc_fields"]
            for i, (fname, default) in enumerate(fields):
                if i < len(args):
                    v = args[i]
                elif fname in kwargs:
                    v = kwargs[fname]
                elif default is not None:
                    v = self.eval(default, Frame({}, [], cmod))
                else:
                    raise PyExc("TypeError", None, f"{n}() missing {fname}")
                self.setattr(obj, fname, v)
            return obj
        init = self.find_method(n, "__init__")
        if init is not None:
            node, mod, owner = init
            self.call_func(FuncVal(node, [], mod, f"{mod.name}:{owner}.__init__", self_obj=obj), list(args), dict(kwargs))
        return obj

    def new_dict(self):
        p = self.p
        r = p.alloc("dict")
        p.hwrite("dict.dom", r.ref, z3.K(z3.StringSort(), z3.BoolVal(False)))
        p.hwrite("dict.order", r.ref, z3.Empty(M.StrSeq))
        return r

    def new_list(self, seq):
        r = self.p.alloc("list")
        self.p.hwrite("list.items", r.ref, seq)
        return r

    # ------------------------------------------------------------------------------
    # statements
    # ------------------------------------------------------------------------------
    def exec_block(self, stmts, fr: Frame):
        for s in stmts:
            self.exec(s, fr)

    def exec(self, s: ast.AST, fr: Frame):
        m = getattr(self, "x_" + type(s).__name__, None)
        if m is None:
            raise Unsupported(f"statement {type(s).__name__} at line {getattr(s, 'lineno', '?')}")
        return m(s, fr)

    def x_Expr(self, s, fr):
        if isinstance(s.value, ast.Constant):
            return
        self.eval(s.value, fr)

    def x_Pass(self, s, fr):
        pass

    def x_Import(self, s, fr):
        for a in s.names:
            fr.locals[a.asname or a.name.split(".")[0]] = s_py(("module", a.name), "module")

    def x_ImportFrom(self, s, fr):
        for a in s.names:
            fr.locals[a.asname or a.name] = self.imported(("." * s.level) + (s.module or ""), a.name)

    def x_Return(self, s, fr):
        raise _Return(self.eval(s.value, fr) if s.value is not None else S_NONE)

    def x_Break(self, s, fr):
        raise _Break()

    def x_Continue(self, s, fr):
        raise _Continue()

    def x_FunctionDef(self, s, fr):
        qn = f"<local>.{s.name}"
        fr.locals[s.name] = s_py(FuncVal(s, [fr.locals] + fr.closure, fr.module, qn), "func")

    def x_Assert(self, s, fr):
        c = self.truthy(self.eval(s.test, fr))
        if self.p.fork(z3.Not(c)):
            raise PyExc("AssertionError", None, "assert")

    def x_Global(self, s, fr):
        raise Unsupported("global statement")

    def x_Nonlocal(self, s, fr):
        fr.locals.setdefault("__nonlocal__", s_py(set()))
        for n in s.names:
            fr.locals["__nonlocal__"].py.add(n)
            fr.locals.pop(n, None)

    def x_Delete(self, s, fr):
        for t in s.targets:
            if isinstance(t, ast.Subscript) and isinstance(t.slice, ast.Slice) and t.slice.step is None:
                # del lst[a:b] on a heap list (indices clamped like Python's slice semantics)
                base = self.refine(self.eval(t.value, fr))
                if not (base.kind == "ref" and self.static_cls(base) == "list"):
                    raise Unsupported("del of a slice of a non-list")
                p = self.p
                items = p.hread("list.items", base.ref)
                n = z3.Length(items)

                def bound(e, default):
                    if e is None:
                        return default
                    v = self.refine(self.eval(e, fr))
                    if v.kind == "bool":
                        v = self.num(v)
                    if v.kind != "int":
                        raise PyExc("TypeError", None, "slice indices must be integers")
                    i = z3.If(v.t < 0, v.t + n, v.t)
                    return z3.If(i < 0, 0, z3.If(i > n, n, i))
                a, b = bound(t.slice.lower, z3.IntVal(0)), bound(t.slice.upper, n)
                b = z3.If(b < a, a, b)
                p.hwrite("list.items", base.ref, simp(z3.Concat(z3.SubSeq(items, 0, a), z3.SubSeq(items, b, n - b))))
                continue
            if isinstance(t, ast.Subscript):
                base = self.refine(self.eval(t.value, fr))
                key = self.refine(self.eval(t.slice, fr))
                if base.kind == "ref" and self.static_cls(base) == "dict" and key.kind == "str":
                    p = self.p
                    dom = p.hread("dict.dom", base.ref)
                    if p.fork(z3.Not(z3.Select(dom, key.t))):
                        raise PyExc("KeyError", None, "del")
                    p.hwrite("dict.dom", base.ref, z3.Store(dom, key.t, False))
                    order = p.hread("dict.order", base.ref)
                    i = z3.IndexOf(order, z3.Unit(key.t), 0)
                    p.hwrite("dict.order", base.ref, z3.Concat(z3.SubSeq(order, 0, i), z3.SubSeq(order, i + 1, z3.Length(order) - i - 1)))
                    continue
            raise Unsupported("del")

    def assign(self, target, value: SV, fr: Frame):
        if isinstance(target, ast.Name):
            nl = fr.locals.get("__nonlocal__")
            if nl is not None and target.id in nl.py:
                for env in fr.closure:
                    if target.id in env:
                        env[target.id] = value
                        return
            fr.locals[target.id] = value
        elif isinstance(target, (ast.Tuple, ast.List)):
            v = self.refine(value)
            if v.kind == "tuple":
                if len(v.items) != len(target.elts):
                    raise PyExc("ValueError", None, "unpack length mismatch")
                for t, x in zip(target.elts, v.items):
                    self.assign(t, x, fr)
            elif v.kind == "seq" or (v.kind == "ref" and self.static_cls(v) in ("list", "tuple")):
                t_ = self.as_seq(v)
                n = len(target.elts)
                if self.p.fork(z3.Length(t_) != n):
                    raise PyExc("ValueError", None, "unpack length mismatch")
                for i, t in enumerate(target.elts):
                    x = simp(t_[i])
                    self.seq_fact(x) if v.kind == "seq" else self.p.assume(M.val_wf(x))
                    self.assign(t, s_val(x), fr)
            else:
                raise PyExc("TypeError", None, f"cannot unpack {v.kind}")
        elif isinstance(target, ast.Attribute):
            self.setattr(self.eval(target.value, fr), target.attr, value)
        elif isinstance(target, ast.Subscript):
            if isinstance(target.slice, ast.Slice):
                raise Unsupported("slice assignment")
            self.store_subscript(self.eval(target.value, fr), self.eval(target.slice, fr), value)
        else:
            raise Unsupported(f"assign target {type(target).__name__}")

    def x_Assign(self, s, fr):
        v = self.eval(s.value, fr)
        for t in s.targets:
            self.assign(t, v, fr)

    def x_AnnAssign(self, s, fr):
        if s.value is not None:
            self.assign(s.target, self.eval(s.value, fr), fr)

    def x_AugAssign(self, s, fr):
        t = s.target
        op = BINOPS[type(s.op)]
        if isinstance(t, ast.Name):
            cur = self.lookup(t.id, fr)
            # list += iterable mutates in place
            c = self.refine(cur)
            if op == "+" and c.kind == "ref" and self.static_cls(c) == "list":
                self.call_model_method(c, "extend", [self.eval(s.value, fr)], {})
                return
            self.assign(t, self.binop(op, cur, self.eval(s.value, fr)), fr)
        elif isinstance(t, ast.Attribute):
            o = self.eval(t.value, fr)
            cur = self.getattr(o, t.attr)
            self.setattr(o, t.attr, self.binop(op, cur, self.eval(s.value, fr)))
        elif isinstance(t, ast.Subscript):
            o = self.eval(t.value, fr)
            i = self.eval(t.slice, fr)
            cur = self.subscript(o, i)
            self.store_subscript(o, i, self.binop(op, cur, self.eval(s.value, fr)))
        else:
            raise Unsupported("augassign target")

    def x_If(self, s, fr):
        if self.p.fork(self.truthy(self.eval(s.test, fr))):
            self.exec_block(s.body, fr)
        else:
            self.exec_block(s.orelse, fr)

    def x_Raise(self, s, fr):
        if s.exc is None:
            cur = getattr(self, "_current_exc", None)
            if cur is None:
                raise PyExc("RuntimeError", None, "No active exception to reraise")
            raise cur
        e = self.eval(s.exc, fr)
        if e.kind == "class":
            raise PyExc(e.py.name, None, f"line {s.lineno}")
        if e.kind == "excobj":
            msg = e.items[0] if e.items else None
            pe = PyExc(e.py, msg, f"line {s.lineno}")
            if e.extra is not None:
                raise e.extra          # re-raise of a caught exception object
            raise pe
        raise Unsupported("raise of non-exception")

    def exc_matches(self, exc_cls: str, handler_type: SV) -> bool:
        if handler_type is None:
            return True
        names = []
        if handler_type.kind == "class":
            names = [handler_type.py.name]
        elif handler_type.kind == "tuple":
            names = [x.py.name for x in handler_type.items]
        else:
            raise Unsupported("except type expression")
        anc = self.exc_hier.get(exc_cls)
        if anc is None:
            raise Unsupported(f"unknown exception class {exc_cls}")
        return any(n in anc for n in names)

    def x_Try(self, s, fr):
        try:
            try:
                self.exec_block(s.body, fr)
            except PyExc as ex:
                for h in s.handlers:
                    ht = self.eval(h.type, fr) if h.type is not None else None
                    if self.exc_matches(ex.cls, ht):
                        if h.name:
                            eo = SV("excobj", py=ex.cls, items=[ex.msg] if ex.msg is not None else [])
                            eo.extra = ex
                            fr.locals[h.name] = eo
                        saved = getattr(self, "_current_exc", None)
                        self._current_exc = ex
                        try:
                            self.exec_block(h.body, fr)
                        finally:
                            self._current_exc = saved
                        break
                else:
                    raise
            else:
                self.exec_block(s.orelse, fr)
        finally:
            if s.finalbody:
                # NB: python semantics: finally runs on every exit, and an exception/return in it wins
                self.exec_block(s.finalbody, fr)

    def x_With(self, s, fr):
        raise Unsupported("with")

    # ---- loops -----------------------------------------------------------------------
    def x_While(self, s, fr):
        inv = self.loop_contract(s, fr)
        if inv is not None:
            return inv(self, s, fr)
        n = 0
        while True:
            if not self.p.fork(self.truthy(self.eval(s.test, fr))):
                self.exec_block(s.orelse, fr)
                return
            if n >= self.loop_unroll:
                raise Unsupported(f"while loop at line {s.lineno} needs an invariant (unroll bound {self.loop_unroll} reached)")
            n += 1
            try:
                self.exec_block(s.body, fr)
            except _Break:
                return
            except _Continue:
                continue

    loop_invariants: dict = {}     # (qualname, loop ordinal) -> FuncVal of the invariant (harness code)
    unfold_depth = 1               # definitional unfoldings of a recursive ghost function per application

    def loop_ordinal(self, fn_node, s):
        k = 0
        stack = list(reversed(fn_node.body))
        while stack:
            n = stack.pop()
            if isinstance(n, (ast.FunctionDef, ast.Lambda, ast.ClassDef, ast.AsyncFunctionDef)):
                continue
            if isinstance(n, (ast.While, ast.For)):
                if n is s:
                    return k
                k += 1
            stack.extend(reversed(list(ast.iter_child_nodes(n))))
        return None

    def loop_contract(self, s, fr=None):
        if not self.loop_invariants or fr is None or fr.fn_node is None:
            return None
        k = self.loop_ordinal(fr.fn_node, s)
        qn = fr.qualname or ""
        inv = self.loop_invariants.get((qn, k)) or self.loop_invariants.get((qn.split(":", 1)[-1], k))
        if inv is None and isinstance(s, (ast.While, ast.For)):
            # keyed by the text of the loop condition / iterable (robust against loops added elsewhere in a long function)
            test = ast.unparse(s.test if isinstance(s, ast.While) else s.iter)
            inv = self.loop_invariants.get((qn, test)) or self.loop_invariants.get((qn.split(":", 1)[-1], test))
            k = test if inv is not None else k
        if inv is None:
            return None
        wr = []
        for key in ((qn, k), (qn.split(":", 1)[-1], k)):
            if key in getattr(self, "loop_writes", {}):
                wr = self.loop_writes[key]
        return lambda eng, s_, fr_: eng.loop_by_invariant(s_, fr_, inv, f"{qn.split(':')[-1]}#loop{k}", wr)

    def eval_invariant(self, inv, fr):
        """the invariant is harness code; its parameters name locals of the function at the loop head"""
        node = inv.node
        names = [a.arg for a in node.args.args]
        args = []
        for n in names:
            v = fr.locals.get(n)
            if v is None:
                try:
                    v = self.lookup(n, fr)          # a variable of an enclosing function (closure environment)
                except PyExc:
                    v = None
            if v is None:
                raise Unsupported(f"loop invariant refers to {n}, which is not bound at the loop head")
            args.append(v)
        try:
            return self.truthy(self.call_func(inv, args, {}))
        except PyExc as e:
            # an exception while evaluating ghost code says nothing about the real function: the invariant is ill-defined here
            raise Unsupported(f"the loop invariant {node.name} raises {e.cls} on some state (guard its partial operations)")

    def havoc(self, old: SV, name):
        p = self.p
        p.fresh_ctr += 1
        k = old.kind
        if k == "int":
            return s_int(z3.Int(f"hv_{name}!{p.fresh_ctr}"))
        if k == "bool":
            return s_bool(z3.Bool(f"hv_{name}!{p.fresh_ctr}"))
        if k == "str":
            t = z3.String(f"hv_{name}!{p.fresh_ctr}")
            p.assume(z3.Length(t) <= 2 ** 32)
            return s_str(t)
        if k in ("val", "ref", "none"):
            t = z3.Const(f"hv_{name}!{p.fresh_ctr}", Val)
            p.assume(M.val_wf(t))
            p.assume(z3.Implies(Val.is_VRef(t), Val.ref(t) < p.alloc0 + p.nalloc))
            return s_val(t)
        raise Unsupported(f"loop modifies {name} of kind {k}: not havocable")

    def loop_by_invariant(self, s, fr, inv, label, heap_writes=()):
        """Hoare while rule.  Obligations: <label>.entry, <label>.preserved.  The loop body must not
        write the heap (checked); locals assigned in the body are havoced."""
        p = self.p
        counter = None
        if isinstance(s, ast.For):
            # for x in range(a, b[, +-1]):  a counting loop.  The ghost local `<x>__next` is the value x takes in the
            # next iteration (the invariant may mention it); x itself is assigned at the start of every iteration.
            it = s.iter
            if not (isinstance(s.target, ast.Name) and isinstance(it, ast.Call) and isinstance(it.func, ast.Name) and it.func.id == "range"
                    and 1 <= len(it.args) <= 3 and not s.orelse):
                raise Unsupported("invariants are supported on while loops and `for x in range(...)` loops only")
            ra = [self.refine(self.eval(a, fr)) for a in it.args]
            if any(a.kind not in ("int", "bool") for a in ra):
                raise Unsupported("range() bounds are not integers")
            ra = [self.num(a) for a in ra]
            lo, hi = (s_int(0), ra[0]) if len(ra) == 1 else (ra[0], ra[1])
            step = conc_int(ra[2].t) if len(ra) == 3 else 1
            if step not in (1, -1):
                raise Unsupported("range() step other than +-1")
            counter = (s.target.id, s.target.id + "__next", hi, step)
            fr.locals[counter[1]] = lo
        elif not isinstance(s, ast.While):
            raise Unsupported("invariants are supported on while loops and `for x in range(...)` loops only")
        self.keepalive.extend(p.heap.values())
        prev_snap = getattr(self, "_loop_entry_snap", None)
        self._loop_entry_snap = ("heap", dict(p.heap), p.nalloc)
        try:
            return self._loop_by_invariant(s, fr, inv, label, heap_writes, counter)
        finally:
            self._loop_entry_snap = prev_snap

    def _loop_by_invariant(self, s, fr, inv, label, heap_writes, counter):
        p = self.p
        p.obligations.append((f"{label}.invariant-on-entry", simp(self.eval_invariant(inv, fr)), ""))
        mod = set()
        for st in s.body:
            for n in ast.walk(st):
                if isinstance(n, ast.Name) and isinstance(n.ctx, ast.Store):
                    mod.add(n.id)
        if counter is not None:
            mod.add(counter[1])
            mod.add(counter[0])
        kinds = {}
        for n in sorted(mod):
            old = fr.locals.get(n)
            if old is None:
                continue            # first assigned inside the body
            kinds[n] = old.kind
            fr.locals[n] = self.havoc(old, n)
        # heap fields the body may write (declared with @writes on the invariant) are arbitrary at the loop head
        for fld in heap_writes:
            p.fresh_ctr += 1
            p.heap[fld] = z3.Const(f"Hh_{fld}!{p.fresh_ctr}", z3.ArraySort(z3.IntSort(), p.field_sort(fld)))
        p.assume(self.eval_invariant(inv, fr))
        heap0 = dict(p.heap)            # (after the invariant: evaluating it may allocate ghost lists)
        nalloc0 = p.nalloc
        if counter is not None:
            nxt = fr.locals[counter[1]]
            cond = (nxt.t < counter[2].t) if counter[3] == 1 else (nxt.t > counter[2].t)
        else:
            cond = self.truthy(self.eval(s.test, fr))
        if p.fork(cond):
            if counter is not None:
                fr.locals[counter[0]] = nxt
                fr.locals[counter[1]] = s_int(simp(nxt.t + counter[3]))
            try:
                self.exec_block(s.body, fr)
            except _Break:
                return
            except _Continue:
                pass
            for k, v in p.heap.items():
                same = (v is heap0[k] or v.eq(heap0[k])) if k in heap0 else (z3.is_const(v) and v.decl().name().startswith("H0_"))
                if not same and k not in heap_writes:
                    raise Unsupported(f"{label}: the loop body writes the heap field {k}, which the invariant does not declare (@writes)")
            if p.nalloc != nalloc0:
                raise Unsupported(f"{label}: the loop body allocates (read-only loops only)")
            for n, k in kinds.items():
                nk = fr.locals[n].kind
                if k in ("int", "bool", "str") and nk != k:
                    raise Unsupported(f"{label}: {n} changes kind {k} -> {nk}")
            p.obligations.append((f"{label}.invariant-preserved", simp(self.eval_invariant(inv, fr)), ""))
            raise PathCut()
        if counter is None:
            self.exec_block(s.orelse, fr)

    def iter_items(self, it: SV, node):
        """return a python list of SVs when the iterable has a statically known length, else None"""
        it = self.refine(it)
        if it.kind == "tuple":
            return list(it.items)
        if it.kind == "range":
            lo, hi, st = it.items
            cl, ch, cs = conc_int(lo.t), conc_int(hi.t), conc_int(st.t)
            if None not in (cl, ch, cs):
                return [s_int(i) for i in range(cl, ch, cs)]
            return None
        if it.kind == "enum":
            inner = self.iter_items(it.items[0], node)
            if inner is None:
                return None
            start = conc_int(it.items[1].t)
            return [s_tuple([s_int(start + i), x]) for i, x in enumerate(inner)]
        if it.kind == "str":
            c = conc_str(it.t)
            if c is not None:
                return [s_str(ch) for ch in c]
            return None
        if it.kind == "seq":
            n = conc_int(z3.Length(it.t))
            if n is not None:
                return [s_val(simp(it.t[i])) for i in range(n)]
            return None
        if it.kind == "ref" and self.static_cls(it) in ("list", "tuple"):
            t = self.p.hread("list.items", it.ref)
            n = conc_int(z3.Length(t))
            if n is not None:
                return [s_val(simp(t[i])) for i in range(n)]
            return None
        if it.kind == "dict":
            return [lift(k) for k in it.py]
        if it.kind == "py" and isinstance(it.py, (list, tuple, frozenset, set)):
            return [lift(k) for k in it.py]
        raise Unsupported(f"iteration over {it.kind}")

    def x_For(self, s, fr):
        inv = self.loop_contract(s, fr)
        if inv is not None:
            return inv(self, s, fr)
        it = self.eval(s.iter, fr)
        items = self.iter_items(it, s)
        if items is None:
            items = self.bounded_iter(it, s)
        for x in items:
            self.assign(s.target, x, fr)
            try:
                self.exec_block(s.body, fr)
            except _Break:
                return
            except _Continue:
                continue
        self.exec_block(s.orelse, fr)

    def bounded_iter(self, it: SV, node):
        """symbolic-length iteration: allowed only up to loop_unroll elements (bounded mode)"""
        if self.loop_unroll <= 0:
            raise Unsupported(f"for loop over symbolic-length iterable at line {node.lineno} needs an invariant")
        it = self.refine(it)
        p = self.p
        if it.kind == "seq" or (it.kind == "ref" and self.static_cls(it) in ("list", "tuple")):
            t = self.as_seq(it)
            n = z3.Length(t)
            k = p.choose([n == i for i in range(self.loop_unroll + 1)] + [z3.BoolVal(True)])
            if k > self.loop_unroll:
                raise Unsupported("loop bound exceeded")
            out = [s_val(simp(t[i])) for i in range(k)]
            if it.kind == "seq":
                for o in out:
                    self.seq_fact(o.t)
            return out
        if it.kind == "range":
            lo, hi, st = it.items
            if conc_int(st.t) != 1:
                raise Unsupported("symbolic range step")
            n = z3.If(hi.t > lo.t, hi.t - lo.t, 0)
            k = p.choose([n == i for i in range(self.loop_unroll + 1)] + [z3.BoolVal(True)])
            if k > self.loop_unroll:
                raise Unsupported("loop bound exceeded")
            return [s_int(simp(lo.t + i)) for i in range(k)]
        if it.kind == "enum":
            inner = self.bounded_iter(it.items[0], node)
            start = it.items[1].t
            return [s_tuple([s_int(simp(start + i)), x]) for i, x in enumerate(inner)]
        if it.kind == "str":
            n = z3.Length(it.t)
            k = p.choose([n == i for i in range(self.loop_unroll + 1)] + [z3.BoolVal(True)])
            if k > self.loop_unroll:
                raise Unsupported("loop bound exceeded")
            return [s_str(simp(z3.SubString(it.t, i, 1))) for i in range(k)]
        raise Unsupported(f"bounded iteration over {it.kind}")


def assigned_names(fn_node):
    """names assigned in a function body (not descending into nested defs)"""
    out = set()

    class V(ast.NodeVisitor):
        def visit_FunctionDef(self, n):
            out.add(n.name)

        def visit_Lambda(self, n):
            pass

        def visit_ClassDef(self, n):
            out.add(n.name)

        def visit_Name(self, n):
            if isinstance(n.ctx, (ast.Store, ast.Del)):
                out.add(n.id)

        def visit_ExceptHandler(self, n):
            if n.name:
                out.add(n.name)
            self.generic_visit(n)

        def visit_Import(self, n):
            for a in n.names:
                out.add(a.asname or a.name.split(".")[0])

        def visit_ImportFrom(self, n):
            for a in n.names:
                out.add(a.asname or a.name)

    params = {a.arg for a in fn_node.args.posonlyargs + fn_node.args.args + fn_node.args.kwonlyargs}
    if fn_node.args.vararg:
        params.add(fn_node.args.vararg.arg)
    if fn_node.args.kwarg:
        params.add(fn_node.args.kwarg.arg)
    v = V()
    if isinstance(fn_node, ast.Lambda):
        return set()
    nonlocal_names = set()
    for st in fn_node.body:
        if isinstance(st, ast.Nonlocal):
            nonlocal_names.update(st.names)
        v.visit(st)
    return out - params - nonlocal_names
