"""Bounded stand-in (DESIGN 2.5 kind B): the same harness executed natively over an enumerated
input grid derived from the parameter types.  Never counted as proved."""
from __future__ import annotations
import inspect, itertools, math, random, sys
from . import api


def prim_grid():
    from microjs.values import UNDEFINED, NULL
    return [UNDEFINED, NULL, True, False, 0, 1, -1, 2, 3, 5, 7, -2, -3, -4, -7, 1.5, -1.5, 0.5, -0.0, math.nan, math.inf, -math.inf,
            2 ** 31, -(2 ** 31), 2 ** 32, 2 ** 53, 1e21, -1e21, 4294967295, 4294967296.5,
            "", "a", "b", "1", "abc", " 2 ", "-1", "1e3", "0x10", "undefined", "null", "NaN", "Infinity"]


STR_GRID = ["", "a", "b", "ab", "abc", "aaa", "abcabc", "AbC", "ABC", " a b ", "\t\n x \r", "123", "-1", "1.5",
            "undefined", "null", "é", "ÀÉ", " x﻿", "a,b,c", "aXbXc", "x" * 17, "  ", "ǅ", "ß", "İ",
            "0", "$1$&", "a.b", "true"]


def obj_grid():
    from microjs.values import JSObject, JSArray, JSFunction
    a = JSArray()
    a._elements = [1, "x"]
    return [JSObject(), a, (lambda *x: 1)]


def values_for(ty, rng, c):
    n = ty.name
    g = c.grid.get(n)
    if g is not None:
        return g() if callable(g) else g
    if n == "Str":
        return STR_GRID
    if n == "Int":
        lo, hi = ty.kw.get("lo", -5), ty.kw.get("hi", 300)
        cand = sorted({lo, lo + 1, -1, 0, 1, 2, 3, 7, 10, 100, 255, 256, 257, 1000, 65535, 65536, hi - 1, hi})
        return [x for x in cand if lo <= x <= hi]
    if n == "Bool":
        return [False, True]
    if n == "Flt":
        return [0.0, -0.0, 1.0, -1.0, 0.5, 1.5, 2.5, -2.5, 1e21, 1e-7, math.nan, math.inf, -math.inf, 2.0 ** 53, 0.1, 123.456]
    if n == "Num":
        return [0, 1, -1, 2, 255, 256, 2 ** 31, 2 ** 32, -(2 ** 31) - 1, 2 ** 53, 2 ** 53 + 1, 0.0, -0.0, 0.5, 1.5, 2.5, -0.5, -1.5,
                1e21, 1e300, -1e300, 5e-324, math.nan, math.inf, -math.inf, 4294967295.5, -2147483648.5, 3.0, 1e-7]
    if n == "JSPrim":
        return prim_grid()
    if n == "PyVal":
        return [None, 0, 1, 2, 5, 255, 256, 257, 65535, 65536, 70000, -1, 3] + prim_grid()[:4]
    if n == "JSVal":
        return prim_grid() + obj_grid()
    if n == "ValList":
        from microjs.values import UNDEFINED
        return [[], [1], [UNDEFINED, "x"], [0.5, True, "a"], [7, 0, 0, 9, 0, 0, 255], [1, 2, 3, 4, 5, 6, 7, 8]]
    if n == "Obj":
        cls = ty.kw["cls"]
        if cls == "VM":
            from microjs.vm import VM
            return [VM]            # factories: called per case
        if cls == "Compiler":
            from microjs.compiler import Compiler
            return [lambda: Compiler()]
        if cls == "CallFrame":
            from microjs.vm import CallFrame
            from microjs.compiler import CompiledFunction
            from microjs.values import UNDEFINED
            return [lambda: CallFrame(func=CompiledFunction("f", [], b"", [], [], 0), ip=0, bp=0, locals=[], this_value=UNDEFINED)]
        raise KeyError(cls)
    if n == "JSArgs":
        prims = prim_grid() + ([] if c.prim_args else obj_grid())
        out = [()]
        out += [(a,) for a in prims]
        pairs = list(itertools.product(prims, prims))
        out += pairs
        small = prims[:14]
        triples = list(itertools.product(small[:8], small, small[:6]))
        rng.shuffle(triples)
        out += triples[:200]
        return out
    raise KeyError(n)


def run_grid(runner, c: api.Contract, seed=0, budget=4000, findings=(), time_budget_s=60):
    """returns dict(evaluations, distinct, failures=[(inputs, failed names)], skipped)"""
    import time
    rng = random.Random(seed)
    sig = inspect.signature(c.fn)
    names = list(sig.parameters)
    doms = []
    types_ = {}
    for n in names:
        ty = sig.parameters[n].annotation
        if isinstance(ty, str):
            ty = eval(ty, vars(sys.modules[c.module]))
        types_[n] = ty.name
        try:
            doms.append(list(values_for(ty, rng, c)))
        except KeyError:
            return {"evaluations": 0, "distinct": 0, "failures": [], "skipped": f"no grid for type {ty}"}
    total = 1
    for d in doms:
        total *= len(d)
    if total <= budget:
        combos = itertools.product(*doms)
    else:
        def gen():
            for _ in range(budget):
                yield tuple(rng.choice(d) for d in doms)
        combos = gen()
    ev = 0
    seen_out = set()
    failures = []
    known = 0
    t0 = time.time()
    for combo in combos:
        if time.time() - t0 > time_budget_s:
            break
        inputs = {k: (v() if callable(v) and getattr(v, "__name__", "") in ("VM", "<lambda>") and types_[k] == "Obj" else
                      (list(v) if isinstance(v, list) else v)) for k, v in zip(names, combo)}
        try:
            run = runner.run_native(c, inputs)
        except Exception as e:  # noqa
            failures.append((inputs, [f"native-harness-error:{type(e).__name__}"]))
            continue
        if run is None:
            continue
        ev += 1
        seen_out.add(repr(combo)[:120])
        if run.failed:
            fl = [n for n, _ in run.failed]
            if any(api.eval_when(f["when"], inputs, c) for f in findings):
                known += 1
                continue
            failures.append((inputs, fl))
            if len(failures) >= 5:
                break
    return {"evaluations": ev, "distinct": len(seen_out), "failures": failures, "known_hits": known, "exhaustive": total <= budget}
