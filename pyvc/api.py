"""Contract API, *native* side (no z3 import here: contracts and spec functions must be
importable under /venv/bin/python for replays).

A contract is a plain Python function (the harness) over symbolic-or-concrete inputs:

    @contract(id="C16.leaf.charAt", prop="C16", target=closure("microjs.vm", "VM._make_string_method", "charAt"),
              env=("s",), native=lambda s: VM()._make_string_method(s, "charAt"))
    def charAt(s: Str, args: JSArgs):
        r = outcome(REAL, *args)
        e = outcome(ES.charAt, s, args)
        check("post", same_outcome(r, e))

The same harness text is (1) executed symbolically by pyvc over the AST of the *real* target
function (proof obligations = the `check`s, for all inputs), and (2) executed natively on
concrete inputs (replay of counterexamples, per-path cross-check, bounded stand-in).
"""
from __future__ import annotations
import math, itertools, random

REGISTRY = []


class Ty:
    def __init__(self, name, **kw):
        self.name = name
        self.kw = kw

    def __repr__(self):
        return self.name


Str = Ty("Str")
Int = Ty("Int")
Bool = Ty("Bool")
Num = Ty("Num")          # python int or float
Flt = Ty("Flt")
JSVal = Ty("JSVal")      # any JS value (is_js_value)
JSPrim = Ty("JSPrim")    # JS primitive
JSArgs = Ty("JSArgs")    # tuple of JS values, any length
PyVal = Ty("PyVal")      # any Val (incl. None / host transients)
ValList = Ty("ValList")  # a list object holding JS values


def Obj(cls):
    return Ty("Obj", cls=cls)


def IntRange(lo, hi):
    return Ty("Int", lo=lo, hi=hi)


class Target:
    def __init__(self, module, qualname, kind="function"):
        self.module, self.qualname, self.kind = module, qualname, kind

    def __repr__(self):
        return f"{self.module}:{self.qualname}"


def closure(module, outer, inner):
    return Target(module, f"{outer}.<{inner}>", "closure")


def function(module, qualname):
    return Target(module, qualname, "function")


def method(module, qualname):
    return Target(module, qualname, "method")


def opcode(name):
    return Target("microjs.vm", f"VM._execute_opcode[{name}]", "opcode")


class Contract:
    def __init__(self, fn, id, prop, target, env=(), native=None, summaries=None, inline=(), grid=None,
                 bounded_only=False, loop_unroll=0, note="", timeout_ms=10000, cover=True, max_paths=4000,
                 invariants=None, field_types=None, canary=False, expect_refuted=None, self_cls=None, prim_args=True, bind=None, quick=True,
                 heap_inputs=False, unfold_depth=1, prune_ms=0):
        self.prune_ms = prune_ms        # > 0: branch feasibility is checked against the whole path condition (strings included)
        self.quick = quick
        self.unfold_depth = unfold_depth  # definitional unfoldings of recursive ghost functions per application
        self.heap_inputs = heap_inputs  # counter-models rebuild the object graph (own-property dictionaries, prototype links)
        self.prim_args = prim_args
        self.bind = bind or {}
        self.fn, self.id, self.prop, self.target = fn, id, prop, target
        self.env = env                  # names of harness params that are the closure's free variables
        self.native = native            # factory: (**env) -> real callable
        self.summaries = summaries or {}
        self.inline = set(inline)
        self.grid = grid or {}
        self.bounded_only = bounded_only
        self.loop_unroll = loop_unroll
        self.note = note
        self.timeout_ms = timeout_ms
        self.cover = cover
        self.max_paths = max_paths
        self.invariants = invariants or {}
        self.field_types = field_types or {}
        self.canary = canary            # deliberately false contract: must be refuted (soundness guard)
        self.self_cls = self_cls
        self.module = fn.__module__


def register(fn, **kw):
    """register the same harness text for another target (the harness reads REAL / bound names)"""
    c = Contract(fn, **kw)
    REGISTRY.append(c)
    return c


def contract(**kw):
    def deco(fn):
        c = Contract(fn, **kw)
        REGISTRY.append(c)
        fn.__contract__ = c
        return fn
    return deco


# ------------------------------------------------------------------------------------------
# native implementations of the harness vocabulary
# ------------------------------------------------------------------------------------------
class AssumeFailed(Exception):
    pass


class CheckFailed(Exception):
    def __init__(self, name, detail=""):
        super().__init__(name)
        self.name, self.detail = name, detail


class NativeRun:
    """collects check results of one native harness execution"""
    current = None

    def __init__(self):
        self.failed = []
        self.passed = []


def assume(c):
    if not c:
        raise AssumeFailed()


def check(name, c, *detail):
    run = NativeRun.current
    if run is None:
        if not c:
            raise CheckFailed(name, repr(detail))
        return
    (run.passed if c else run.failed).append((name, detail))


def cover(name):
    pass


def outcome(f, *args, **kwargs):
    """('ret', value) or ('raise', exception class name).  Limit errors etc. are ordinary classes here."""
    try:
        return ("ret", f(*args, **kwargs))
    except AssumeFailed:
        raise
    except RecursionError:
        return ("raise", "RecursionError")
    except Exception as e:          # noqa
        return ("raise", type(e).__name__)


def exc_in(o, names):
    return o[0] == "raise" and o[1] in names


def is_number(v):
    return isinstance(v, (int, float)) and not isinstance(v, bool)


GHOST = {}      # native runs: written by recording wrappers that a contract's native factory puts around real callees


def ghost_set(name, value):
    """ghost variable written by callee summaries in proofs, by recording wrappers natively"""
    GHOST[name] = value


def ghost_get(name, default=None):
    return GHOST.get(name, default)


def heap_snapshot():
    """ghost: the heap at this point (frame conditions are proof-only; native runs check the stated values only)"""
    return None


def heap_unchanged(snap, *allowed):
    return True


def dict_after_store(snap, d, key, value):
    return key in d and (d[key] is value or same_value(d[key], value))


def dict_after_remove(snap, d, key):
    return key not in d


def same_elements(a, b):
    """two lists hold the same values in the same order (objects by identity, numbers by value and representation)"""
    return len(a) == len(b) and all((x is y) or (type(x) is type(y) and same_value(x, y)) for x, y in zip(a, b))


def elems_are(lst, ty):
    """representation invariant of a list: every element has the type, e.g. "tuple-of-3-int" (assumed symbolically at
    each read of an element; natively an input that violates it is outside the precondition)"""
    if ty.startswith("tuple-of-") and ty.endswith("-int"):
        n = int(ty[9:-4])
        ok = all(isinstance(x, tuple) and len(x) == n and all(isinstance(i, int) and not isinstance(i, bool) for i in x) for x in lst)
    elif ty == "str":
        ok = all(isinstance(x, str) for x in lst)
    else:
        raise ValueError(ty)
    if not ok:
        raise AssumeFailed()
    return True


def same_ref(a, b):
    """identity of two object references / singletons (None, UNDEFINED, NULL)"""
    return a is b


def same_value(a, b):
    """JS-level sameness of two engine values: numbers by value (int 3 == float 3.0, NaN same as NaN,
    +0 differs from -0), everything else by Python equality of the same type / identity."""
    if is_number(a) and is_number(b):
        if isinstance(a, float) and math.isnan(a):
            return isinstance(b, float) and math.isnan(b)
        if isinstance(b, float) and math.isnan(b):
            return False
        if a == 0 and b == 0:
            return math.copysign(1, a) == math.copysign(1, b)
        return a == b
    if is_number(a) or is_number(b):
        return False
    if isinstance(a, bool) or isinstance(b, bool):
        return isinstance(a, bool) and isinstance(b, bool) and a == b
    if isinstance(a, str) or isinstance(b, str):
        return isinstance(a, str) and isinstance(b, str) and a == b
    return a is b


def same_outcome(r, e):
    if r[0] != e[0]:
        return False
    if r[0] == "raise":
        return r[1] == e[1]
    return same_value(r[1], e[1])


class ESThrow(Exception):
    """raised by spec functions: an ECMAScript throw completion of the named error class"""
    pass


class TypeError_(ESThrow):
    pass


class RangeError_(ESThrow):
    pass


class SyntaxError_(ESThrow):
    pass


class ReferenceError_(ESThrow):
    pass


ES_TO_HOST = {"TypeError_": "JSTypeError", "RangeError_": "JSRangeError", "SyntaxError_": "JSSyntaxError",
              "ReferenceError_": "JSReferenceError"}


def es_outcome(f, *args):
    """outcome of a spec function with ES error classes mapped onto the engine's host exception classes"""
    try:
        return ("ret", f(*args))
    except AssumeFailed:
        raise
    except ESThrow as e:
        return ("raise", ES_TO_HOST[type(e).__name__])


def pure(fn):
    """spec function without side effects: proofs merge its internal paths into one term"""
    return fn


def writes(*fields):
    """loop invariant of a loop whose body writes the named heap fields (e.g. "list.items"): they are havoced at the loop
    head; the invariant states what is known about them, typically with heap_unchanged(loop_entry(), ...)"""
    def deco(fn):
        fn.__writes__ = list(fields)
        return fn
    return deco


def loop_entry():
    """ghost: the heap when the loop was entered (proof-only)"""
    return None


def effectful(fn):
    """callee summary with ghost effects: executed on every call (never merged / cached)"""
    fn.__effectful__ = True
    return fn


def recursive(fn):
    """recursive spec function over the heap: proofs see an uninterpreted function (per heap state) with
    the one-step unfolding of the body assumed at every application; executable natively"""
    return fn


def abstract(uf_name):
    """spec function that proofs treat as an uninterpreted function `uf_name` (executable natively)"""
    def deco(fn):
        fn.__abstract__ = uf_name
        return fn
    return deco


INF = float("inf")
NAN = float("nan")


# ------------------------------------------------------------------------------------------
# known-finding predicates and (de)serialisation of concrete inputs for replay files
# ------------------------------------------------------------------------------------------
def eval_when(expr, inputs, c):
    import sys
    ns = dict(vars(sys.modules[c.module]))
    ns.update(inputs)
    try:
        return bool(eval(expr, ns))
    except AssumeFailed:
        return False
    except Exception:       # noqa: a predicate that cannot be evaluated does not match
        return False


def encode_value(v):
    import math
    from microjs.values import UNDEFINED, NULL, JSArray, JSObject, JSFunction
    if v is UNDEFINED:
        return {"t": "undefined"}
    if v is NULL:
        return {"t": "null"}
    if v is None:
        return {"t": "None"}
    if isinstance(v, bool):
        return {"t": "bool", "v": v}
    if isinstance(v, int):
        return {"t": "int", "v": str(v)}
    if isinstance(v, float):
        return {"t": "float", "v": repr(v)}
    if isinstance(v, str):
        return {"t": "str", "v": v}
    if isinstance(v, (tuple, list)):
        return {"t": "tuple" if isinstance(v, tuple) else "list", "v": [encode_value(x) for x in v]}
    if isinstance(v, JSArray):
        return {"t": "JSArray", "v": [encode_value(x) for x in v._elements]}
    if isinstance(v, JSObject):
        return {"t": type(v).__name__, "props": {k: encode_value(x) for k, x in v._properties.items()}}
    if callable(v):
        return {"t": "callable"}
    return {"t": "opaque", "repr": repr(v)[:100]}


def decode_value(d):
    from microjs import values as V
    t = d["t"]
    if t == "undefined":
        return V.UNDEFINED
    if t == "null":
        return V.NULL
    if t == "None":
        return None
    if t == "bool":
        return d["v"]
    if t == "int":
        return int(d["v"])
    if t == "float":
        return float(d["v"])
    if t == "str":
        return d["v"]
    if t in ("tuple", "list"):
        x = [decode_value(i) for i in d["v"]]
        return tuple(x) if t == "tuple" else x
    if t == "JSArray":
        a = V.JSArray()
        a._elements = [decode_value(i) for i in d["v"]]
        return a
    if t == "callable":
        return lambda *a: V.UNDEFINED
    if t == "JSObject":
        o = V.JSObject()
        for k, x in d.get("props", {}).items():
            o.set(k, decode_value(x))
        return o
    if hasattr(V, t):
        cls = getattr(V, t)
        try:
            return cls(0)
        except Exception:       # noqa
            return V.JSObject()
    raise ValueError(f"cannot decode {d}")
