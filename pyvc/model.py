"""SMT value model shared by the symbolic executor and the contracts.

Val is the dynamic value sort (a JS value or a Python-only transient).  Python ints are
unbounded Ints; Python floats are (kind, real) pairs: kind 0 finite (real value r, +0 when
r == 0), 1 NaN, 2 +inf, 3 -inf, 4 -0.0; float arithmetic is real arithmetic followed by an
uninterpreted rounding function `rnd` (see DESIGN 2.3: machine arithmetic treated as
mathematical + rounding UF).  Strings are z3 Unicode strings (code point sequences, like
Python str).
"""
import z3

FIN, NAN, PINF, NINF, NZERO = 0, 1, 2, 3, 4

_V = z3.Datatype("Val")
_V.declare("VUndef")
_V.declare("VNull")
_V.declare("VNone")
_V.declare("VBool", ("vb", z3.BoolSort()))
_V.declare("VInt", ("vi", z3.IntSort()))
_V.declare("VFlt", ("fk", z3.IntSort()), ("fr", z3.RealSort()))
_V.declare("VStr", ("vs", z3.StringSort()))
_V.declare("VRef", ("cls", z3.IntSort()), ("ref", z3.IntSort()))
Val = _V.create()
ValSeq = z3.SeqSort(Val)
StrSeq = z3.SeqSort(z3.StringSort())

# ---- class table for heap references -------------------------------------------------
# name -> index.  Groups are computed from the real class objects at start-up (see
# pyvc.exec.ClassTable) so that a change of the hierarchy in /repo is picked up.
CLASSES = [
    "JSObject", "JSCallableObject", "JSArray", "JSRegExp", "JSTypedArray", "JSArrayBuffer",
    "JSFunction", "JSBoundMethod", "PyCallable",          # <- JS-visible references end here
    "list", "tuple", "dict", "complex", "CompiledFunction", "ForInIterator", "ForOfIterator",
    "ClosureCell", "CallFrame", "VM", "Context", "Compiler", "object",
    "JSInt32Array", "JSUint32Array", "JSFloat64Array", "JSUint8Array", "JSInt8Array",
    "JSInt16Array", "JSUint16Array", "JSUint8ClampedArray", "JSFloat32Array",
    "RegExp", "MatchResult", "RegexVM", "Lexer", "Token", "bytes", "bytearray", "LoopContext",
    "TryContext", "RegexParser", "JSError",
]
CLS = {n: i for i, n in enumerate(CLASSES)}

JS_REF_CLASSES = [
    "JSObject", "JSCallableObject", "JSArray", "JSRegExp", "JSTypedArray", "JSArrayBuffer",
    "JSFunction", "JSBoundMethod", "PyCallable",
    "JSInt32Array", "JSUint32Array", "JSFloat64Array", "JSUint8Array", "JSInt8Array",
    "JSInt16Array", "JSUint16Array", "JSUint8ClampedArray", "JSFloat32Array",
]

# ---- uninterpreted functions ----------------------------------------------------------
R, I, B, S = z3.RealSort(), z3.IntSort(), z3.BoolSort(), z3.StringSort()
rnd = z3.Function("rnd", R, R)               # round-to-nearest-even to binary64 (finite range)
rnd32 = z3.Function("rnd32", R, R)           # round to binary32
pow2 = z3.Function("pow2", I, I)             # 2**k for 0 <= k <= 63 (axiomatised pointwise)
str2num = z3.Function("str2num", S, Val)     # ES StringToNumber (shared abstraction)
num2str_k = z3.Function("num2str", I, R, S)  # ES Number::toString of a float (kind, real)
int2str = z3.Function("int2str", I, S)       # decimal text of an integer
py_lower = z3.Function("py_lower", S, S)
py_upper = z3.Function("py_upper", S, S)
py_strip = z3.Function("py_strip", S, S)
py_lstrip = z3.Function("py_lstrip", S, S)
py_rstrip = z3.Function("py_rstrip", S, S)
uf_band = z3.Function("band32", I, I, I)     # bitwise ops on int32/uint32 *values* (see sym.py)
uf_bor = z3.Function("bor32", I, I, I)
uf_bxor = z3.Function("bxor32", I, I, I)

OVF = z3.RealVal("179769313486231580793728971405303415079934132710037826936173778980444968292764750946649017977587207096330286416692887910946555547851940402630657488671505820681908902000708383676273854845817711531764475730270069855571366959622842914819860834936475292719074168444365510704342711559699508093042880177904174497792")  # 2**1024 - 2**970: round-to-inf boundary
MAXDBL = z3.RealVal("179769313486231570814527423731704356798070567525844996598917476803157260780028538760589558632766878171540458953514382464234321326889464182768467546703537516986049910576551282076245490090389328944075868508455133942304583236903222948165808559332123348274797826204144723168738177180919299881250404026184124858368")
TWO53 = z3.IntVal(2 ** 53)


def flt_wf(fk, fr):
    return z3.And(fk >= 0, fk <= 4, z3.Implies(fk != FIN, fr == 0))


def val_wf(v):
    """Well-formedness of a Val term (type invariant of the encoding, not of JS)."""
    return z3.And(
        z3.Implies(Val.is_VStr(v), z3.Length(Val.vs(v)) <= 2 ** 32),
        z3.Implies(Val.is_VFlt(v), flt_wf(Val.fk(v), Val.fr(v))),
        z3.Implies(Val.is_VRef(v), z3.And(Val.cls(v) >= 0, Val.cls(v) < len(CLASSES), Val.ref(v) >= 0)),
    )


def cls_in(v, names):
    return z3.And(Val.is_VRef(v), z3.Or([Val.cls(v) == CLS[n] for n in names]))


def is_js_value(v):
    """DESIGN C03: the values a script may hold."""
    return z3.And(val_wf(v), z3.Not(Val.is_VNone(v)),
                  z3.Implies(Val.is_VRef(v), z3.Or([Val.cls(v) == CLS[n] for n in JS_REF_CLASSES])))
