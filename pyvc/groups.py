"""Registry of non-contract obligation groups: structural (K3), exhaustion (K4), scheme (K5), relational
(K2) and bounded (B) checks implemented as Python functions returning a list of obligation dicts:
  {"id": str, "status": "proved"|"refuted"|"unknown", "kind": "K2|K3|K4|K5|B", "detail": str,
   "witness": optional str (a failing input / script), "confirmed": bool, "domain": optional int,
   "finding_key": optional str (stable key used by known_findings.json)}"""
REGISTRY = []


class Group:
    def __init__(self, fn, id, prop, kind, functions=(), note=""):
        self.fn, self.id, self.prop, self.kind, self.functions, self.note = fn, id, prop, kind, functions, note


def group(**kw):
    def deco(fn):
        REGISTRY.append(Group(fn, **kw))
        return fn
    return deco


def ob(id, ok, kind, detail="", witness=None, confirmed=None, domain=None, key=None, unknown=False):
    d = {"id": id, "status": "unknown" if unknown else ("proved" if ok else "refuted"), "kind": kind, "detail": detail}
    if witness is not None:
        d["witness"] = witness
    if confirmed is not None:
        d["confirmed"] = confirmed
    if domain is not None:
        d["domain"] = domain
    d["finding_key"] = key or id
    return d
