"""Registry of non-contract obligation groups: structural (K3), exhaustion (K4), scheme (K5), relational
(K2) and bounded (B) checks implemented as Python functions returning a list of obligation dicts:
  {"id": str, "status": "proved"|"refuted"|"unknown", "kind": "K2|K3|K4|K5|B", "detail": str,
   "witness": optional str (a failing input / script), "confirmed": bool, "domain": optional int,
   "finding_key": optional str (stable key used by known_findings.json)}"""
REGISTRY = []


class Group:
    def __init__(self, fn, id, prop, kind, functions=(), note=""):
        self.fn, self.id, self.prop, self.kind, self.functions, self.note = fn, id, prop, kind, functions, note


def group(**kw):
    def deco(fn):
        REGISTRY.append(Group(fn, **kw))
        return fn
    return deco


def ob(id, ok, kind, detail="", witness=None, confirmed=None, domain=None, key=None, unknown=False):
    d = {"id": id, "status": "unknown" if unknown else ("proved" if ok else "refuted"), "kind": kind, "detail": detail}
    if witness is not None:
        d["witness"] = witness
    if confirmed is not None:
        d["confirmed"] = confirmed
    if domain is not None:
        d["domain"] = domain
    d["finding_key"] = key or id
    return d


def register_probes(prop, probes, functions=("microjs.context:Context.eval",)):
    """fixed probes of a property: (name, program or callable(Context class) -> value, ECMAScript result).  Obligation ids
    <prop>.bounded.probe.<name>, finding keys <prop>.probe.<name> (known findings are matched by these keys)"""
    def run(tier="quick", seed=0):
        from microjs import Context
        out = []
        for name, src, exp in probes:
            try:
                got = src(Context) if callable(src) else Context(time_limit=10).eval(src)
            except BaseException as e:  # noqa
                got = f"!{type(e).__name__}: {e}"[:200]
            ok = got == exp and type(got) is type(exp) or (isinstance(exp, (int, float)) and not isinstance(exp, bool) and isinstance(got, (int, float)) and not isinstance(got, bool) and got == exp)
            text = src if isinstance(src, str) else (src.__doc__ or name)
            out.append(ob(f"{prop}.bounded.probe.{name}", ok, "B", f"{text}  =>  {got!r}" + ("" if ok else f"  (ES: {exp!r})"),
                          witness=None if ok else text, confirmed=None if ok else True, domain=1, key=f"{prop}.probe.{name}"))
        return out
    run.__name__ = f"{prop.lower()}_probes"
    return group(id=f"{prop}.bounded.probes", prop=prop, kind="B", functions=list(functions))(run)
