"""Library models (DESIGN 2.4): value semantics and exception rows of the CPython operations
used by the repository.  Each row is cross-checked against the running CPython by the
per-path native replay (run.py) and by selfcheck.py."""
from __future__ import annotations
import z3
from . import model as M
from .model import Val, ValSeq, FIN, NAN, PINF, NINF, NZERO, CLS, CLASSES
from .engine import (SV, PyExc, Unsupported, s_int, s_bool, s_str, s_float, s_val, s_seq, s_tuple, s_ref,
                     s_py, S_NONE, lift, const_float, simp, conc_int, conc_str, conc_bool)
from .interp import Interp, ClassVal, FuncVal, Builtin, BoundModel


def trunc_real(r):
    """truncation toward zero of a real"""
    return z3.If(r >= 0, z3.ToInt(r), -z3.ToInt(-r))


class Lib(Interp):
    # ---------------------------------------------------------------- conversions
    def b_int(self, args, kwargs):
        p = self.p
        if not args:
            return s_int(0)
        v = self.refine(args[0])
        if len(args) > 1:
            base = self.refine(args[1])
            if v.kind != "str":
                raise PyExc("TypeError", None, "int() can't convert non-string with explicit base")
            f = z3.Function("py_int_base_ok", z3.StringSort(), z3.IntSort(), z3.BoolSort())
            g = z3.Function("py_int_base", z3.StringSort(), z3.IntSort(), z3.IntSort())
            p.uf_used.add("py_int_base")
            if p.fork(z3.Not(f(v.t, base.t))):
                raise PyExc("ValueError", None, "invalid literal for int() with base")
            return s_int(g(v.t, base.t))
        if v.kind == "int":
            return v
        if v.kind == "bool":
            return self.num(v)
        if v.kind == "float":
            if p.fork(v.k == NAN):
                raise PyExc("ValueError", None, "cannot convert float NaN to integer")
            if p.fork(z3.Or(v.k == PINF, v.k == NINF)):
                raise PyExc("OverflowError", None, "cannot convert float infinity to integer")
            return s_int(simp(trunc_real(v.r)))
        if v.kind == "str":
            cs = conc_str(v.t)
            if cs is not None:
                try:
                    return s_int(int(cs))
                except ValueError:
                    raise PyExc("ValueError", None, "invalid literal for int()")
            ok = z3.Function("py_int_ok", z3.StringSort(), z3.BoolSort())
            val = z3.Function("py_int", z3.StringSort(), z3.IntSort())
            p.uf_used.add("py_int")
            if p.fork(z3.Not(ok(v.t))):
                raise PyExc("ValueError", None, "invalid literal for int() with base 10")
            # facts the callers rely on: plain ASCII digit strings (<= 4300 digits) convert
            d = z3.StrToInt(v.t)      # -1 unless all ASCII digits
            p.assume(z3.Implies(z3.And(d >= 0, z3.Length(v.t) <= 4300), z3.And(ok(v.t), val(v.t) == d)))
            p.assume(z3.Implies(ok(v.t), z3.Length(v.t) > 0))
            return s_int(val(v.t))
        raise PyExc("TypeError", None, f"int() argument must be a string or a real number, not {self.kind_name(v)}")

    def kind_name(self, v):
        return v.kind

    def b_float(self, args, kwargs):
        p = self.p
        if not args:
            return s_float(FIN, 0)
        v = self.refine(args[0])
        if v.kind == "float":
            return v
        if v.kind in ("int", "bool"):
            return self.to_float(self.num(v))
        if v.kind == "str":
            cs = conc_str(v.t)
            if cs is not None:
                try:
                    return const_float(float(cs))
                except ValueError:
                    raise PyExc("ValueError", None, "could not convert string to float")
            ok = z3.Function("py_float_ok", z3.StringSort(), z3.BoolSort())
            fk = z3.Function("py_float_k", z3.StringSort(), z3.IntSort())
            fr = z3.Function("py_float_r", z3.StringSort(), z3.RealSort())
            p.uf_used.add("py_float")
            if p.fork(z3.Not(ok(v.t))):
                raise PyExc("ValueError", None, "could not convert string to float")
            p.assume(M.flt_wf(fk(v.t), fr(v.t)))
            return SV("float", k=fk(v.t), r=fr(v.t))
        raise PyExc("TypeError", None, f"float() argument must be a string or a real number, not {v.kind}")

    def b_len(self, args, kwargs):
        v = self.refine(args[0])
        if v.kind == "str":
            return s_int(z3.Length(v.t))
        if v.kind == "seq":
            return s_int(z3.Length(v.t))
        if v.kind == "tuple":
            return s_int(len(v.items))
        if v.kind == "dict":
            return s_int(len(v.py))
        if v.kind == "py" and isinstance(v.py, (list, tuple, dict, set, frozenset, str, bytes)):
            return s_int(len(v.py))
        if v.kind == "ref":
            cn = self.static_cls(v)
            if cn in ("list", "tuple", "bytes", "bytearray"):
                return s_int(z3.Length(self.p.hread("list.items", v.ref)))
            if cn == "dict":
                return s_int(z3.Length(self.p.hread("dict.order", v.ref)))
            m = self.find_method(cn, "__len__") if cn in self.ct.real else None
            if m:
                return self.call_func(FuncVal(m[0], [], m[1], f"{m[1].name}:{m[2]}.__len__", self_obj=v), [], {})
        raise PyExc("TypeError", None, f"object of type '{v.kind}' has no len()")

    def isinstance_cond(self, v: SV, cv):
        """z3 Bool for isinstance(v, cls) without forking on v"""
        names = []
        if cv.kind == "tuple":
            return z3.Or([self.isinstance_cond(v, c) for c in cv.items] + [z3.BoolVal(False)])
        if cv.kind != "class":
            raise Unsupported("isinstance second argument")
        n = cv.py.name
        k = v.kind
        if k == "val":
            t = v.t
            if n == "str":
                return Val.is_VStr(t)
            if n == "int":
                return z3.Or(Val.is_VInt(t), Val.is_VBool(t))
            if n == "bool":
                return Val.is_VBool(t)
            if n == "float":
                return Val.is_VFlt(t)
            if n == "JSUndefined":
                return Val.is_VUndef(t)
            if n == "JSNull":
                return Val.is_VNull(t)
            if n == "object":
                return z3.BoolVal(True)
            if n in self.ct.real or n in CLS:
                return M.cls_in(t, self.ct.subclasses_of(n))
            raise Unsupported(f"isinstance {n}")
        static = {"str": ["str"], "int": ["int", "bool"], "bool": ["bool"], "float": ["float"], "object": None}
        if n in static:
            return z3.BoolVal(static[n] is None or k in static[n])
        if n in ("JSUndefined", "JSNull"):
            return z3.BoolVal(False)
        if k == "ref":
            return z3.Or([v.cls == CLS[c] for c in self.ct.subclasses_of(n)] + [z3.BoolVal(False)])
        if k == "tuple" or k == "seq":
            return z3.BoolVal(n == "tuple")
        if k == "dict":
            return z3.BoolVal(n == "dict")
        if k == "func":
            return z3.BoolVal(False)
        if k == "excobj":
            return z3.BoolVal(n in self.exc_hier.get(v.py, [v.py]))
        return z3.BoolVal(False)

    def b_isinstance(self, args, kwargs):
        v = args[0]
        if v.kind == "val":
            t = simp(v.t)
            if z3.is_app(t) and t.decl().kind() == z3.Z3_OP_DT_CONSTRUCTOR:
                v2 = self.refine(v)
                if v2.kind != "val":
                    v = v2
        return s_bool(simp(self.isinstance_cond(v, args[1])))

    def callable_cond(self, v: SV):
        if v.kind == "val":
            return M.cls_in(v.t, self.ct.callable_classes())
        if v.kind == "ref":
            return z3.Or([v.cls == CLS[c] for c in self.ct.callable_classes()])
        if v.kind in ("func", "class"):
            return z3.BoolVal(True)
        return z3.BoolVal(False)

    def b_callable(self, args, kwargs):
        return s_bool(simp(self.callable_cond(args[0])))

    def hasattr_cond(self, v: SV, name: str):
        """classes whose instances have the attribute (class attribute, method, or set in __init__)"""
        yes = [c for c in CLASSES if name in self.known_fields.get(c, ()) or self.class_has(c, name)]
        maybe = [c for c in CLASSES if name in self.optional_fields.get(c, {})]
        if v.kind == "val":
            t = v.t
            cond = M.cls_in(t, yes) if yes else z3.BoolVal(False)
            for c in maybe:
                cond = z3.Or(cond, z3.And(Val.is_VRef(t), Val.cls(t) == CLS[c], self.has_field(SV("ref", cls=Val.cls(t), ref=Val.ref(t)), name)))
            return cond
        if v.kind == "ref":
            cond = z3.Or([v.cls == CLS[c] for c in yes] + [z3.BoolVal(False)])
            for c in maybe:
                cond = z3.Or(cond, z3.And(v.cls == CLS[c], self.has_field(v, name)))
            return cond
        if v.kind in ("str", "int", "float", "bool", "none", "tuple", "seq"):
            return z3.BoolVal(False) if not name.startswith("__") else self._unsup("hasattr dunder")
        raise Unsupported(f"hasattr on {v.kind}")

    def _unsup(self, m):
        raise Unsupported(m)

    def class_has(self, c, name):
        real = self.ct.real.get(c)
        return isinstance(real, type) and c not in ("list", "tuple", "dict", "complex", "object", "bytes", "bytearray") and hasattr(real, name)

    def b_hasattr(self, args, kwargs):
        n = conc_str(self.refine(args[1]).t) if self.refine(args[1]).kind == "str" else None
        if n is None:
            raise Unsupported("hasattr with a non-literal name")
        return s_bool(simp(self.hasattr_cond(args[0], n)))

    def b_getattr(self, args, kwargs):
        nm = self.refine(args[1])
        n = conc_str(nm.t) if nm.kind == "str" else None
        if n is None:
            raise Unsupported("getattr with a non-literal name")
        obj = args[0]
        if len(args) > 2:
            c = self.hasattr_cond(obj, n)
            if self.p.fork(c):
                return self.getattr(obj, n)
            return args[2]
        return self.getattr(obj, n)

    def b_setattr(self, args, kwargs):
        nm = self.refine(args[1])
        n = conc_str(nm.t) if nm.kind == "str" else None
        if n is None:
            raise Unsupported("setattr with a non-literal name")
        self.setattr(args[0], n, args[2])
        return S_NONE

    def b_abs(self, args, kwargs):
        v = self.num(args[0])
        if v.kind == "int":
            return s_int(z3.If(v.t < 0, -v.t, v.t))
        k = z3.If(v.k == NINF, z3.IntVal(PINF), z3.If(v.k == NZERO, z3.IntVal(FIN), v.k))
        return SV("float", k=simp(k), r=simp(z3.If(v.r < 0, -v.r, v.r)))

    def _minmax(self, args, kwargs, is_min):
        p = self.p
        if len(args) == 1:
            a = self.refine(args[0])
            if a.kind == "tuple":
                items = a.items
            elif a.kind == "ref" and self.static_cls(a) in ("list", "tuple"):
                t = p.hread("list.items", a.ref)
                n = conc_int(z3.Length(t))
                if n is None:
                    raise Unsupported("min/max over symbolic-length list")
                items = [s_val(simp(t[i])) for i in range(n)]
            else:
                raise Unsupported("min/max over iterable")
            if not items:
                raise PyExc("ValueError", None, "min()/max() arg is an empty sequence")
        else:
            items = list(args)
        best = items[0]
        self.num(best)
        if all(i.kind == "int" for i in items):
            t = items[0].t
            for x in items[1:]:
                t = z3.If(x.t < t, x.t, t) if is_min else z3.If(x.t > t, x.t, t)
            return s_int(simp(t))
        for x in items[1:]:
            c = self.compare("<" if is_min else ">", x, best)
            if p.fork(c.t):
                best = x
        return best

    def b_min(self, args, kwargs):
        return self._minmax(args, kwargs, True)

    def b_max(self, args, kwargs):
        return self._minmax(args, kwargs, False)

    def b_range(self, args, kwargs):
        vals = []
        for a in args:
            v = self.refine(a)
            if v.kind == "bool":
                v = self.num(v)
            if v.kind != "int":
                raise PyExc("TypeError", None, f"'{v.kind}' object cannot be interpreted as an integer")
            vals.append(v)
        if len(vals) == 1:
            lo, hi, st = s_int(0), vals[0], s_int(1)
        elif len(vals) == 2:
            lo, hi, st = vals[0], vals[1], s_int(1)
        else:
            lo, hi, st = vals
            if self.p.fork(st.t == 0):
                raise PyExc("ValueError", None, "range() arg 3 must not be zero")
        return SV("range", items=[lo, hi, st])

    def b_enumerate(self, args, kwargs):
        start = args[1] if len(args) > 1 else kwargs.get("start", s_int(0))
        return SV("enum", items=[args[0], self.refine(start)])

    def b_reversed(self, args, kwargs):
        a = self.refine(args[0])
        if a.kind == "tuple":
            return s_tuple(list(reversed(a.items)))
        if a.kind == "ref" and self.static_cls(a) in ("list", "tuple"):
            t = self.p.hread("list.items", a.ref)
            n = conc_int(z3.Length(t))
            if n is not None:
                return s_tuple([s_val(simp(t[i])) for i in reversed(range(n))])
        raise Unsupported("reversed of symbolic-length sequence")

    def b_ord(self, args, kwargs):
        v = self.refine(args[0])
        if v.kind != "str":
            raise PyExc("TypeError", None, "ord() expected string")
        if v.extra != "char" and self.p.fork(z3.Length(v.t) != 1):
            raise PyExc("TypeError", None, "ord() expected a character")
        return s_int(z3.StrToCode(v.t))

    def b_chr(self, args, kwargs):
        v = self.refine(args[0])
        if v.kind == "bool":
            v = self.num(v)
        if v.kind != "int":
            raise PyExc("TypeError", None, "an integer is required")
        if self.p.fork(z3.Or(v.t < 0, v.t > 0x10FFFF)):
            raise PyExc("ValueError", None, "chr() arg not in range(0x110000)")
        if self.p.fork(v.t > 0x2FFFF):
            raise Unsupported("code point beyond the solver's alphabet")
        return s_str(z3.StrFromCode(v.t))

    def b_repr(self, args, kwargs):
        v = self.refine(args[0])
        if v.kind == "float":
            self.p.uf_used.add("pyfloat_repr")
            f = z3.Function("pyfloat_repr", z3.IntSort(), z3.RealSort(), z3.StringSort())
            return s_str(f(v.k, v.r))
        if v.kind == "int":
            return self.py_str(v)
        if v.kind == "ref":
            # the text of an object's repr is left uninterpreted (a function of the object's class and identity), as in py_str
            self.p.uf_used.add("obj_repr")
            f = z3.Function("obj_repr", z3.IntSort(), z3.IntSort(), z3.StringSort())
            return s_str(f(v.cls, v.ref))
        raise Unsupported(f"repr of {v.kind}")

    def b_list(self, args, kwargs):
        if not args:
            return self.new_list(z3.Empty(ValSeq))
        a = self.refine(args[0])
        if a.kind in ("tuple", "seq"):
            return self.new_list(self.as_seq(a))
        if a.kind == "ref" and self.static_cls(a) in ("list", "tuple"):
            return self.new_list(self.p.hread("list.items", a.ref))
        if a.kind == "str":
            c = conc_str(a.t)
            if c is not None:
                return self.new_list(self.seq_of([s_str(ch) for ch in c]))
            out = self.p.fresh(ValSeq, "chars")
            j = z3.Int("j!chars")
            self.p.assume(z3.Length(out) == z3.Length(a.t))
            self.p.assume(z3.ForAll([j], z3.Implies(z3.And(j >= 0, j < z3.Length(out)),
                                                   out[j] == Val.VStr(z3.SubString(a.t, j, 1)))))
            return self.new_list(out)
        raise Unsupported(f"list() of {a.kind}")

    def b_bytes(self, args, kwargs):
        p = self.p
        if not args:
            r = p.alloc("bytes")
            p.hwrite("list.items", r.ref, z3.Empty(ValSeq))
            return r
        a = self.refine(args[0])
        if a.kind == "ref" and self.static_cls(a) in ("list", "tuple", "bytearray", "bytes"):
            t = p.hread("list.items", a.ref)
            # ValueError unless every element is an int in range(256)
            j = p.fresh(z3.IntSort(), "jb")
            bad = z3.And(j >= 0, j < z3.Length(t), z3.Not(z3.And(Val.is_VInt(t[j]), Val.vi(t[j]) >= 0, Val.vi(t[j]) <= 255)))
            if p.fork(bad):
                raise PyExc("ValueError", None, "bytes must be in range(0, 256)")
            r = p.alloc("bytes")
            p.hwrite("list.items", r.ref, t)
            return r
        raise Unsupported("bytes() of this kind")

    def b_bytearray(self, args, kwargs):
        p = self.p
        r = p.alloc("bytearray")
        if not args:
            p.hwrite("list.items", r.ref, z3.Empty(ValSeq))
            return r
        a = self.refine(args[0])
        if a.kind == "int":
            if p.fork(a.t < 0):
                raise PyExc("ValueError", None, "negative count")
            out = p.fresh(ValSeq, "zeros")
            j = z3.Int("j!z")
            p.assume(z3.Length(out) == a.t)
            p.assume(z3.ForAll([j], z3.Implies(z3.And(j >= 0, j < a.t), out[j] == Val.VInt(0))))
            p.hwrite("list.items", r.ref, out)
            return r
        raise Unsupported("bytearray() of this kind")

    def b_round(self, args, kwargs):
        v = self.num(args[0])
        if len(args) > 1:
            raise Unsupported("round with ndigits")
        if v.kind == "int":
            return v
        p = self.p
        if p.fork(v.k == NAN):
            raise PyExc("ValueError", None, "cannot convert float NaN to integer")
        if p.fork(z3.Or(v.k == PINF, v.k == NINF)):
            raise PyExc("OverflowError", None, "cannot convert float infinity to integer")
        fl = z3.ToInt(v.r)
        frac = v.r - z3.ToReal(fl)
        out = z3.If(frac < 0.5, fl, z3.If(frac > 0.5, fl + 1, z3.If(fl % 2 == 0, fl, fl + 1)))
        return s_int(simp(out))

    def b_print(self, args, kwargs):
        return S_NONE

    def b_id(self, args, kwargs):
        raise Unsupported("id()")

    def b_int_from_bytes(self, args, kwargs):
        raise Unsupported("int.from_bytes")

    # ---------------------------------------------------------------- math / time
    def m_generic(self, name):
        def f(args, kwargs):
            raise Unsupported(f"math.{name}")
        return f

    def _mfloat(self, v: SV) -> SV:
        v = self.num(v)
        return self.to_float(v)

    def m_isnan(self, args, kwargs):
        v = self.num(args[0])
        return s_bool(z3.BoolVal(False)) if v.kind == "int" else s_bool(v.k == NAN)

    def m_isinf(self, args, kwargs):
        v = self.num(args[0])
        return s_bool(z3.BoolVal(False)) if v.kind == "int" else s_bool(z3.Or(v.k == PINF, v.k == NINF))

    def m_isfinite(self, args, kwargs):
        v = self.num(args[0])
        return s_bool(z3.BoolVal(True)) if v.kind == "int" else s_bool(z3.Or(v.k == FIN, v.k == NZERO))

    def _floorlike(self, args, fn):
        v = self.num(args[0])
        if v.kind == "int":
            return v
        p = self.p
        if p.fork(v.k == NAN):
            raise PyExc("ValueError", None, "cannot convert float NaN to integer")
        if p.fork(z3.Or(v.k == PINF, v.k == NINF)):
            raise PyExc("OverflowError", None, "cannot convert float infinity to integer")
        return s_int(simp(fn(v.r)))

    def m_floor(self, args, kwargs):
        return self._floorlike(args, lambda r: z3.ToInt(r))

    def m_ceil(self, args, kwargs):
        return self._floorlike(args, lambda r: -z3.ToInt(-r))

    def m_trunc(self, args, kwargs):
        return self._floorlike(args, trunc_real)

    def m_copysign(self, args, kwargs):
        a, b = self._mfloat(args[0]), self._mfloat(args[1])
        p = self.p
        # sign of b (NaN sign: treated as positive; CPython keeps the sign bit - not used by the repo)
        neg = self.is_neg(b)
        mag_r = z3.If(a.r < 0, -a.r, a.r)
        k = z3.If(a.k == NAN, z3.IntVal(NAN),
                  z3.If(z3.Or(a.k == PINF, a.k == NINF), z3.If(neg, z3.IntVal(NINF), z3.IntVal(PINF)),
                        z3.If(z3.Or(a.k == NZERO, z3.And(a.k == FIN, a.r == 0)), z3.If(neg, z3.IntVal(NZERO), z3.IntVal(FIN)),
                              z3.IntVal(FIN))))
        return SV("float", k=simp(k), r=simp(z3.If(neg, -mag_r, mag_r)))

    def m_fmod(self, args, kwargs):
        """C fmod: exact remainder with the sign of the dividend; ValueError for inf % x and x % 0"""
        a, b = self._mfloat(args[0]), self._mfloat(args[1])
        p = self.p
        if p.fork(z3.Or(a.k == NAN, b.k == NAN)):
            return s_float(NAN, 0)
        if p.fork(z3.Or(self._inf(a), self.is_zero(b))):
            raise PyExc("ValueError", None, "math domain error")
        if p.fork(self._inf(b)):
            return a
        q = trunc_real(a.r / b.r)
        x = simp(a.r - b.r * z3.ToReal(q))
        zk = z3.If(self.is_neg(a), z3.IntVal(NZERO), z3.IntVal(FIN))
        if p.fork(x == 0):
            return SV("float", k=simp(zk), r=z3.RealVal(0))
        return SV("float", k=z3.IntVal(FIN), r=x)      # fmod is exact in binary64

    def m_fabs(self, args, kwargs):
        return self.b_abs([self._mfloat(args[0])], {})

    def _uf_math(self, name, args, domain_error=None, overflow=False, nargs=1):
        """libm function as an uninterpreted function with exact exception rows"""
        p = self.p
        fs = [self._mfloat(a) for a in args[:nargs]]
        if domain_error is not None:
            c = domain_error(*fs)
            if p.fork(c):
                raise PyExc("ValueError", None, "math domain error")
        sorts = []
        targs = []
        for f in fs:
            sorts += [z3.IntSort(), z3.RealSort()]
            targs += [f.k, f.r]
        if overflow:
            ovf = z3.Function(f"m_{name}_overflows", *sorts, z3.BoolSort())
            fin = z3.And([z3.Or(f.k == FIN, f.k == NZERO) for f in fs])
            if p.fork(z3.And(fin, ovf(*targs))):
                raise PyExc("OverflowError", None, "math range error")
        fk = z3.Function(f"m_{name}_k", *sorts, z3.IntSort())
        fr = z3.Function(f"m_{name}_r", *sorts, z3.RealSort())
        p.uf_used.add("math." + name)
        k, r = fk(*targs), fr(*targs)
        p.assume(M.flt_wf(k, r))
        return SV("float", k=k, r=r)

    def _inf(self, f):
        return z3.Or(f.k == PINF, f.k == NINF)

    def m_sqrt(self, a, k):
        return self._uf_math("sqrt", a, lambda x: z3.Or(x.k == NINF, z3.And(x.k == FIN, x.r < 0)))

    def m_sin(self, a, k):
        return self._uf_math("sin", a, lambda x: self._inf(x))

    def m_cos(self, a, k):
        return self._uf_math("cos", a, lambda x: self._inf(x))

    def m_tan(self, a, k):
        return self._uf_math("tan", a, lambda x: self._inf(x))

    def m_asin(self, a, k):
        return self._uf_math("asin", a, lambda x: z3.Or(self._inf(x), z3.And(x.k == FIN, z3.Or(x.r > 1, x.r < -1))))

    def m_acos(self, a, k):
        return self._uf_math("acos", a, lambda x: z3.Or(self._inf(x), z3.And(x.k == FIN, z3.Or(x.r > 1, x.r < -1))))

    def m_atan(self, a, k):
        return self._uf_math("atan", a)

    def m_atan2(self, a, k):
        return self._uf_math("atan2", a, nargs=2)

    def m_log(self, a, k):
        if len(a) > 1:
            raise Unsupported("math.log with base")
        v = self.num(a[0])
        if v.kind == "int":
            if self.p.fork(v.t <= 0):
                raise PyExc("ValueError", None, "math domain error")
            f = z3.Function("m_log_int", z3.IntSort(), z3.RealSort())
            self.p.uf_used.add("math.log")
            return s_float(FIN, f(v.t))
        return self._uf_math("log", a, lambda x: z3.Or(x.k == NINF, x.k == NZERO, z3.And(x.k == FIN, x.r <= 0)))

    def m_log2(self, a, k):
        return self._uf_math("log2", a, lambda x: z3.Or(x.k == NINF, x.k == NZERO, z3.And(x.k == FIN, x.r <= 0)))

    def m_log10(self, a, k):
        return self._uf_math("log10", a, lambda x: z3.Or(x.k == NINF, x.k == NZERO, z3.And(x.k == FIN, x.r <= 0)))

    def m_log1p(self, a, k):
        return self._uf_math("log1p", a, lambda x: z3.Or(x.k == NINF, z3.And(x.k == FIN, x.r <= -1)))

    def m_exp(self, a, k):
        return self._uf_math("exp", a, overflow=True)

    def m_expm1(self, a, k):
        return self._uf_math("expm1", a, overflow=True)

    def m_pow(self, a, k):
        x, y = self._mfloat(a[0]), self._mfloat(a[1])
        dom = z3.Or(z3.And(self.is_zero(x), z3.Or(y.k == NINF, z3.And(y.k == FIN, y.r < 0)) if False else z3.And(y.k == FIN, y.r < 0)),
                    z3.And(x.k == FIN, x.r < 0, y.k == FIN, z3.Not(z3.IsInt(y.r))))
        return self._uf_math("pow", a, lambda *_: dom, overflow=True, nargs=2)

    def m_hypot(self, a, k):
        if len(a) == 2:
            return self._uf_math("hypot", a, overflow=True, nargs=2)
        raise Unsupported("math.hypot arity")

    def t_monotonic(self, args, kwargs):
        """monotone clock: each reading is >= the previous one"""
        p = self.p
        prev = self.ghost.get("clock")
        now = p.fresh(z3.RealSort(), "now")
        p.assume(now >= 0)
        if prev is not None:
            p.assume(now >= prev)
        self.ghost["clock"] = now
        self.ghost.setdefault("clock_reads", []).append(now)
        return s_float(FIN, now)

    def t_time(self, args, kwargs):
        return self.t_monotonic(args, kwargs)

    # ---------------------------------------------------------------- methods of modelled types
    def call_model_method(self, recv: SV, name: str, args, kwargs) -> SV:
        k = recv.kind
        if k == "str":
            return self.str_method(recv, name, args, kwargs)
        if k == "float":
            if name == "is_integer":
                return s_bool(z3.And(z3.Or(recv.k == FIN, recv.k == NZERO), z3.IsInt(recv.r)))
        if k == "int":
            if name == "is_integer":
                return s_bool(True)
            if name == "to_bytes":
                raise Unsupported("int.to_bytes")
        if k == "dict":
            return self.cdict_method(recv, name, args, kwargs)
        if k in ("tuple", "seq"):
            raise Unsupported(f"tuple.{name}")
        if k == "ref":
            cn = self.static_cls(recv)
            if cn in ("list", "bytearray"):
                return self.list_method(recv, name, args, kwargs)
            if cn == "dict":
                return self.hdict_method(recv, name, args, kwargs)
        raise Unsupported(f"method {name} of {k}")

    def cdict_method(self, d: SV, name, args, kwargs):
        if name == "get":
            key = self.refine(args[0])
            default = args[1] if len(args) > 1 else S_NONE
            if key.kind == "str":
                cs = conc_str(key.t)
                if cs is not None:
                    return d.py.get(cs, default)
                # symbolic key against a concrete table: fork over the keys
                keys = [kk for kk in d.py if isinstance(kk, str)]
                i = self.p.choose([key.t == z3.StringVal(kk) for kk in keys] + [z3.BoolVal(True)])
                return d.py[keys[i]] if i < len(keys) else default
            c = self.concrete_key(key)
            return d.py.get(c, default)
        if name == "keys":
            return s_py(list(d.py.keys()))
        if name == "values":
            return s_tuple(list(d.py.values()))
        if name == "items":
            return s_tuple([s_tuple([lift(a), b]) for a, b in d.py.items()])
        raise Unsupported(f"dict.{name} (concrete)")

    def hdict_method(self, d: SV, name, args, kwargs):
        p = self.p
        if name == "get":
            key = self.refine(args[0])
            if key.kind != "str":
                raise Unsupported("dict.get non-str key")
            default = args[1] if len(args) > 1 else S_NONE
            if p.fork(z3.Select(p.hread("dict.dom", d.ref), key.t)):
                v = simp(z3.Select(p.hread("dict.map", d.ref), key.t))
                self.elem_fact(d, v)
                return s_val(v)
            return default
        if name == "pop":
            key = self.refine(args[0])
            if key.kind != "str":
                raise Unsupported("dict.pop non-str key")
            dom = p.hread("dict.dom", d.ref)
            if p.fork(z3.Select(dom, key.t)):
                v = simp(z3.Select(p.hread("dict.map", d.ref), key.t))
                self.elem_fact(d, v)
                order = p.hread("dict.order", d.ref)
                p.hwrite("dict.dom", d.ref, z3.Store(dom, key.t, False))
                # the key occurs once in the insertion order (encoding invariant of dict.order): drop that occurrence
                p.hwrite("dict.order", d.ref, simp(z3.Replace(order, z3.Unit(key.t), z3.Empty(M.StrSeq))))
                return s_val(v)
            if len(args) > 1:
                return args[1]
            raise PyExc("KeyError", None, "pop")
        if name == "keys":
            order = p.hread("dict.order", d.ref)
            r = p.alloc("list")
            out = p.fresh(ValSeq, "keys")
            j = z3.Int("j!k")
            p.assume(z3.Length(out) == z3.Length(order))
            p.assume(z3.ForAll([j], z3.Implies(z3.And(j >= 0, j < z3.Length(out)), out[j] == Val.VStr(order[j]))))
            p.hwrite("list.items", r.ref, out)
            return r
        raise Unsupported(f"dict.{name}")

    def list_method(self, l: SV, name, args, kwargs):
        p = self.p
        t = p.hread("list.items", l.ref)
        n = z3.Length(t)
        if name == "append":
            p.hwrite("list.items", l.ref, z3.Concat(t, z3.Unit(self.box(args[0]))))
            return S_NONE
        if name == "pop":
            if args:
                i = self.refine(args[0])
                if i.kind != "int":
                    raise PyExc("TypeError", None, "pop index")
                if p.fork(n == 0):
                    raise PyExc("IndexError", None, "pop from empty list")
                ii = self.norm_index(i.t, n, "pop index")
            else:
                if p.fork(n == 0):
                    raise PyExc("IndexError", None, "pop from empty list")
                ii = simp(n - 1)
                # items == Concat(prefix, Unit(x)): the popped element is x and the rest is the prefix (kept syntactic so
                # that the tag and class of x stay known)
                ts = simp(t)
                if z3.is_app(ts) and ts.decl().kind() == z3.Z3_OP_SEQ_CONCAT and ts.num_args() >= 2 and \
                        z3.is_app(ts.arg(ts.num_args() - 1)) and ts.arg(ts.num_args() - 1).decl().kind() == z3.Z3_OP_SEQ_UNIT:
                    last = ts.arg(ts.num_args() - 1).arg(0)
                    rest = ts.arg(0) if ts.num_args() == 2 else z3.Concat(*[ts.arg(i) for i in range(ts.num_args() - 1)])
                    self.elem_fact(l, last)
                    p.hwrite("list.items", l.ref, simp(rest))
                    return s_val(last)
            v = simp(t[ii])
            self.elem_fact(l, v)
            p.hwrite("list.items", l.ref, simp(z3.Concat(z3.SubSeq(t, 0, ii), z3.SubSeq(t, ii + 1, n - ii - 1))))
            return s_val(v)
        if name == "insert":
            i = self.refine(args[0])
            if i.kind != "int":
                raise PyExc("TypeError", None, "insert index")
            ii = z3.If(i.t < 0, z3.If(i.t + n < 0, 0, i.t + n), z3.If(i.t > n, n, i.t))
            p.hwrite("list.items", l.ref, simp(z3.Concat(z3.SubSeq(t, 0, ii), z3.Unit(self.box(args[1])), z3.SubSeq(t, ii, n - ii))))
            return S_NONE
        if name == "extend":
            a = self.refine(args[0])
            p.hwrite("list.items", l.ref, z3.Concat(t, self.as_seq(a)))
            return S_NONE
        if name == "copy":
            return self.new_list(t)
        if name == "clear":
            p.hwrite("list.items", l.ref, z3.Empty(ValSeq))
            return S_NONE
        if name == "reverse":
            out = p.fresh(ValSeq, "rev")
            j = z3.Int("j!rev")
            p.assume(z3.Length(out) == n)
            p.assume(z3.ForAll([j], z3.Implies(z3.And(j >= 0, j < n), out[j] == t[n - 1 - j])))
            p.hwrite("list.items", l.ref, out)
            return S_NONE
        if name == "index":
            x = self.refine(args[0])
            if x.kind in ("int", "float", "bool"):
                raise Unsupported("list.index of a number (== semantics)")
            u = z3.Unit(self.box(x))
            if p.fork(z3.Not(z3.Contains(t, u))):
                raise PyExc("ValueError", None, "x not in list")
            return s_int(z3.IndexOf(t, u, 0))
        raise Unsupported(f"list.{name}")

    def str_method(self, s: SV, name, args, kwargs):
        p = self.p
        t = s.t
        n = z3.Length(t)
        def sarg(i):
            a = self.refine(args[i])
            if a.kind != "str":
                raise PyExc("TypeError", None, f"str.{name} argument must be str, not {a.kind}")
            return a.t
        def iarg(i, default):
            if len(args) <= i or args[i].kind == "none":
                return default
            a = self.refine(args[i])
            if a.kind == "bool":
                a = self.num(a)
            if a.kind != "int":
                raise PyExc("TypeError", None, "slice indices must be integers or None")
            return a.t
        def clamp(v):
            return z3.If(v < 0, z3.If(v + n < 0, 0, v + n), z3.If(v > n, n, v))
        if name == "find" or name == "index":
            sub = sarg(0)
            start = iarg(1, z3.IntVal(0))
            end = iarg(2, None)
            st_raw = z3.If(start < 0, z3.If(start + n < 0, 0, start + n), start)
            if end is not None:
                e = clamp(end)
                hay = z3.SubString(t, 0, e)
                r = z3.If(st_raw > e, -1, z3.IndexOf(hay, sub, st_raw))
            else:
                r = z3.If(st_raw > n, -1, z3.IndexOf(t, sub, st_raw))
            if name == "index":
                if p.fork(r < 0):
                    raise PyExc("ValueError", None, "substring not found")
            return s_int(simp(r))
        if name == "rfind":
            sub = sarg(0)
            start = iarg(1, z3.IntVal(0))
            end = iarg(2, None)
            e = clamp(end) if end is not None else n
            st_raw = z3.If(start < 0, z3.If(start + n < 0, 0, start + n), start)
            hl = p.fresh(z3.IntSort(), "haylen")      # named so that equal lengths give congruent haystacks
            p.assume(hl == z3.If(e > st_raw, e - st_raw, 0))
            hay = z3.SubString(t, st_raw, hl)
            li = z3.LastIndexOf(hay, sub)
            r = z3.If(st_raw > e, -1, z3.If(li < 0, -1, li + st_raw))
            return s_int(simp(r))
        if name == "startswith":
            if len(args) > 1:
                raise Unsupported("startswith with range")
            a = self.refine(args[0])
            if a.kind == "tuple":
                return s_bool(z3.Or([z3.PrefixOf(self.refine(x).t, t) for x in a.items]))
            if isinstance(s.extra, tuple) and s.extra[0] == "slice":
                # L1: s[a:b].startswith(p)  <=>  a + len(p) <= max(a, b)  and  s[a:a+len(p)] == p
                _, base, lo, hi = s.extra
                pfx = sarg(0)
                m = z3.Length(pfx)
                return s_bool(z3.And(lo + m <= z3.If(hi > lo, hi, lo), z3.SubString(base, lo, m) == pfx))
            return s_bool(z3.PrefixOf(sarg(0), t))
        if name == "endswith":
            if len(args) > 1:
                raise Unsupported("endswith with range")
            a = self.refine(args[0])
            if a.kind == "tuple":
                return s_bool(z3.Or([z3.SuffixOf(self.refine(x).t, t) for x in a.items]))
            if isinstance(s.extra, tuple) and s.extra[0] == "slice":
                # L2: s[a:b].endswith(p)  <=>  len(p) <= max(0, b - a)  and  s[b-len(p):b] == p
                _, base, lo, hi = s.extra
                sfx = sarg(0)
                m = z3.Length(sfx)
                return s_bool(z3.And(m <= z3.If(hi > lo, hi - lo, 0), z3.SubString(base, hi - m, m) == sfx))
            return s_bool(z3.SuffixOf(sarg(0), t))
        if name in ("strip", "lstrip", "rstrip") and args and args[0].kind != "none":
            chars = conc_str(sarg(0))
            if chars is None:
                raise Unsupported("strip(symbolic chars)")
            c = conc_str(t)
            if c is not None:
                return s_str(getattr(c, name)(chars))
            canon = "".join(sorted(set(chars)))       # strip depends only on the *set* of characters
            f = z3.Function("py_" + name + "_chars", z3.StringSort(), z3.StringSort(), z3.StringSort())
            p.uf_used.add("py_" + name + "_chars")
            out = f(t, z3.StringVal(canon))
            p.assume(z3.Length(out) <= n)
            return s_str(out)
        if name in ("strip", "lstrip", "rstrip"):
            c = conc_str(t)
            if c is not None:
                return s_str(getattr(c, name)())
            f = {"strip": M.py_strip, "lstrip": M.py_lstrip, "rstrip": M.py_rstrip}[name]
            p.uf_used.add("py_" + name)
            out = f(t)
            p.assume(z3.Length(out) <= n)
            p.assume(z3.Contains(t, out))
            return s_str(out)
        if name in ("lower", "upper"):
            c = conc_str(t)
            if c is not None:
                return s_str(getattr(c, name)())
            f = M.py_lower if name == "lower" else M.py_upper
            p.uf_used.add("py_" + name)
            return s_str(f(t))
        if name == "replace":
            a, b = sarg(0), sarg(1)
            if len(args) > 2:
                raise Unsupported("replace with count")
            ca = conc_str(a)
            if ca == "":
                raise Unsupported("replace of empty pattern")
            if ca is None:
                if p.fork(z3.Length(a) == 0):
                    raise Unsupported("replace of empty pattern")
            p.uf_used.add("replace_all")
            return s_str(z3.ReplaceAll(t, a, b)) if hasattr(z3, "ReplaceAll") else self._unsup("replace_all")
        if name in ("isdigit", "isalpha", "isalnum", "isspace"):
            f = z3.Function("py_" + name, z3.StringSort(), z3.BoolSort())
            p.uf_used.add("py_" + name)
            c = conc_str(t)
            if c is not None:
                return s_bool(getattr(c, name)())
            out = f(t)
            p.assume(z3.Implies(n == 0, z3.Not(out)))
            if name == "isdigit":
                # ASCII digits are digits; (the converse is false: Unicode digits)
                p.assume(z3.Implies(z3.And(n == 1, z3.StrToCode(t) >= 48, z3.StrToCode(t) <= 57), out))
                p.assume(z3.Implies(z3.And(n == 1, z3.StrToCode(t) < 128, z3.Or(z3.StrToCode(t) < 48, z3.StrToCode(t) > 57)), z3.Not(out)))
            return s_bool(out)
        if name == "join":
            a = self.refine(args[0])
            if a.kind == "tuple":
                parts = [self.refine(x) for x in a.items]
                if any(x.kind != "str" for x in parts):
                    raise PyExc("TypeError", None, "sequence item: expected str instance")
                if not parts:
                    return s_str("")
                out = parts[0].t
                for x in parts[1:]:
                    out = z3.Concat(out, t, x.t)
                return s_str(out)
            raise Unsupported("join over symbolic-length iterable")
        if name == "split":
            raise Unsupported("str.split")
        if name == "count":
            raise Unsupported("str.count")
        raise Unsupported(f"str.{name}")
