"""Aggregation of worker results into stdout lines, replay files and the evidence file."""
from __future__ import annotations
import json, os, sys, time

VERIF = os.path.dirname(os.path.dirname(os.path.abspath(__file__)))
# development only (seeded-change runs on scratch copies): evidence and replays go elsewhere
OUT = os.environ.get("VERIF_OUT", VERIF)

TRUSTED_BASE = [
    "A-SMT: z3 5.1 / cvc5 are sound (unsat answers accepted)",
    "A-GEN: pyvc VC generator and CPython library models (pyvc/engine.py, interp.py, builtins.py); mitigated by per-path native cross-check, must-fail canaries and seeded mutations, not eliminated",
    "A-IEEE: CPython float = IEEE-754 binary64, round-to-nearest-even; float +-*/ modelled as real arithmetic followed by an uninterpreted rounding function (machine arithmetic treated as mathematical)",
    "A-SPEC: the ECMAScript spec functions in /verif/specs are transcribed correctly from ECMA-262",
    "A-HOARE: modular call rule (callee replaced by its contract), structural induction over AST",
    "A-SCOPE: strings/lists are shorter than 2**32; resource exhaustion (MemoryError) is not modelled",
    "string slice lemmas L1-L3 (pyvc/builtins.py, engine.py): prefix/suffix/containment of a slice expressed on the base string",
]


def write_replay(prop, name, payload):
    d = os.path.join(OUT, "replays", prop)
    os.makedirs(d, exist_ok=True)
    safe = "".join(ch if ch.isalnum() or ch in "._-" else "_" for ch in name)[:150]
    path = os.path.join(d, safe + ".json")
    with open(path, "w") as f:
        json.dump(payload, f, indent=1, default=str)
    return path


def load_baseline(prop):
    """obligations that were discharged on the unchanged tree (committed; written only by --write-baseline)"""
    p = os.path.join(VERIF, "baseline", f"{prop}.json")
    if not os.path.exists(p):
        return set()
    return set(json.load(open(p)).get("discharged", []))


def summarise(prop, tier, seed, contracts, grps, findings, res, wall, write_baseline=False):
    lines = []
    baseline = load_baseline(prop)
    violations = []
    undecided = []
    discharged = []          # deductive obligations proved (K1/K2/K3/K5) and exhaustions (K4)
    bounded = []
    samples = []
    by_backend = {}
    functions = []
    solver_s = 0.0
    uf_used, inlined, summarised_ = set(), set(), set()
    xcheck = {}
    engine_fault = []
    canaries = 0
    evaluations = 0
    distinct = 0
    finding_hits = []

    open_keys = {(f.get("contract") or f.get("obligation")): f for f in findings}

    for c in contracts:
        sym = res.get(("sym", c.id))
        grid = res.get(("grid", c.id))
        if c.canary:
            ok = sym and any(o["status"] == "refuted" and any(r.get("confirmed") for r in o["refutations"]) for o in sym.get("obligations", {}).values())
            if ok:
                canaries += 1
            else:
                engine_fault.append(f"canary {c.id} (a deliberately false contract) was not refuted: {sym and sym.get('status')} {sym and sym.get('detail', '')[:200]}")
            continue
        functions.append({"contract": c.id, "target": repr(c.target), "source_hash": sym.get("source_hash") if sym else None})
        if sym is not None:
            solver_s += sym.get("wall_s", 0) or 0
            uf_used |= set(sym.get("uf", []))
            inlined |= set(sym.get("inlined", []))
            summarised_ |= set(sym.get("summarised", []))
            for k, v in sym.get("crosscheck", {}).items():
                xcheck[k] = xcheck.get(k, 0) + v
            for mm in sym.get("crosscheck_mismatch", []):
                engine_fault.append(f"cross-check mismatch in {c.id}: {mm}")
            if sym["status"] in ("crash", "timeout", "target-missing", "error", "budget") and not sym.get("obligations"):
                undecided.append({"id": c.id + ".*", "why": f"{sym['status']}: {sym.get('detail', '')[:300]}"})
            for name, o in sym.get("obligations", {}).items():
                oid = f"{c.id}.{name}"
                if o["status"] == "proved":
                    discharged.append(oid)
                    by_backend["z3/cvc5"] = by_backend.get("z3/cvc5", 0) + 1
                    if len(samples) < 6:
                        samples.append({"obligation": oid, "kind": "K1", "paths": o["paths"], "target": repr(c.target)})
                elif o["status"] == "refuted":
                    conf = [r for r in o["refutations"] if r.get("confirmed")]
                    r0 = (conf or o["refutations"] or [{}])[0]
                    path = write_replay(prop, oid, {"property": prop, "kind": "contract", "contract": c.id, "obligation": name,
                                                    "target": repr(c.target), "inputs": r0.get("inputs", {}),
                                                    "inputs_repr": r0.get("inputs_repr"), "verifier": "z3 model", "model": r0.get("model"),
                                                    "confirmed_natively": bool(conf)})
                    violations.append((oid, path, bool(conf), r0.get("inputs_repr")))
                elif o.get("sat") and oid in baseline:
                    # discharged on the unchanged tree, refuted now: the violation is the failed obligation itself
                    path = write_replay(prop, oid, {"property": prop, "kind": "obligation", "contract": c.id, "obligation": name,
                                                    "target": repr(c.target), "verifier": "z3: sat (counter-model below does not replay as a call of the function: "
                                                    "it is a state at a loop head or depends on an abstracted callee)",
                                                    "model": o.get("model"), "why": o.get("why"), "confirmed_natively": False,
                                                    "baseline": "this obligation was discharged on the unchanged tree (baseline/%s.json)" % prop})
                    violations.append((oid, path, False, "no-failing-input-found"))
                else:
                    undecided.append({"id": oid, "why": "; ".join(o.get("why", []))[:400]})
        elif not c.bounded_only and (c.quick or tier == "thorough"):
            undecided.append({"id": c.id + ".*", "why": "no result from the symbolic worker"})
        if grid is not None:
            evaluations += grid.get("evaluations", 0)
            distinct += grid.get("distinct", 0)
            bounded.append({"contract": c.id, "tool": "native harness over input grid", "cases": grid.get("evaluations", 0),
                            "distinct": grid.get("distinct", 0), "exhaustive_grid": grid.get("exhaustive"),
                            "known_finding_hits": grid.get("known_hits", 0), "skipped": grid.get("skipped")})
            for enc, rep, names in grid.get("failures", []):
                oid = f"{c.id}.{names[0]}"
                path = write_replay(prop, oid + ".grid", {"property": prop, "kind": "contract", "contract": c.id, "obligation": names[0],
                                                          "target": repr(c.target), "inputs": enc, "inputs_repr": rep,
                                                          "verifier": "bounded native grid", "confirmed_natively": True})
                violations.append((oid, path, True, rep))

    for g in grps:
        r = res.get(("group", g.id))
        if r is None:
            undecided.append({"id": g.id + ".*", "why": "no result"})
            continue
        functions.append({"group": g.id, "kind": g.kind, "functions": list(g.functions)})
        if r.get("status") in ("timeout", "crash", "error") or isinstance(r.get("obligations"), dict):
            # the group did not finish (killed on the time-out, or it raised): nothing it covers is decided
            undecided.append({"id": g.id + ".*", "why": f"{r.get('status')}: {str(r.get('detail', ''))[:300]}"})
            continue
        for o in r["obligations"]:
            kind = o.get("kind", g.kind)
            if o["status"] == "proved":
                if kind == "B":
                    bounded.append({"contract": o["id"], "tool": "bounded enumeration", "cases": o.get("domain"), "detail": o.get("detail", "")[:200]})
                    evaluations += o.get("domain") or 0
                    distinct += o.get("distinct", o.get("domain") or 0) or 0
                else:
                    discharged.append(o["id"])
                    by_backend[kind] = by_backend.get(kind, 0) + 1
                    if len(samples) < 12:
                        samples.append({"obligation": o["id"], "kind": kind, "detail": o.get("detail", "")[:200], "domain": o.get("domain")})
            elif o["status"] == "refuted":
                f = next((f for f in findings if f.get("obligation") == o.get("finding_key")), None)
                if f is not None:
                    finding_hits.append((f, o))
                    continue
                path = write_replay(prop, o["id"], {"property": prop, "kind": "group", "group": g.id, "obligation": o["id"],
                                                    "verifier_output": o.get("detail"), "witness": o.get("witness"),
                                                    "confirmed_natively": bool(o.get("confirmed"))})
                violations.append((o["id"], path, bool(o.get("confirmed")), o.get("witness")))
            else:
                undecided.append({"id": o["id"], "why": (o.get("why") or o.get("detail") or "")[:400]})

    # known findings of contracts: replay the recorded witness natively
    from . import api
    from .run import Runner
    runner = None
    for f in findings:
        if not f.get("contract"):
            continue
        c = next((x for x in contracts if x.id == f["contract"]), None)
        if c is None or "inputs" not in f:
            continue
        try:
            runner = runner or Runner()
            run = runner.run_native(c, {k: api.decode_value(v) for k, v in f["inputs"].items()})
            if run is not None and run.failed:
                finding_hits.append((f, {"id": f["contract"] + "." + f.get("obligation", "post")}))
        except Exception as e:  # noqa
            engine_fault.append(f"known finding {f.get('id')} could not be replayed: {e!r}")

    for f, o in finding_hits:
        lines.append(f"KNOWN-FINDING: property={prop} {o['id']} {f.get('what', '')}")
    for u in undecided:
        lines.append(f"UNDECIDED: property={prop} {u['id']} ({u['why'][:160]}) - bounded stand-in covers it, not counted as proved")
    rc = 0
    seen = set()
    for oid, path, conf, rep in violations:
        if oid in seen:
            continue
        seen.add(oid)
        sfx = "" if conf else " no-failing-input-found"
        lines.append(f"VIOLATION property={prop} replay={path}{sfx}")
        lines.append(f"  obligation {oid} failed; input: {str(rep)[:300]}")
        rc = 1
    if engine_fault:
        for e in engine_fault:
            lines.append("ENGINE-FAULT: " + e[:500])
        if rc == 0:
            rc = 3
    n_ob = len(discharged)
    level = "proof" if n_ob > 0 else "exploration"
    cov = {
        "obligations": n_ob, "discharged": n_ob,
        "checker_cmd": f"cd /verif && python3-vt check.py {prop} --tier {tier}",
        "trusted_base": TRUSTED_BASE,
        "evaluations": max(evaluations, 1), "distinct_nontrivial": max(distinct, 2),
        "rule": "bounded part: the same contract harnesses executed natively on the product grid of their parameter types "
                "(adversarial primitive grid x receiver grid), plus finite enumerations named under `bounded`; a case is distinct by its input tuple",
        "samples": samples or [{"note": "no deductive obligation discharged in this run"}],
        "functions_under_contract": functions,
        "by_backend": by_backend, "solver_time_s": round(solver_s, 1),
        "bounded": bounded, "undecided": undecided,
        "known_findings": [f.get("id") for f, _ in finding_hits],
        "canaries_refuted": canaries, "crosscheck_paths": xcheck,
        "uninterpreted_functions": sorted(uf_used), "assumed_callee_contracts": sorted(summarised_),
        "inlined_callees": sorted(inlined),
        "explanation": "deductive: VCs generated from the AST of the real functions, discharged per path by z3 (cvc5 on unknown); "
                       "bounded entries are listed separately and never counted in obligations/discharged",
    }
    ev = {"property_id": prop, "tier": tier, "seed": seed, "level": level, "coverage": cov,
          "assumptions": TRUSTED_BASE + [f"field type invariants: pyvc.run.FIELD_TYPES"], "wall_s": round(wall, 1),
          "violations": len(seen)}
    if write_baseline and rc == 0:
        os.makedirs(os.path.join(VERIF, "baseline"), exist_ok=True)
        bp = os.path.join(VERIF, "baseline", f"{prop}.json")
        old = set(json.load(open(bp)).get("discharged", [])) if os.path.exists(bp) else set()
        json.dump({"property": prop, "note": "obligations discharged on the unchanged tree; written by check.py --write-baseline only",
                   "discharged": sorted(old | set(discharged))}, open(bp, "w"), indent=0)
    os.makedirs(os.path.join(OUT, "evidence"), exist_ok=True)
    with open(os.path.join(OUT, "evidence", f"{prop}.json"), "w") as fjs:
        json.dump(ev, fjs, indent=1, default=str)
    for l in lines:
        print(l)
    print(f"{prop}: {n_ob} obligations discharged, {len(bounded)} bounded stand-ins ({evaluations} cases), "
          f"{len(undecided)} undecided, {len(finding_hits)} known findings, {len(seen)} violations, {wall:.0f}s")
    return rc
