"""Driver: runs one contract symbolically (all paths), discharges its obligations, replays
counter-models natively, cross-checks each explored path against CPython, and runs the
bounded native grid of the same harness."""
from __future__ import annotations
import ast, importlib, inspect, itertools, math, os, random, sys, time, traceback, hashlib
from fractions import Fraction
import z3
from . import model as M, api
from .model import Val, ValSeq, FIN, NAN, PINF, NINF, NZERO, CLS, CLASSES
from .engine import (SV, Path, PyExc, Unsupported, Infeasible, PathCut, _Return, Frame, ModuleInfo, ClassTable,
                     s_int, s_bool, s_str, s_float, s_val, s_seq, s_tuple, s_ref, s_py, S_NONE, lift, simp,
                     conc_int, conc_str, conc_bool)
from .interp import FuncVal, ClassVal, Builtin
from .builtins import Lib
from .extract import Source

MAXLEN = 2 ** 32
VERIF = os.path.dirname(os.path.dirname(os.path.abspath(__file__)))


class PathResult:
    def __init__(self):
        self.decisions = []
        self.status = "ok"          # ok | unsupported | infeasible | assume-false | error
        self.detail = ""
        self.obligations = []       # dicts: name, status (proved|refuted|unknown), model, inputs
        self.n_pc = 0
        self.solver_s = 0.0
        self.crosscheck = None
        self.uf = set()
        self.inlined = set()
        self.summarised = set()
        self.covers = []
        self.cut = False            # ended at the inductive step of a loop invariant (no native cross-check)
        self.feasible = "unknown"   # sat: the path condition has a model (vacuity guard)


class ContractResult:
    def __init__(self, c):
        self.id, self.prop = c.id, c.prop
        self.target = repr(c.target)
        self.paths = []
        self.obligations = {}       # name -> dict(status, paths, refutations[])
        self.status = "ok"
        self.detail = ""
        self.wall_s = 0.0
        self.solver_s = 0.0
        self.native = None
        self.source_hash = ""
        self.uf, self.inlined, self.summarised = set(), set(), set()
        self.crosschecked = 0
        self.crosscheck_mismatch = []


_HARNESS_CACHE = {}


def harness_module_info(pymod) -> ModuleInfo:
    """index a /verif python module (contracts or specs) for symbolic execution"""
    name = pymod.__name__
    if name in _HARNESS_CACHE:
        return _HARNESS_CACHE[name]
    path = inspect.getsourcefile(pymod)
    text = open(path, encoding="utf-8").read()
    tree = ast.parse(text, filename=path)
    mi = ModuleInfo(name, tree, path)
    mi.text = text
    mi.pymod = pymod
    _HARNESS_CACHE[name] = mi
    return mi


class Runner:
    def __init__(self, source: Source = None):
        self.src = source or Source()

    # ------------------------------------------------------------------ engine setup
    def make_engine(self, c: api.Contract) -> Lib:
        src = self.src
        modules = dict(src.modules)
        # harness + spec modules
        hmods = {}
        pymod = sys.modules[c.module]
        todo = [pymod]
        while todo:
            pm = todo.pop()
            if pm.__name__ in hmods:
                continue
            mi = harness_module_info(pm)
            hmods[pm.__name__] = mi
            src_index_harness(mi, pm, todo)
        modules.update(hmods)
        ct = ClassTable(src.real_classes)
        eng = Lib(modules, ct, summaries={}, exc_hierarchy=dict(src.exc_hier), field_types=dict(FIELD_TYPES),
                  loop_unroll=c.loop_unroll)
        eng.field_types.update(c.field_types)
        eng.exc_hier.update({"ESThrow": ["ESThrow", "Exception", "BaseException", "object"]})
        for n in ("TypeError_", "RangeError_", "SyntaxError_", "ReferenceError_"):
            eng.exc_hier[n] = [n, "ESThrow", "Exception", "BaseException", "object"]
        eng.exc_hier["AssumeFailed"] = ["AssumeFailed", "Exception", "BaseException", "object"]
        eng.enum_members = src.enum_members
        eng.known_fields = src.known_fields
        eng.optional_fields = src.optional_fields
        eng.instance_fields = src.instance_fields
        eng.func_objects = {}
        from .symapi import spec_funcval
        eng.loop_invariants = {k: spec_funcval(eng, f).py for k, f in c.invariants.items()}
        eng.loop_writes = {k: list(getattr(f, "__writes__", [])) for k, f in c.invariants.items()}
        eng.harness_mi = hmods[c.module]
        eng.unfold_depth = getattr(c, "unfold_depth", 1)
        from . import symapi
        symapi.install(eng, c, self)
        return eng

    # ------------------------------------------------------------------ inputs
    def make_inputs(self, eng: Lib, c: api.Contract):
        p = eng.p
        sig = inspect.signature(c.fn)
        inputs = {}
        for name, par in sig.parameters.items():
            ty = par.annotation
            if isinstance(ty, str):
                ty = eval(ty, vars(sys.modules[c.module]))
            inputs[name] = self.fresh_of(eng, name, ty)
        p.inputs = inputs
        return inputs

    def fresh_of(self, eng, name, ty):
        p = eng.p
        n = ty.name
        if n == "Str":
            t = z3.String(name)
            p.assume(z3.Length(t) <= MAXLEN)       # A-SCOPE: no string/list longer than 2**32
            return s_str(t)
        if n == "Int":
            t = z3.Int(name)
            if "lo" in ty.kw:
                p.assume(t >= ty.kw["lo"])
                p.assume(t <= ty.kw["hi"])
            return s_int(t)
        if n == "Bool":
            return s_bool(z3.Bool(name))
        if n == "Flt":
            k, r = z3.Int(name + "_k"), z3.Real(name + "_r")
            p.assume(M.flt_wf(k, r))
            return SV("float", k=k, r=r)
        if n == "Num":
            t = z3.Const(name, Val)
            p.assume(z3.Or(Val.is_VInt(t), Val.is_VFlt(t)))
            p.assume(M.val_wf(t))
            eng.tag_hints[t.get_id()] = (t, {4, 5})
            return s_val(t)
        if n in ("JSVal", "JSPrim"):
            t = z3.Const(name, Val)
            p.assume(M.is_js_value(t))
            if n == "JSPrim":
                p.assume(z3.Not(Val.is_VRef(t)))
            p.old_ref_fact(t)
            return s_val(t)
        if n == "PyVal":
            t = z3.Const(name, Val)
            p.old_ref_fact(t)
            return s_val(t)
        if n == "JSArgs":
            sv = s_seq(z3.Const(name, ValSeq))
            p.assume(z3.Length(sv.t) <= MAXLEN)
            eng.js_seqs.append(sv.t)
            return sv
        if n == "ValList":
            r = z3.Int(name + "_ref")
            p.assume(r >= 0)
            p.assume(r < p.alloc0)
            t = z3.Const(name + "_items", ValSeq)
            p.assume(z3.Length(t) <= MAXLEN)
            p.hwrite("list.items", r, t)
            eng.list_elem_js.append(r)
            return s_ref("list", r)
        if n == "Obj":
            r = z3.Int(name + "_ref")
            p.assume(r >= 0)
            p.assume(r < p.alloc0)
            return s_ref(ty.kw["cls"], r)
        raise Unsupported(f"input type {n}")

    # ------------------------------------------------------------------ symbolic run
    def run_symbolic(self, c: api.Contract, findings=(), budget_s=600) -> ContractResult:
        res = ContractResult(c)
        t0 = time.time()
        try:
            eng = self.make_engine(c)
        except Exception as e:      # noqa
            res.status, res.detail = "error", "engine setup: " + "".join(traceback.format_exception_only(type(e), e)).strip()
            return res
        try:
            real_fv, res.source_hash = self.resolve_target(eng, c)
        except KeyError as e:
            res.status, res.detail = "target-missing", str(e)
            return res
        work = [[]]
        npaths = 0
        eng.merge_cache = {}
        eng.tag_hints = {}
        eng.keepalive = []
        while work:
            if npaths >= c.max_paths or time.time() - t0 > budget_s:
                res.status, res.detail = "budget", f"path/time budget exhausted after {npaths} paths"
                break
            dec = work.pop()
            pr = self.run_path(eng, c, real_fv, dec, findings)
            npaths += 1
            work.extend(pr._pending)
            res.paths.append(pr)
            res.solver_s += pr.solver_s
            res.uf |= pr.uf
            res.inlined |= pr.inlined
            res.summarised |= pr.summarised
        # aggregate obligations
        agg = {}
        for pr in res.paths:
            if pr.status == "unsupported":
                agg.setdefault("<subset>", {"status": "unknown", "paths": 0, "refutations": [], "why": set()})
                agg["<subset>"]["paths"] += 1
                agg["<subset>"]["why"].add(pr.detail)
            elif pr.status == "error":
                agg.setdefault("<engine>", {"status": "unknown", "paths": 0, "refutations": [], "why": set()})
                agg["<engine>"]["paths"] += 1
                agg["<engine>"]["why"].add(pr.detail)
            for ob in pr.obligations:
                a = agg.setdefault(ob["name"], {"status": "proved", "paths": 0, "refutations": [], "why": set()})
                a["paths"] += 1
                if ob["status"] == "refuted":
                    a["status"] = "refuted"
                    a["refutations"].append(ob)
                elif ob["status"] == "unknown":
                    if ob.get("sat"):
                        a["sat"] = True
                        a.setdefault("model", ob.get("model_text", ""))
                    if a["status"] == "proved":
                        a["status"] = "unknown"
                    if a["status"] == "unknown":
                        a["why"].add(ob.get("why", "solver unknown"))
        if res.status == "budget":
            for a in agg.values():
                if a["status"] == "proved":
                    a["status"] = "unknown"
                    a["why"].add("budget")
        # vacuity guard: some path that runs the harness to its end must be known satisfiable
        full = [pr for pr in res.paths if pr.status == "ok" and not pr.cut and pr.obligations]
        if full and not any(pr.feasible == "sat" for pr in full) and not c.canary:
            for k, a in agg.items():
                if a["status"] == "proved":
                    a["status"] = "unknown"
                    a["why"].add("vacuity guard: no path of the harness is known to be satisfiable (all path conditions unsat or undecided)")
        if "<subset>" in agg or "<engine>" in agg:
            for k, a in agg.items():
                if a["status"] == "proved":
                    a["status"] = "unknown"
                    a["why"].add("some paths of the function are outside the subset")
        res.obligations = agg
        res.wall_s = time.time() - t0
        return res

    def resolve_target(self, eng: Lib, c: api.Contract):
        t = c.target
        src = self.src
        if t is None:
            return None, ""
        qn = t.qualname
        if t.kind == "opcode":
            qn = "VM._execute_opcode"
        try:
            node, chain, cls = src.find(t.module, qn)
        except KeyError:
            simple = qn.split(".")[-1].strip("<>")
            node = src.find_unique(t.module, simple)
            if node is None:
                raise
            chain, cls = [], None
        seg = src.segment(t.module, node) or ""
        h = hashlib.sha256(seg.encode()).hexdigest()[:16]
        return (node, chain, cls, src.modules[t.module]), h

    def bind_real(self, eng: Lib, c: api.Contract, real, inputs):
        node, chain, cls, mi = real
        qn = f"{mi.name}:{c.target.qualname}"
        if c.target.kind == "closure":
            env = {n: inputs[n] for n in c.env}
            # sibling closures of the same outer function share this environment
            outer = chain[-1] if chain else None
            fr_locals = env
            if outer is not None:
                for st in outer.body:
                    if isinstance(st, ast.FunctionDef):
                        fr_locals[st.name] = s_py(FuncVal(st, [fr_locals], mi, f"{mi.name}:{outer.name}.<{st.name}>"), "func")
                    elif isinstance(st, ast.Assign) and len(st.targets) == 1 and isinstance(st.targets[0], ast.Name) \
                            and isinstance(st.value, ast.Name) and st.value.id in fr_locals:
                        fr_locals[st.targets[0].id] = fr_locals[st.value.id]      # e.g. `vm = self`
            return s_py(FuncVal(node, [fr_locals], mi, qn), "func")
        return s_py(FuncVal(node, [], mi, qn), "func")

    def run_path(self, eng: Lib, c: api.Contract, real, decisions, findings) -> PathResult:
        pr = PathResult()
        pr._pending = []
        p = Path(decisions, timeout_ms=700)
        p.prune_ms = getattr(c, "prune_ms", 0)
        eng.p = p
        eng.depth = 0
        eng.ghost = {}
        eng.js_seqs = []
        eng.list_elem_js = []
        prim = getattr(c, "prim_args", True)
        eng.seq_elem_fact = (lambda v: z3.And(M.is_js_value(v), z3.Not(Val.is_VRef(v)))) if prim else (lambda v: M.is_js_value(v))
        eng.func_objects = {}
        eng._current_exc = None
        t0 = time.time()
        try:
            inputs = self.make_inputs(eng, c)
            p.n_base = len(p.pc)
            hfr = Frame(dict(inputs), [], eng.harness_mi)
            if real is not None:
                hfr.locals["REAL"] = self.bind_real(eng, c, real, inputs)
            from .symapi import spec_funcval
            for bn, bf in c.bind.items():
                hfr.locals[bn] = spec_funcval(eng, bf) if callable(bf) else lift(bf)
            # known-finding regions (guards)
            guards = {}
            for f in findings:
                w = ast.parse(f["when"], mode="eval").body
                g = eng.truthy(eng.eval(w, hfr))
                guards.setdefault(f.get("obligation", "*"), []).append(g)
            hnode = find_def(eng.harness_mi.tree, c.fn.__name__)
            try:
                eng.exec_block(hnode.body, hfr)
            except _Return:
                pass
            except PathCut:
                pr.cut = True
            pr.status = "ok"
        except Unsupported as e:
            pr.status, pr.detail = "unsupported", str(e)
        except Infeasible:
            pr.status = "infeasible"
        except api.AssumeFailed:
            pr.status = "assume-false"
        except PyExc as e:
            if e.cls == "AssumeFailed":
                pr.status = "assume-false"
            else:
                # exception escaping the harness itself (not via outcome()): an AoRTE failure of the harness
                pr.status = "ok"
                p.obligations.append(("harness-no-exception", z3.BoolVal(False), f"{e.cls} at {e.where}"))
        except RecursionError:
            pr.status, pr.detail = "unsupported", "executor recursion limit"
        except z3.Z3Exception as e:
            pr.status, pr.detail = "error", f"z3: {e} " + "".join(traceback.format_tb(e.__traceback__)[-4:])
        except Exception as e:      # noqa   engine bug: never a verdict
            pr.status, pr.detail = "error", "".join(traceback.format_exception(type(e), e, e.__traceback__)[-3:])
        pr.notes = list(p.notes)
        pr.decisions = list(p.decisions)
        pr._pending = p.pending
        pr.n_pc = len(p.pc)
        pr.uf, pr.inlined, pr.summarised = set(p.uf_used), set(p.inlined), set(p.summarised)
        if pr.status in ("ok", "assume-false", "unsupported") and p.pc:
            fs = z3.Solver()
            fs.set("timeout", 5000)
            for a in p.pc:
                fs.add(a)
            rf = fs.check()
            if rf == z3.unsat:
                pr.status = "infeasible"      # explored only because feasibility is over-approximated
            elif rf == z3.unknown:
                # vacuity guard: look for a model with small inputs; a path never shown satisfiable does not count
                # as evidence that the harness reaches its checks
                fs.push()
                for nm, sv in p.inputs.items():
                    if sv.kind in ("str", "seq"):
                        fs.add(z3.Length(sv.t) <= 3)
                    elif sv.kind == "int":
                        fs.add(sv.t >= -9, sv.t <= 300)
                    elif sv.kind == "ref" and conc_int(sv.cls) is not None and CLASSES[conc_int(sv.cls)] == "list":
                        fs.add(z3.Length(z3.Const("H0_list.items", z3.ArraySort(z3.IntSort(), ValSeq))[sv.ref]) <= 3)
                rf2 = fs.check()
                fs.pop()
                if rf2 == z3.sat:
                    rf = z3.sat
            pr.feasible = "sat" if rf == z3.sat else ("unsat" if rf == z3.unsat else "unknown")
        if pr.status in ("ok", "assume-false"):
            allproved = True
            for name, cond, info in p.obligations:
                gs = guards.get(name, []) + guards.get("*", []) if pr.status == "ok" or True else []
                ob = self.discharge(eng, c, p, name, cond, gs, info)
                pr.obligations.append(ob)
                allproved = allproved and ob["status"] == "proved"
            if pr.status == "ok" and allproved and c.native is not None and not c.canary and not pr.cut:
                pr.crosscheck = self.crosscheck(eng, c, p)
        pr.solver_s = time.time() - t0
        return pr

    # ------------------------------------------------------------------ discharge
    def discharge(self, eng, c, p: Path, name, cond, guards, info):
        ob = {"name": name, "status": "proved", "info": info}
        goal = z3.Or([cond] + guards) if guards else cond
        goal = simp(goal)
        if z3.is_true(goal):
            return ob
        local = getattr(p, "lemma_pc", {}).get(cond.get_id())
        if local is not None:
            # lemma about a ghost function: from the facts of its own unfolding (cached across paths), else below
            # from the whole path condition
            cache = self.__dict__.setdefault("_lemma_cache", {})
            key = (goal.get_id(), tuple(a.get_id() for a in local))
            if key not in cache:
                ls = z3.Solver()
                ls.set("timeout", c.timeout_ms)
                for a in local:
                    ls.add(a)
                ls.add(z3.Not(goal))
                cache[key] = ls.check() == z3.unsat
                eng.keepalive.append(goal)
                eng.keepalive.extend(local)
            if cache[key]:
                ob["lemma"] = "local"
                return ob
        s = z3.Solver()
        s.set("timeout", c.timeout_ms)
        for a in p.pc:
            s.add(a)
        s.add(z3.Not(goal))
        # prefer small / representable witnesses: first try with dyadic-float hint
        r = s.check()
        if r == z3.unsat:
            return ob
        if r == z3.unknown:
            # bounded counter-model search: small strings and numbers make the query easy to satisfy;
            # a model found here is still replayed natively before it counts
            s.push()
            for nm, sv in p.inputs.items():
                if sv.kind == "str":
                    s.add(z3.Length(sv.t) <= 3)
                elif sv.kind == "seq":
                    s.add(z3.Length(sv.t) <= 3)
                    for i in range(3):
                        e_ = sv.t[i]
                        s.add(z3.Implies(Val.is_VInt(e_), z3.And(Val.vi(e_) >= -9, Val.vi(e_) <= 9)))
                        s.add(z3.Implies(Val.is_VStr(e_), z3.Length(Val.vs(e_)) <= 2))
                        s.add(z3.Implies(z3.And(Val.is_VFlt(e_), Val.fk(e_) == FIN), z3.And(Val.fr(e_) >= -9, Val.fr(e_) <= 9, z3.IsInt(Val.fr(e_) * 2))))
                elif sv.kind == "int":
                    s.add(sv.t >= -9, sv.t <= 300)
            rb = s.check()
            if rb == z3.sat:
                r = rb
            else:
                s.pop()
        if r == z3.unknown:
            s2 = z3.Solver()
            for a in p.pc:
                s2.add(p.pc_raw.get(a.get_id(), a))
            s2.add(z3.Not(z3.Or([cond] + guards) if guards else cond))
            r2 = self.cvc5_check(s2)
            if r2 == "unsat":
                ob["backend"] = "cvc5"
                return ob
            ob["status"] = "unknown"
            ob["why"] = f"z3: {s.reason_unknown()}; cvc5: {r2}"
            return ob
        # a refutation counts only when the counter-model replays natively on the real code
        tried = []
        for attempt in range(6):
            m = s.model()
            try:
                inputs = self.concretize(eng, c, p, m, s)
            except Exception as e:      # noqa
                ob["status"], ob["why"] = "unknown", "counter-model could not be made concrete: " + repr(e)[:200]
                return ob
            tried.append(repr(inputs)[:200])
            confirmed = None
            if c.native is not None or c.target is None:
                try:
                    run = self.run_native(c, inputs)
                    confirmed = run is not None and any(n == name for n, _ in run.failed)
                    detail = [d for n, d in run.failed if n == name] if run else None
                except Exception as e:      # noqa
                    confirmed, detail = False, repr(e)[:200]
            if confirmed or confirmed is None:
                ob["status"] = "refuted"
                ob["confirmed"] = bool(confirmed)
                ob["inputs"] = inputs
                ob["inputs_repr"] = repr(inputs)[:400]
                ob["model_text"] = str(m)[:800]
                return ob
            # block this concrete input and ask for another model
            blk = []
            for nm, sv in p.inputs.items():
                try:
                    if sv.kind in ("str", "int", "bool", "val", "seq"):
                        blk.append(sv.t == m.eval(sv.t, model_completion=True))
                    elif sv.kind == "float":
                        blk.append(z3.And(sv.k == m.eval(sv.k, model_completion=True), sv.r == m.eval(sv.r, model_completion=True)))
                except Exception:   # noqa
                    pass
            if not blk:
                break
            s.add(z3.Not(z3.And(blk)))
            if s.check() != z3.sat:
                break
        ob["status"] = "unknown"
        ob["sat"] = True            # the solver refuted the VC; no counter-model replays on the real code
        try:
            ob["model_text"] = str(m)[:1500]
        except Exception:      # noqa
            pass
        ob["why"] = "counter-models do not replay natively (abstraction of a callee/UF): " + "; ".join(tried[:3])
        return ob

    def cvc5_check(self, solver, timeout_s=20):
        import subprocess, tempfile
        try:
            txt = solver.to_smt2().replace("seq.nth_i", "seq.nth")
            if "seq.nth_u" in txt:
                txt = txt.replace("(check-sat)", "")
                import re as _re
                decl = ""
                if "(Seq Val)" in txt:
                    decl = "(declare-fun seq.nth_u ((Seq Val) Int) Val)\n"
                # declarations must come after the datatype: put before the first assert
                i = txt.find("(assert")
                txt = txt[:i] + decl + txt[i:] + "\n(check-sat)\n"
            with tempfile.NamedTemporaryFile("w", suffix=".smt2", delete=False, dir=os.environ.get("PYVC_TMP", None)) as f:
                f.write("(set-logic ALL)\n" + txt)
                fn = f.name
            try:
                out = subprocess.run(["/usr/bin/cvc5", "--strings-exp", f"--tlimit={timeout_s * 1000}", fn],
                                     capture_output=True, text=True, timeout=timeout_s + 5)
                o = out.stdout.strip().splitlines()
                return o[0] if o else "error:" + out.stderr[:100]
            finally:
                os.unlink(fn)
        except Exception as e:      # noqa
            return "error:" + repr(e)[:80]

    # ------------------------------------------------------------------ models -> python
    def concretize(self, eng, c, p: Path, m, solver=None):
        out = {}
        sig = inspect.signature(c.fn)
        objs = {}
        if getattr(c, "heap_inputs", False):
            # object-graph inputs: rebuild dictionaries / prototype links; candidate keys = string inputs
            objs["__heap__"] = True
            objs["__strings__"] = [z3_str(m.eval(sv.t, model_completion=True)) for sv in p.inputs.values() if sv.kind == "str"]
        for name in sig.parameters:
            out[name] = self.sv_to_py(eng, p, m, p.inputs[name], objs)
        return out

    def real_to_float(self, rv):
        fr = Fraction(rv.numerator_as_long(), rv.denominator_as_long()) if z3.is_rational_value(rv) else None
        if fr is None:
            # algebraic number
            return float(rv.approx(20).as_fraction())
        try:
            return float(fr)
        except OverflowError:
            return math.inf if fr > 0 else -math.inf

    def flt_to_py(self, k, r):
        k = k.as_long()
        if k == NAN:
            return math.nan
        if k == PINF:
            return math.inf
        if k == NINF:
            return -math.inf
        if k == NZERO:
            return -0.0
        return self.real_to_float(r)

    def sv_to_py(self, eng, p, m, sv: SV, objs):
        ev = lambda t: m.eval(t, model_completion=True)
        k = sv.kind
        if k == "str":
            return z3_str(ev(sv.t))
        if k == "int":
            return ev(sv.t).as_long()
        if k == "bool":
            return z3.is_true(ev(sv.t))
        if k == "float":
            return self.flt_to_py(ev(sv.k), ev(sv.r))
        if k == "val":
            return self.val_to_py(eng, p, m, ev(sv.t), objs)
        if k == "seq":
            t = ev(sv.t)
            n = ev(z3.Length(sv.t)).as_long()
            return tuple(self.val_to_py(eng, p, m, ev(sv.t[i]), objs) for i in range(n))
        if k == "ref":
            return self.ref_to_py(eng, p, m, ev(sv.cls).as_long(), ev(sv.ref).as_long(), objs)
        if k == "none":
            return None
        raise Unsupported(f"concretize {k}")

    def val_to_py(self, eng, p, m, v, objs):
        from microjs.values import UNDEFINED, NULL
        ev = lambda t: m.eval(t, model_completion=True)
        name = v.decl().name()
        if name == "VUndef":
            return UNDEFINED
        if name == "VNull":
            return NULL
        if name == "VNone":
            return None
        if name == "VBool":
            return z3.is_true(v.arg(0))
        if name == "VInt":
            return v.arg(0).as_long()
        if name == "VFlt":
            return self.flt_to_py(v.arg(0), v.arg(1))
        if name == "VStr":
            return z3_str(v.arg(0))
        if name == "VRef":
            return self.ref_to_py(eng, p, m, v.arg(0).as_long(), v.arg(1).as_long(), objs)
        raise Unsupported(f"val_to_py {name}")

    def ref_to_py(self, eng, p, m, cls_i, ref, objs):
        """materialise an *initial-heap* object from the model"""
        key = (cls_i, ref)
        if key in objs:
            return objs[key]
        if cls_i >= len(CLASSES):
            raise Unsupported("class index outside the class table (unconstrained heap cell of the counter-model)")
        cn = CLASSES[cls_i]
        ev = lambda t: m.eval(t, model_completion=True)
        import microjs.values as V
        h0 = lambda field: z3.Const(f"H0_{field}", z3.ArraySort(z3.IntSort(), p.field_sort(field)))
        def seq_items(t):
            n = ev(z3.Length(t)).as_long()
            return [self.val_to_py(eng, p, m, ev(t[i]), objs) for i in range(min(n, 64))]
        if cn in ("list", "tuple"):
            items = seq_items(z3.Select(h0("list.items"), ref))
            o = items if cn == "list" else tuple(items)
            objs[key] = o
            return o
        if cn == "JSArray":
            o = V.JSArray()
            objs[key] = o
            ev_el = ev(z3.Select(h0("_elements"), ref))
            if ev_el.decl().name() == "VRef":
                o._elements = self.ref_to_py(eng, p, m, CLS["list"], ev_el.arg(1).as_long(), objs)
                if not isinstance(o._elements, list):
                    o._elements = list(o._elements)
            return o
        if cn == "dict":
            o = {}
            objs[key] = o
            dom = z3.Select(h0("dict.dom"), ref)
            mp = z3.Select(h0("dict.map"), ref)
            order = z3.Select(h0("dict.order"), ref)
            cands = []
            try:
                n = ev(z3.Length(order)).as_long()
                cands += [z3_str(ev(order[i])) for i in range(min(n, 16))]
            except Exception:      # noqa
                pass
            cands += [x for x in objs.get("__strings__", []) if x not in cands]
            for kx in cands:
                if z3.is_true(ev(z3.Select(dom, z3.StringVal(kx)))):
                    o[kx] = self.val_to_py(eng, p, m, ev(z3.Select(mp, z3.StringVal(kx))), objs)
            return o
        if cn == "JSObject":
            o = V.JSObject()
        elif cn == "JSCallableObject":
            o = V.JSCallableObject(lambda *a: V.UNDEFINED)
        elif cn == "JSFunction":
            o = V.JSFunction("f", [], b"")
        elif cn == "JSRegExp":
            o = V.JSRegExp("a", "")
        elif cn == "JSBoundMethod":
            o = V.JSBoundMethod(lambda this, *a: V.UNDEFINED)
        elif cn == "PyCallable":
            o = (lambda *a: V.UNDEFINED)
        elif cn == "JSArrayBuffer":
            o = V.JSArrayBuffer(0)
        elif cn.startswith("JS") and hasattr(V, cn):
            o = getattr(V, cn)(0)
        elif cn == "VM":
            from microjs.vm import VM
            o = VM()
        elif cn == "Compiler":
            from microjs.compiler import Compiler
            o = Compiler()
        elif cn == "CallFrame":
            from microjs.vm import CallFrame
            from microjs.compiler import CompiledFunction
            o = CallFrame(func=CompiledFunction("f", [], b"", [], [], 0), ip=0, bp=0, locals=[], this_value=V.UNDEFINED)
        elif cn == "Context":
            from microjs.context import Context
            o = Context()
        elif cn == "Lexer":
            from microjs.lexer import Lexer
            o = Lexer("")
        elif cn == "RegexParser":
            from microjs.regex.parser import RegexParser
            o = RegexParser("")
        elif cn == "JSError":
            from microjs.errors import JSError
            o = JSError("m")
        elif objs.get("__heap__"):
            o = object()            # a host object of a class the script never sees (placeholder in a counter-model)
        else:
            raise Unsupported(f"materialise {cn}")
        objs[key] = o
        if isinstance(o, V.JSObject) and objs.get("__heap__"):
            # own-property dictionaries and prototype link of the initial heap
            for fld in ("_properties", "_getters", "_setters"):
                dv = ev(z3.Select(h0(fld), ref))
                if dv.decl().name() == "VRef" and dv.arg(0).as_long() < len(CLASSES) and CLASSES[dv.arg(0).as_long()] == "dict":
                    d = self.ref_to_py(eng, p, m, dv.arg(0).as_long(), dv.arg(1).as_long(), objs)
                    getattr(o, fld).update(d)
            kv = ev(z3.Select(h0("_key_order"), ref))
            if kv.decl().name() == "VRef" and kv.arg(0).as_long() < len(CLASSES) and CLASSES[kv.arg(0).as_long()] == "dict":
                o._key_order = dict.fromkeys(self.ref_to_py(eng, p, m, kv.arg(0).as_long(), kv.arg(1).as_long(), objs))
            pv = ev(z3.Select(h0("_prototype"), ref))
            depth = objs.get("__depth__", 0)
            if pv.decl().name() == "VRef" and depth < 6:
                objs["__depth__"] = depth + 1
                try:
                    pr = self.val_to_py(eng, p, m, pv, objs)
                finally:
                    objs["__depth__"] = depth
                o._prototype = pr if isinstance(pr, V.JSObject) else None
        return o

    # ------------------------------------------------------------------ native execution
    def native_real(self, c: api.Contract, inputs):
        if c.native is None:
            return None
        env = {n: inputs[n] for n in c.env}
        return c.native(**env)

    def run_native(self, c: api.Contract, inputs):
        """execute the harness natively; returns list of failed check names (None if assume failed)"""
        g = c.fn.__globals__
        run = api.NativeRun()
        api.NativeRun.current = run
        api.GHOST.clear()
        old = g.get("REAL", None)
        try:
            g["REAL"] = self.native_real(c, inputs)
            g.update(c.bind)
            try:
                c.fn(**inputs)
            except api.AssumeFailed:
                return None
            except Exception as e:     # noqa: exception escaping the harness
                run.failed.append(("harness-no-exception", (type(e).__name__, str(e)[:200])))
        finally:
            api.NativeRun.current = None
            g["REAL"] = old
        return run

    def crosscheck(self, eng, c, p: Path):
        """one concrete input of this path, executed natively: every check must pass"""
        s = z3.Solver()
        s.set("timeout", 3000)
        for a in p.pc:
            s.add(a)
        # prefer inputs that do not exercise abstracted (uninterpreted) string conversions
        s.push()
        for name, sv in p.inputs.items():
            if sv.kind == "seq":
                j = z3.Int("j!xc")
                s.add(z3.ForAll([j], z3.Implies(z3.And(j >= 0, j < z3.Length(sv.t)), z3.Not(Val.is_VStr(sv.t[j])))))
            elif sv.kind == "val":
                s.add(z3.Not(Val.is_VStr(sv.t)))
        try:
            if s.check() != z3.sat:
                s.pop()
                if s.check() != z3.sat:
                    return {"status": "no-model"}
        except z3.Z3Exception as e:      # (the solver gave up on this auxiliary query, e.g. under memory pressure: no witness run for this path)
            return {"status": "no-model", "why": repr(e)[:200]}
        try:
            inputs = self.concretize(eng, c, p, s.model())
        except Exception as e:    # noqa
            return {"status": "no-concretize", "why": repr(e)[:200]}
        try:
            run = self.run_native(c, inputs)
        except Exception as e:    # noqa
            return {"status": "native-error", "why": repr(e)[:200], "inputs": repr(inputs)[:300]}
        if run is None:
            return {"status": "assume-false-natively", "inputs": repr(inputs)[:300]}
        if run.failed and p.uf_used:
            return {"status": "uf-dependent", "failed": [n for n, _ in run.failed], "inputs": repr(inputs)[:300]}
        if run.failed:
            return {"status": "mismatch", "failed": [n for n, _ in run.failed], "detail": repr(run.failed)[:400], "inputs": repr(inputs)[:300]}
        return {"status": "agree", "inputs": repr(inputs)[:200]}


def z3_str(t):
    s = t.as_string()
    # z3 escapes non-printable / non-ASCII as \u{..}
    import re
    return re.sub(r"\\u\{([0-9a-fA-F]+)\}", lambda mm: chr(int(mm.group(1), 16)), s)


def find_def(tree, name):
    for n in tree.body:
        if isinstance(n, ast.FunctionDef) and n.name == name:
            return n
    raise KeyError(name)


def src_index_harness(mi: ModuleInfo, pymod, todo):
    """globals of a harness/spec module: defs from its AST; everything else from the live module"""
    if getattr(mi, "_indexed", False):
        return
    for st in mi.tree.body:
        if isinstance(st, ast.FunctionDef):
            mi.globals[st.name] = st
        elif isinstance(st, ast.ClassDef):
            pass
    for k, v in vars(pymod).items():
        if k.startswith("__") or k in mi.globals:
            continue
        if inspect.ismodule(v):
            if v.__name__.startswith(("specs", "contracts")):
                sub = harness_module_info(v)
                mi.globals[k] = s_py(("module", sub), "module")
                todo.append(v)
            elif v.__name__ in ("math",):
                mi.globals[k] = s_py(("module", "math"), "module")
            continue
        if inspect.isfunction(v) and v.__module__.startswith(("specs", "contracts")) and v.__module__ != pymod.__name__:
            sub = harness_module_info(sys.modules[v.__module__])
            todo.append(sys.modules[v.__module__])
            mi.globals[k] = ("import", v.__module__, v.__name__)
            continue
        if isinstance(v, (int, float, str, bool, tuple, frozenset)) or v is None:
            try:
                mi.globals[k] = lift(v)
            except Exception:
                pass
    mi._indexed = True


# type invariants of fields, taken from the annotations / constructors in the source
# (assumptions, listed in the evidence under `assumed_field_types`)
FIELD_TYPES = {
    "VM.stack": "list", "VM.call_stack": "list", "VM.globals": "dict", "VM.exception_handlers": "list",
    "JSArray._elements": "list", "JSObject._properties": "dict", "JSObject._getters": "dict",
    "JSObject._setters": "dict", "CallFrame.locals": "list", "CallFrame.func": "CompiledFunction",
    "CompiledFunction.constants": "list", "CompiledFunction.bytecode": "bytes",
    "CompiledFunction.locals": "list", "CompiledFunction.params": "list",
    "CompiledFunction.free_vars": "list", "CompiledFunction.cell_vars": "list",
    "Compiler.bytecode": "list", "Compiler.source_map": "dict", "Compiler.constants": "list", "Compiler.locals": "list",
    "JSTypedArray._data": "list", "JSFunction.params": "list", "JSFunction._properties": "dict", "JSObject._key_order": "dict?",
    "ForInIterator.keys": "list", "Context._globals": "dict",      # (ForOfIterator.values is an array or a list: the code tests it)
}
