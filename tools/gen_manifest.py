#!/usr/bin/env python3
"""Regenerates /verif/MANIFEST.json from the table below (kept valid at all times)."""
import json, os
V = os.path.dirname(os.path.dirname(os.path.abspath(__file__)))
TECH = "contract-based deductive verification: VCs generated from the AST of the real functions (sidecar contracts, spec functions from ECMA-262), discharged by z3/cvc5; counter-models replayed natively"
NOTE_COMMON = ("Trusted: SMT solvers; the pyvc VC generator and CPython library models (cross-checked natively on every explored path, must-fail canaries); "
               "transcription of ECMA-262 into /verif/specs; modular call rule. Bounded native grids of the same harnesses are reported separately and never counted as proved. ")
CHECKS = {
 "C16": ("proof", "Each String.prototype leaf method (the real closures of VM._make_string_method, re-extracted from the AST every run) is proved equal to its ECMA-262 spec function for all receiver strings and all primitive argument tuples of any length.",
         "Case mapping and trimming are shared uninterpreted functions; string slice lemmas L1-L3 are trusted. Object arguments (ToPrimitive running user code), regex-driven methods (C20) and non-BMP UTF-16 indices are outside the leaf contracts.", "DESIGN.md 5 C16"),
 "C06": ("proof", "values.to_number/to_integer/to_boolean/js_typeof/to_string (non-float), VM._to_int32/_to_uint32, _strict_equals, _abstract_equals, _compare (as used by LT/LE/GT/GE) and the per-opcode slices of VM._execute_opcode are proved equal to the ECMA-262 abstract operations for all primitive operands (stack effect included for the opcode slices).",
         "Floats are (kind, real) pairs with an uninterpreted rounding function (machine arithmetic treated as mathematical); integers held by the engine are assumed to be safe integers (representation invariant). Arithmetic opcode slices, _add, js_mod, js_pow are discharged symbolically only in the thorough tier (bounded grid in quick). Object operands (ToPrimitive) excluded; StringToNumber is a shared uninterpreted function (decided for C18).", "DESIGN.md 5 C06"),
 "C01": ("proof", "VM._check_limits is proved (K1, all inputs) to count every instruction, to raise TimeLimitError on every k-th instruction once the deadline has passed and never spuriously; a lemma bounds the overrun by the polling period k read from the code; structural obligations (K3) show that every opcode dispatch in every run loop is preceded by an unconditional limit check, that no Python handler between the check and Context.eval absorbs or converts a limit error, and that every VM built during an evaluation inherits its deadline.",
         "Wall-clock duration of a single opcode / native operation is out of scope (A-SCOPE). Regex polling is covered by the bounded placement library and C10. K3 analyses are syntactic and conservative (name-based reachability).", "DESIGN.md 5 C01"),
 "C02": ("proof", "VM._check_limits memory clause (K1): a normal return implies the usage estimate is within memory_limit. K3: script-to-script calls push frames without host recursion, every host re-entry passes the explicit native-depth guard, RETURN and _throw discard operands/handlers. K5: for every statement skeleton up to nesting depth 2 (3 in thorough) compiled by the real compiler, operand and handler depths agree at every join and loop back-edge (no residue per iteration).",
         "K5 relies on A-PARAM (the compiler treats children only by splicing their code) and on the opcode stack-effect table (validated at run time by the residue monitor). Heap data sizes are out of scope (documented).", "DESIGN.md 5 C02"),
 "C05": ("proof", "K5 compile schemes: every statement skeleton (loop kind x exit kind x enclosing construct, nesting <= 2 quick / 3 thorough) is compiled by the real compiler, decoded with the VM's width table and abstractly interpreted: jumps land on instruction boundaries, operand/handler depth is consistent at every join. The same skeletons are run and compared with a reference interpreter implementing ECMAScript completion semantics (bounded part).",
         "Whole-program meaning beyond the composed schemes is not decided (no compiler-correctness proof); closure/cell behaviour is covered by the bounded generators of C15. A-PARAM assumed.", "DESIGN.md 5 C05"),
 "C07": ("proof", "K3 obligations on VM._throw (innermost handler, frame and operand truncation, thrown value unchanged, abandonment of native frames), on both run loops and on TRY_START; K5 try/catch/finally schemes (handler bracket discipline on every exit path). Bounded: skeleton semantics vs the reference interpreter, throw site x built-in x handler placement product, error objects.",
         "Source positions of runtime errors (lineNumber/columnNumber) and stack text are not decided (documented limitation of the engine). K3 checks are syntactic.", "DESIGN.md 5 C07"),
 "C14": ("proof", "Compiler._emit/_emit_jump/_patch_jump are proved (K1, unbounded operands and code lengths): appended bytes are in range(256), a 1-byte operand is stored exactly or the program is refused with JSError, a 16-bit jump target decodes (low | high << 8, the VM's expression, tied by K2) to the intended target or is refused; the bytes before/after are unchanged. K3/K2: both VM decoders and the compiler's width table agree.",
         "Bounded part: shape templates swept across 255/256 and 65535/65536 with closed-form results.", "DESIGN.md 5 C14"),
 "C03": ("proof", "K3: every reflective call (getattr/setattr/hasattr/...) in vm.py, context.py and values.py has a literal attribute name; the script-controlled key of _get/_set/_delete_property flows only into property dictionaries, conversions and the fixed method tables; every _make_*_method factory selects from a literal table. Bounded: receiver kind x property name (all attributes of internal classes, dunders, fresh names) x access form grid with a run-time monitor asserting that every value pushed or stored is a JavaScript value.",
         "Sink typing of every native is checked at run time by the monitor (bounded), not proved.", "DESIGN.md 5 C03"),
 "C04": ("proof", "K3: every raise statement of src/microjs is classified: only the JSError family, or a private class converted at a listed site; every emitted opcode has a branch. Bounded: source fuzz (soups, truncations, splices, mutations of the corpus) under a watchdog with JSSyntaxError positions checked, and every built-in called over an adversarial argument grid.",
         "Absence of run-time errors is proved per function only where a K1 contract exists (C06, C14, C16, C17 coercions); the rest is bounded. Embedder-supplied callables raising their own exceptions are out of scope.", "DESIGN.md 5 C04"),
 "C09": ("exploration", "Bounded (as planned in DESIGN): the character sets of \\d \\w \\s . and negations are checked over all 0x110000 code points through the real engine (exhaustion); all patterns of up to 2 atoms (3 in thorough) over a 3-letter alphabet with every operator kind are compared on 43 subjects with a reference backtracking matcher on the fragment where the dialects coincide.",
         "The whole-matcher equivalence is out of deductive reach; no unbounded claim is made. Captures inside quantified groups are compared only where the reference dialect agrees with ECMAScript.", "DESIGN.md 5 C09"),
 "C10": ("proof", "K3: the regex parser raises only RegExpError, construction converts it into a catchable SyntaxError, RegexStackOverflow/RegexTimeoutError are converted at every matcher entry point, the main matcher loop counts steps, bounds its stack and polls the deadline. Bounded: pattern soups/mutations through every regex API and catastrophic-backtracking families under a watchdog.",
         "Sub-matchers of look-around have no step budget (known findings). K3 checks are syntactic.", "DESIGN.md 5 C10"),
 "C11": ("proof", "K3: set/get/eval apply _to_js/_to_python exactly once per crossing, bool before int, fresh containers, own data properties only, native call protocol passes arguments positionally and converts results. Bounded: generated JSON-like values (round trip, freshness), script results, shared/cyclic structures, exposed callables, interleavings.",
         "The recursive conversions are not proved by induction (loops/comprehensions outside the VC subset); bounded only.", "DESIGN.md 5 C11"),
 "C12": ("proof", "K3: no module-level or class-level mutable state, no caches, per-context construction of built-ins, one globals dictionary shared by identity with every VM of a context, fresh VM per eval, _current_vm reset on every exit. Bounded: all histories of length 2 and sampled histories up to 5 over two contexts against a one-dictionary-per-context model.",
         "'As if the error had not happened' over arbitrary histories is a hyper-property and is only sampled (bounded).", "DESIGN.md 5 C12"),
 "C13": ("proof", "Exhaustion: every ordered pair of binary operators, minimally parenthesised, evaluates like the tree prescribed by ECMAScript precedence/associativity, and parser.PRECEDENCE orders operators like ECMA-262. Bounded: trivia and parenthesis insertion, literal spellings, rejection of malformed sources.",
         "The precedence-climbing loop for deeper trees and the print/parse round trip are not decided. Eight rejection cases are known findings.", "DESIGN.md 5 C13"),
 "C15": ("proof", "K3: every consumer of set iteration order in the compiler feeds name-keyed tables only; slots, cells and closure wiring are resolved by name; no hidden inputs (clock, random, id, hash) outside the allow-list. Bounded: generated closure-heavy programs with a known result (Python twin) under 16 hash seeds and shuffled batch orders.",
         "K3 is syntactic (allow-listed forms).", "DESIGN.md 5 C15"),
 "C17": ("proof", "K1: the element coercion of every integer typed-array kind equals ToInt8..ToUint32 for all Numbers and never raises. Bounded: (method, receiver, args) grid against a list model written from ECMA-262 23.1.3, callback protocol traces, sort stability/undefined-last, aliasing, length/index writes, typed-array views.",
         "Array methods themselves are checked against the list model only on the grid (bounded): their loops need invariants that were not written. subarray copying is a known finding.", "DESIGN.md 5 C17"),
 "C18": ("proof", "Exhaustion: Number->String over every (digit count, decimal exponent, sign) shape of the shortest representation (A-IEEE: repr gives the shortest digits). Bounded: toFixed/toExponential/toPrecision/toString(radix) against exact-rational spec functions, parseInt/parseFloat/Number grids, Math special-value table and never-raises grid.",
         "Math accuracy within one ulp is not decided. Digit generation of toFixed/toPrecision/toExponential is a known finding (binary floating point rounding).", "DESIGN.md 5 C18"),
 "C19": ("proof", "K3 adapter obligations on the real closures (constants rejected by hook, catchable error classes, no host encoder, numbers by Number::toString). Bounded: generated values, texts and near-miss texts against an independent serializer written from ECMA-262 25.5 and the JSON grammar; round trips.",
         "json.loads with parse_constant is an assumed dependency contract (acceptance of the JSON grammar), cross-checked on the generated texts.", "DESIGN.md 5 C19"),
 "C20": ("exploration", "Bounded: sampled histories up to length 3 (4 in thorough) over {exec, test, lastIndex = k, read} x flags x patterns (incl. empty-matching) x subjects against an explicit RegExpBuiltinExec state machine, and String match/replace/replaceAll/split/search against the ECMAScript algorithms (GetSubstitution, @@split) over an abstract matcher.",
         "No deductive obligation was discharged for this property in the time available; claimed as exploration.", "DESIGN.md 5 C20"),
}
NA_REASON = "the planned heap-model contracts (DESIGN.md 5 C08) and the bounded object-graph histories were not built in the time available; no check is claimed for this property"
m = {"version": 1,
     "setup_cmd": "cd /verif && python3-vt check.py --selftest",
     "hooks": {"guard": "MICROJS_VERIF", "enable": "no repository hooks: ghost state and monitors wrap real functions from sidecar files under /verif",
               "baseline_off_cmd": "cd /repo && /venv/bin/python -m pytest -ra -q -p no:cacheprovider --timeout=900 --continue-on-collection-errors",
               "source_commits": [], "add_only": True},
     "engines": [{"name": "pyvc", "path": "/verif/pyvc", "serves_properties": sorted(CHECKS),
                  "kind_free_text": "VC generator over the AST of the real functions (re-read every run) discharged by z3/cvc5; sidecar contracts; native replay"}],
     "checks": [], "notes": "see DESIGN.md; known findings in known_findings.json; fix: commits in /repo are listed there as fixed entries",
     "not_applicable": []}
for i in range(1, 21):
    pid = "C%02d" % i
    if pid in CHECKS:
        cat, text, note, ref = CHECKS[pid]
        m["checks"].append({"property_id": pid, "quick_cmd": f"cd /verif && python3-vt check.py {pid} --tier quick",
                            "thorough_cmd": f"cd /verif && python3-vt check.py {pid} --tier thorough",
                            "evidence_file": f"/verif/evidence/{pid}.json",
                            "replay_cmd_template": "cd /verif && python3-vt check.py --replay {path}", "engine": "pyvc",
                            "level_claimed": {"category": cat, "text": text, "design_ref": ref},
                            "level_note": NOTE_COMMON + note, "technique": TECH})
    else:
        m["not_applicable"].append({"property_id": pid, "reason": NA_REASON})
json.dump(m, open(os.path.join(V, "MANIFEST.json"), "w"), indent=1)
print("checks:", [c["property_id"] for c in m["checks"]])
