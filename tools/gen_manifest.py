#!/usr/bin/env python3
"""Regenerates /verif/MANIFEST.json from the table below (kept valid at all times)."""
import json, os
V = os.path.dirname(os.path.dirname(os.path.abspath(__file__)))
TECH = "contract-based deductive verification: VCs generated from the AST of the real functions (sidecar contracts, spec functions from ECMA-262), discharged by z3/cvc5; counter-models replayed natively"
NOTE_COMMON = ("Trusted: SMT solvers; the pyvc VC generator and CPython library models (cross-checked natively on every explored path, must-fail canaries); "
               "transcription of ECMA-262 into /verif/specs; modular call rule. Bounded native grids of the same harnesses are reported separately and never counted as proved. ")
CHECKS = {
 "C16": ("proof", "Each String.prototype leaf method (the real closures of VM._make_string_method, re-extracted from the AST every run) is proved equal to its ECMA-262 spec function for all receiver strings and all primitive argument tuples of any length.",
         "Case mapping and trimming are shared uninterpreted functions; string slice lemmas L1-L3 are trusted. Object arguments (ToPrimitive running user code), regex-driven methods (C20) and non-BMP UTF-16 indices are outside the leaf contracts.", "DESIGN.md 5 C16"),
 "C06": ("proof", "values.to_number/to_integer/to_boolean/js_typeof/to_string (non-float), VM._to_int32/_to_uint32, _strict_equals, _abstract_equals, _compare (as used by LT/LE/GT/GE) and the per-opcode slices of VM._execute_opcode are proved equal to the ECMA-262 abstract operations for all primitive operands (stack effect included for the opcode slices).",
         "Floats are (kind, real) pairs with an uninterpreted rounding function (machine arithmetic treated as mathematical); integers held by the engine are assumed to be safe integers (representation invariant). Arithmetic opcode slices, _add, js_mod, js_pow are discharged symbolically only in the thorough tier (bounded grid in quick). Object operands (ToPrimitive) excluded; StringToNumber is a shared uninterpreted function (decided for C18).", "DESIGN.md 5 C06"),
 "C01": ("proof", "VM._check_limits is proved (K1, all inputs) to count every instruction, to raise TimeLimitError on every k-th instruction once the deadline has passed and never spuriously; a lemma bounds the overrun by the polling period k read from the code; structural obligations (K3) show that every opcode dispatch in every run loop is preceded by an unconditional limit check, that no Python handler between the check and Context.eval absorbs or converts a limit error, and that every VM built during an evaluation inherits its deadline.",
         "Wall-clock duration of a single opcode / native operation is out of scope (A-SCOPE). Regex polling is covered by the bounded placement library and C10. K3 analyses are syntactic and conservative (name-based reachability).", "DESIGN.md 5 C01"),
 "C02": ("proof", "VM._check_limits memory clause (K1): a normal return implies the usage estimate is within memory_limit. K3: script-to-script calls push frames without host recursion, every host re-entry passes the explicit native-depth guard, RETURN and _throw discard operands/handlers. K5: for every statement skeleton up to nesting depth 2 (3 in thorough) compiled by the real compiler, operand and handler depths agree at every join and loop back-edge (no residue per iteration).",
         "K5 relies on A-PARAM (the compiler treats children only by splicing their code) and on the opcode stack-effect table (validated at run time by the residue monitor). Heap data sizes are out of scope (documented).", "DESIGN.md 5 C02"),
 "C05": ("proof", "K5 compile schemes: every statement skeleton (loop kind x exit kind x enclosing construct, nesting <= 2 quick / 3 thorough) is compiled by the real compiler, decoded with the VM's width table and abstractly interpreted: jumps land on instruction boundaries, operand/handler depth is consistent at every join. The same skeletons are run and compared with a reference interpreter implementing ECMAScript completion semantics (bounded part).",
         "Whole-program meaning beyond the composed schemes is not decided (no compiler-correctness proof); closure/cell behaviour is covered by the bounded generators of C15. A-PARAM assumed.", "DESIGN.md 5 C05"),
 "C07": ("proof", "K3 obligations on VM._throw (innermost handler, frame and operand truncation, thrown value unchanged, abandonment of native frames), on both run loops and on TRY_START; K5 try/catch/finally schemes (handler bracket discipline on every exit path). Bounded: skeleton semantics vs the reference interpreter, throw site x built-in x handler placement product, error objects.",
         "Source positions of runtime errors (lineNumber/columnNumber) and stack text are not decided (documented limitation of the engine). K3 checks are syntactic.", "DESIGN.md 5 C07"),
 "C14": ("proof", "Compiler._emit/_emit_jump/_patch_jump are proved (K1, unbounded operands and code lengths): appended bytes are in range(256), a 1-byte operand is stored exactly or the program is refused with JSError, a 16-bit jump target decodes (low | high << 8, the VM's expression, tied by K2) to the intended target or is refused; the bytes before/after are unchanged. K3/K2: both VM decoders and the compiler's width table agree.",
         "Bounded part: shape templates swept across 255/256 and 65535/65536 with closed-form results.", "DESIGN.md 5 C14"),
}
NA_REASON = "check not built yet (build in progress; see DESIGN.md section 5)"
m = {"version": 1,
     "setup_cmd": "cd /verif && python3-vt check.py --selftest",
     "hooks": {"guard": "MICROJS_VERIF", "enable": "no repository hooks: ghost state and monitors wrap real functions from sidecar files under /verif",
               "baseline_off_cmd": "cd /repo && /venv/bin/python -m pytest -ra -q -p no:cacheprovider --timeout=900 --continue-on-collection-errors",
               "source_commits": [], "add_only": True},
     "engines": [{"name": "pyvc", "path": "/verif/pyvc", "serves_properties": sorted(CHECKS),
                  "kind_free_text": "VC generator over the AST of the real functions (re-read every run) discharged by z3/cvc5; sidecar contracts; native replay"}],
     "checks": [], "notes": "see DESIGN.md; known findings in known_findings.json; fix: commits in /repo are listed there as fixed entries",
     "not_applicable": []}
for i in range(1, 21):
    pid = "C%02d" % i
    if pid in CHECKS:
        cat, text, note, ref = CHECKS[pid]
        m["checks"].append({"property_id": pid, "quick_cmd": f"cd /verif && python3-vt check.py {pid} --tier quick",
                            "thorough_cmd": f"cd /verif && python3-vt check.py {pid} --tier thorough",
                            "evidence_file": f"/verif/evidence/{pid}.json",
                            "replay_cmd_template": "cd /verif && python3-vt check.py --replay {path}", "engine": "pyvc",
                            "level_claimed": {"category": cat, "text": text, "design_ref": ref},
                            "level_note": NOTE_COMMON + note, "technique": TECH})
    else:
        m["not_applicable"].append({"property_id": pid, "reason": NA_REASON})
json.dump(m, open(os.path.join(V, "MANIFEST.json"), "w"), indent=1)
print("checks:", [c["property_id"] for c in m["checks"]])
