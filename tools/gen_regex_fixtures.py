"""Development-time generator of /verif/spec_fixtures/regex_v8.json (needs node; never run by a check)."""
import random, json, subprocess, sys, itertools
rng = random.Random(20260926)
ATOMS = ["a", "b", "c", ".", "[ab]", "[^a]", "[a-c]", "\\w", "\\d", "x"]
QUANTS = ["*", "+", "?", "{2}", "{1,2}", "{0,1}", "{1,}", "{0,2}", "*?", "+?", "??", "{1,2}?", "{2,}?", ""]
def gen(depth, ngroups):
    """returns pattern text; ngroups is a 1-element list counting capture groups opened so far"""
    r = rng.random()
    if depth <= 0 or r < 0.35:
        a = rng.choice(ATOMS)
        if ngroups[0] and rng.random() < 0.18:
            a = "\\" + str(rng.randint(1, ngroups[0]))
        return a + (rng.choice(QUANTS) if rng.random() < 0.4 else "")
    if r < 0.55:
        return "".join(gen(depth - 1, ngroups) for _ in range(rng.randint(2, 3)))
    if r < 0.7:
        return gen(depth - 1, ngroups) + "|" + gen(depth - 1, ngroups)
    if r < 0.9:
        kind = rng.choice(["(", "(", "(", "(?:", "(?=", "(?!", "(?<=", "(?<!"])
        if kind == "(":
            ngroups[0] += 1
            n = ngroups[0]
            inner = gen(depth - 1, ngroups)
            if rng.random() < 0.12:
                inner = inner + "\\" + str(n)      # reference to the group from inside itself
        else:
            inner = gen(depth - 1, ngroups)
        q = rng.choice(QUANTS) if kind in ("(", "(?:") and rng.random() < 0.6 else ""
        return kind + inner + ")" + q
    return rng.choice(["^", "$", "\\b", "\\B"]) + gen(depth - 1, ngroups)
pats = set()
# hand-written families (captures in loops, backrefs, look-arounds)
HAND = ["(a\\1)", "(a|b\\1)+", "(\\1a)+b", "((a)|b?)+", "(?:(a)|b)+", "(?=(a)b|ac)ac", "(?=b{1,2}(b)+)", "(?=(a)b|ac)a\\1c", "(a*)*b", "(a+)+$", "((a)|(b))*", "(a|ab)(c|bcd)(d*)",
        "(z)((a+)?(b+)?(c))*", "(a)|(b)", "(?:(a)|(b)|(c))+", "(a{1,2}){2}", "((a){2}b)+\\2", "(a)(?=\\1)", "(?<=(a))b", "(?<=(a)(b))c", "(?<!(a))b\\1", "(?!(a))b\\1c",
        "^(?:(a)|(b))*$", "(a?)*?b", "(a|b)*?c", "(.*)(b+)", "(.*?)(b+)", "(.+?)\\1", "(a)?(b)?\\1\\2", "((a)|(b))+?c", "(?=(\\w+))\\1c", "a(?=(b))?\\1", "(?:a(?=(b)))+", "(a(?!b))+", "\\b(a+)\\b", "(^a|b$)+", "((a)\\2)+"]
HAND += ["(?!(a)b)ac", "(?!(a)(b)c)ab", "(?!(a)b)a(c)", "(?<!(a)b)c", "(?<!(b)(a))c", "(?!(a+)b)a*c", "(?!(?:(a)|(b))c)[ab]b", "(?=(a)b|(a)c)a", "(?=(?:(a)b|a)c)a",
         "(?:(?!(a)b)a)+", "(?=(a+?)b|(a+)c)a+", "(?!(a)\\1b)aac", "(?<=(a)b|(c))d", "(?<!(a)b|c)d", "(?=(a)(?!(b)c)b)ab", "(?!(?=(a))b)a", "(?=(?!(a)b)(a))ac",
         "(a)(?!(b)c)b\\2", "((?!(a)b)a)+c", "(?!(a)|(b))c", "(?!(a){2}b)aac"]
# nested quantifiers over bodies that can match the empty string
HAND += ["((a?){1,3})+c", "(?:(?:a*){2})*b", "(?:(?:a|){2,})*?c", "(?:(a*){2})+$", "((a*)+)*b", "((a|b?)+)*c", "(?:(?:a?)+){2}b", "((?:a*)+?)+b", "(?:(a?){2})*", "((a*){1,2})+?b",
         "(?:(?:a|b*){1,}){2}c", "((?:a?b?){2})*c", "(?:(a{0,2}){2,})+b", "((a*)*)*", "(?:(?=a)|b*){2}a", "((?:)|a)+b", "(a*?){2,3}b", "(?:(a+)?){3}b"]
pats.update(HAND)
while len(pats) < 2600:
    ng = [0]
    p = gen(3, ng)
    if len(p) <= 22:
        pats.add(p)
pats = sorted(pats)
subs_all = [""] + ["".join(t) for n in range(1, 4) for t in itertools.product("abc", repeat=n)]
extra = ["ac", "aac", "abd", "cd", "abcd", "aabbcc", "abcabc", "aaab", "abab", "bbbb", "aAbB", "a1b2", "xaby", "abcd", "a b", "ab\nab", "aaaa", "cab", "bacab"]
cases = []
for p in pats:
    subs = rng.sample(subs_all, 9) + rng.sample(extra, 5)
    fl = rng.choice(["", "", "", "i", "m", "s"])
    cases.append({"p": p, "f": fl, "s": subs})
json.dump(cases, open("/tmp/dev/rx_cases.json", "w"))
open("/tmp/dev/rx.js", "w").write(r'''
const fs = require("fs");
const cases = JSON.parse(fs.readFileSync("/tmp/dev/rx_cases.json", "utf8"));
const out = [];
for (const c of cases) {
  let re;
  try { re = new RegExp(c.p, c.f); } catch (e) { continue; }
  const res = [];
  for (const s of c.s) {
    let m; 
    try { m = re.exec(s); } catch (e) { res.push("ERR"); continue; }
    res.push(m === null ? null : [m.index].concat(Array.from(m, x => x === undefined ? null : x)));
  }
  out.push({p: c.p, f: c.f, s: c.s, r: res});
}
fs.writeFileSync("/verif/spec_fixtures/regex_v8.json", JSON.stringify(out));
console.log(out.length, "patterns");
''')
subprocess.run(["node", "/tmp/dev/rx.js"], check=True)
