#!/usr/bin/env python3
"""Development tool: run the quick check of a seeded change's property against a scratch copy of the
repository with the change applied (never touches /repo).  usage: run_seeds.py <dir-with-seed-dirs> [name-substring] [--jobs N]
Each seed dir: patch.diff (+ meta.json with "property", or the name starts with Cnn-)."""
import sys, os, json, subprocess, shutil, re, concurrent.futures as cf, time
V = os.path.dirname(os.path.dirname(os.path.abspath(__file__)))


def run(seed_dir, tier="quick"):
    name = os.path.basename(seed_dir.rstrip("/"))
    meta = {}
    mp_ = os.path.join(seed_dir, "meta.json")
    if os.path.exists(mp_):
        meta = json.load(open(mp_))
    prop = meta.get("property") or re.match(r"(C\d\d)", name).group(1)
    work = f"/tmp/seedrun/{name}"
    shutil.rmtree(work, ignore_errors=True)
    os.makedirs(work)
    t0 = time.time()
    try:
        shutil.copytree("/repo/src", work + "/src")
        shutil.copytree("/repo/tests", work + "/tests")
        r = subprocess.run(["patch", "-p1", "--no-backup-if-mismatch", "-i", os.path.join(seed_dir, "patch.diff")], cwd=work, capture_output=True, text=True)
        if r.returncode != 0:
            return name, prop, "patch-failed", (r.stdout + r.stderr)[-300:], 0
        env = dict(os.environ, MICROJS_SRC=work + "/src", VERIF_OUT=work + "/out", VERIF_NPROC="6")
        r = subprocess.run(["python3-vt", os.path.join(V, "check.py"), prop, "--tier", tier], cwd=V, env=env, capture_output=True, text=True, timeout=3000)
        lines = [l for l in r.stdout.splitlines() if l.startswith("VIOLATION") or l.startswith("  obligation")]
        und = [l for l in r.stdout.splitlines() if l.startswith("UNDECIDED")]
        status = "caught" if r.returncode == 1 else ("missed" if r.returncode == 0 else f"rc{r.returncode}")
        return name, prop, status, "\n".join(lines[:6] + und[:3])[:900] + ("\n" + r.stdout[-300:] if status.startswith("rc") else ""), time.time() - t0
    finally:
        shutil.rmtree(work, ignore_errors=True)


if __name__ == "__main__":
    base = sys.argv[1]
    sub = sys.argv[2] if len(sys.argv) > 2 and not sys.argv[2].startswith("--") else ""
    jobs = int(sys.argv[sys.argv.index("--jobs") + 1]) if "--jobs" in sys.argv else 3
    dirs = sorted(os.path.join(base, d) for d in os.listdir(base) if sub in d and os.path.exists(os.path.join(base, d, "patch.diff")))
    res = []
    with cf.ThreadPoolExecutor(jobs) as ex:
        for name, prop, status, detail, dt in ex.map(run, dirs):
            print(f"{name}: {status} ({dt:.0f}s)", flush=True)
            for l in detail.splitlines()[:5]:
                print("     " + l[:220], flush=True)
            res.append({"seed": name, "property": prop, "status": status, "detail": detail})
    json.dump(res, open("/tmp/seedrun_results.json", "w"), indent=1)
    print(sum(r["status"] == "caught" for r in res), "caught of", len(res))
