"""Development-time generator of /verif/spec_fixtures/regex_v8_2.json (needs node; never run by a check).
Second family: systematic products rather than random patterns --
 (1) quantified alternations in which one branch captures inside a look-around and the other branch does not
     (the captures of an iteration must not survive into the next one),
 (2) case-insensitive matching over characters whose case forms are special (U+0130, U+00DF, U+212A, U+017F, U+01C5),
 (3) quantifiers over empty or assertion-only bodies with counts, sticky/global starts at and beyond the end."""
import json, subprocess, itertools
cases = []
LOOKS = ["(?=(a))a", "(?<=(a))b", "(?=(a)(b)?)a", "(?=(?:(a)|b)).", "(?<=(?:(a)|c))b", "(?=a(b))a", "(?!(a))b", "(?<!(a))c", "(?=(a*))a"]
OTHERS = ["b", "c", "a", "(c)", "[bc]"]
QS = ["+", "*", "{2}", "{1,3}", "+?", "*?", "{2,}"]
SUBJ1 = ["ab", "aba", "abab", "ba", "bab", "aab", "abc", "cab", "acab", "aabb", "b", "a", "", "abba", "caab", "abcab"]
for l, o, q in itertools.product(LOOKS, OTHERS, QS):
    for shape in ("(?:{L}|{O}){Q}", "(?:{O}|{L}){Q}", "({L}|{O}){Q}", "^(?:{L}|{O}){Q}$", "(?:{L}|{O}){Q}\\1", "(?:(?:{L}|{O}){Q}x|.)+"):
        cases.append({"p": shape.replace("{L}", l).replace("{O}", o).replace("{Q}", q), "f": "", "s": SUBJ1})
SPECIAL = ["İ", "ı", "i", "I", "ß", "s", "S", "K", "k", "K", "ſ", "ǅ", "Ǆ", "ǆ", "é", "É", "σ", "ς", "Σ", "ẞ"]
SUBJ2 = SPECIAL + ["ss", "SS", "İi", "KKk", "σςΣ"]
for ch in SPECIAL:
    for shape in ("{C}", "[{C}]", "[^{C}]", "{C}+", "[a-z]", "[A-Z]", "\\w", "[Ā-Ȁ]", "[{C}-{C}]", "({C})\\1"):
        for fl in ("i", "iu", ""):
            cases.append({"p": shape.replace("{C}", ch), "f": fl, "s": SUBJ2})
EMPTY = ["(?:){3}", "(){2}", "(?:|a){2}", "(?:a{0}){3}b", "(?=a){2}a", "\\b{2}a", "^{2}a", "(?:^|a){2}", "(?:$|a)+", "(?:(?:){2}){2}a", "(a*){2}", "(a*){2,3}?b", "(?:a?){3}a"]
for p in EMPTY:
    for fl in ("", "g", "y"):
        cases.append({"p": p, "f": fl, "s": ["", "a", "aa", "ab", "ba", "aab", "b"]})
json.dump(cases, open("/tmp/dev/rx2_cases.json", "w"))
open("/tmp/dev/rx2.js", "w").write(r'''
const fs = require("fs");
const cases = JSON.parse(fs.readFileSync("/tmp/dev/rx2_cases.json", "utf8"));
const out = [];
for (const c of cases) {
  let re;
  try { re = new RegExp(c.p, c.f); } catch (e) { continue; }
  const res = [];
  for (const s of c.s) {
    let m;
    re.lastIndex = 0;
    try { m = re.exec(s); } catch (e) { res.push("ERR"); continue; }
    res.push(m === null ? null : [m.index].concat(Array.from(m, x => x === undefined ? null : x)));
  }
  out.push({p: c.p, f: c.f, s: c.s, r: res});
}
fs.writeFileSync("/verif/spec_fixtures/regex_v8_2.json", JSON.stringify(out));
console.log(out.length, "patterns");
''')
subprocess.run(["node", "/tmp/dev/rx2.js"], check=True)
