"""C03 - scripts reach only JavaScript values, never host internals.
K3: no reflective access by a script-controlled name; property reads dispatch only on literal tables.
B: receiver kind x property name x access form grid with a run-time monitor asserting is_js_value on every
value pushed on the operand stack / handed to the embedder."""
from pyvc import structural as _S_
from pyvc import groups
from pyvc.groups import ob

REFLECTIVE = {"getattr", "setattr", "hasattr", "delattr", "vars", "eval", "exec", "__import__", "globals", "locals", "dir", "compile"}


@groups.group(id="C03.struct", prop="C03", kind="K3", functions=["microjs.vm", "microjs.context", "microjs.values"])
def c03_struct(tier="quick", seed=0):
    from pyvc import structural as S
    import ast
    out = []
    total = 0
    for mod in ("microjs.vm", "microjs.context", "microjs.values"):
        tree = S.source().modules[mod].tree
        for n in ast.walk(tree):
            if isinstance(n, ast.Call) and isinstance(n.func, ast.Name) and n.func.id in REFLECTIVE:
                total += 1
                name = n.func.id
                if name in ("getattr", "setattr", "hasattr", "delattr"):
                    ok = len(n.args) >= 2 and isinstance(n.args[1], ast.Constant) and isinstance(n.args[1].value, str)
                    det = _S_.unparse(n)[:80]
                else:
                    ok = False
                    det = _S_.unparse(n)[:80]
                out.append(ob(f"C03.struct.reflection.{mod.split('.')[-1]}.L{n.lineno}", ok, "K3",
                              f"{det}: attribute name is a literal: {ok}",
                              witness="({}).__class__ / [].__dict__ / (function(){}).__globals__ (a reflective access with a computed name at "
                                      f"{mod}:{n.lineno})", key=f"C03.struct.reflection.{mod.split('.')[-1]}.{name}"))
            if isinstance(n, ast.Attribute) and n.attr in ("__dict__", "__class__", "__globals__", "__subclasses__", "__mro__", "__builtins__"):
                # `cls.__mro__`-style introspection is not allowed in code reachable from scripts
                out.append(ob(f"C03.struct.dunder.{mod.split('.')[-1]}.L{n.lineno}", False, "K3", f"use of {_S_.unparse(n)[:60]}"))
    out.append(ob("C03.struct.inventory", total > 0, "K3", f"{total} reflective calls inspected"))
    # _get_property / _set_property / _delete_property: key_str flows only into dictionary methods, comparisons and the fixed tables
    # The sinks a key may reach: the own-property methods of the value classes (taken from the real source of
    # microjs.values; each is itself checked below to use the key only as a dictionary key), conversions, the
    # fixed method tables of the VM and error constructors.
    value_methods = {}
    vals = S.module("microjs.values")
    for cls in [n for n in vals.body if isinstance(n, ast.ClassDef)]:
        for m in cls.body:
            if isinstance(m, ast.FunctionDef):
                value_methods.setdefault(m.name, []).append((cls.name, m))
    conversions = {"int", "float", "to_string", "str", "isinstance", "len", "_is_array_index", "JSTypeError", "JSRangeError"}
    # (every VM._make_*_method factory: each is checked below to select a closure from a literal dict with a constant fallback)
    vm_cls = [c for c in S.module("microjs.vm").body if isinstance(c, ast.ClassDef) and c.name == "VM"][0]
    factories = sorted(m.name for m in vm_cls.body if isinstance(m, ast.FunctionDef) and m.name.startswith("_make_") and m.name.endswith("_method"))
    tables = set(factories) | {"_function_has_own"}
    for fname in ("VM._get_property", "VM._set_property", "VM._delete_property"):
        f = S.fn("microjs.vm", fname)
        bad = []
        for n in ast.walk(f):
            if isinstance(n, ast.Call):
                fn_name = n.func.attr if isinstance(n.func, ast.Attribute) else getattr(n.func, "id", "")
                uses_key = any(isinstance(a, ast.Name) and a.id in ("key_str", "key") for a in n.args)
                if uses_key and fn_name not in conversions and fn_name not in tables and fn_name not in value_methods \
                        and fn_name not in ("get", "pop", "setdefault"):
                    bad.append(f"{fn_name}({_S_.unparse(n)[:50]})")
        out.append(ob(f"C03.struct.key-flow.{fname.split('.')[-1]}", not bad, "K3", f"script-controlled key reaches: {bad or 'only property dictionaries, conversions and fixed method tables'}"))
    # inside the value classes a parameter named `key` is used as a dictionary key / compared / converted only
    bad = []
    nchecked = 0
    for name, defs in value_methods.items():
        for cname, m in defs:
            if "key" not in [a.arg for a in m.args.args]:
                continue
            nchecked += 1
            for n in ast.walk(m):
                if isinstance(n, ast.Call):
                    fn_name = n.func.attr if isinstance(n.func, ast.Attribute) else getattr(n.func, "id", "")
                    uses_key = any(isinstance(a, ast.Name) and a.id == "key" for a in n.args)
                    if uses_key and fn_name not in conversions and fn_name not in value_methods and fn_name not in ("get", "pop", "setdefault", "discard", "add"):
                        bad.append(f"{cname}.{name}: {_S_.unparse(n)[:50]}")
    out.append(ob("C03.struct.key-flow.value-classes", not bad and nchecked > 0, "K3",
                  f"{nchecked} methods of microjs.values take a key; it reaches: {bad or 'dictionary operations, comparisons and conversions only'}"))
    # the _make_*_method factories select closures from a literal dict with a constant fallback
    for fac in factories:
        f = S.fn("microjs.vm", "VM." + fac)
        last = f.body[-1]
        # ... possibly handed through VM._for_receiver(<that closure>, <the same factory>, ...), which only attaches the way to
        # make the method again for the receiver given to call/apply/bind
        txt = _S_.unparse(last.value) if isinstance(last, ast.Return) else ""
        ok = txt.startswith("methods.get(method, lambda *args: UNDEFINED)") or txt.startswith(f"self._for_receiver(methods.get(method, lambda *args: UNDEFINED), self.{fac}, ")
        if not ok and fac == "_make_array_method" and txt.startswith("self._for_receiver(methods.get(method, lambda *args: UNDEFINED), self._array_method_for, "):
            # arrays: the method for another receiver is made by _array_method_for, which only ever returns the same factory's
            # method (same literal method name) for the receiver or for a fresh array of its elements, or raises
            amf = S.fn("microjs.vm", "VM._array_method_for")
            rets = [_S_.unparse(r_.value) for r_ in ast.walk(amf) if isinstance(r_, ast.Return) and r_.value is not None]
            ok = bool(rets) and all(r_ in ("self._make_array_method(receiver, method)", "self._make_array_method(view, method)") for r_ in rets)
        out.append(ob(f"C03.struct.method-table.{fac}", ok, "K3", f"{fac} returns methods.get(method, <undefined fn>): {ok}"))
    fr = _S_.unparse(S.fn("microjs.vm", "VM._for_receiver"))
    out.append(ob("C03.struct.method-table.rebinding", "return make(this_val, method)" in fr and "raise JSTypeError(" in fr and "fn._rebind = rebind" in fr and "return fn" in fr, "K3",
                  "a method value made again for another receiver comes from the same factory with the same (literal) method name, or the call is a TypeError"))
    return out


def is_js_value(v):
    from microjs.values import UNDEFINED, NULL, JSObject, JSFunction, JSBoundMethod
    if v is UNDEFINED or v is NULL or isinstance(v, (bool, int, float, str, JSObject, JSFunction, JSBoundMethod)):
        return not isinstance(v, complex)
    import types
    return isinstance(v, (types.FunctionType, types.MethodType, types.BuiltinFunctionType)) or (callable(v) and not isinstance(v, type))


def _monitored_eval(src, extra=None):
    """run a script with every operand-stack push and every property store checked for is_js_value"""
    from microjs import Context
    from microjs.vm import VM, ForInIterator, ForOfIterator
    from microjs.compiler import CompiledFunction
    from microjs.values import JSObject
    bad = []
    orig = VM._execute_opcode

    def mon(self, op, arg, frame):
        r = orig(self, op, arg, frame)
        if self.stack:
            v = self.stack[-1]
            if not is_js_value(v) and not isinstance(v, (ForInIterator, ForOfIterator, CompiledFunction)):
                bad.append((op.name, repr(v)[:60]))
        return r
    orig_set = JSObject.set

    def mon_set(self, key, value):
        if not is_js_value(value):
            bad.append(("JSObject.set:" + str(key), repr(value)[:60]))
        return orig_set(self, key, value)
    VM._execute_opcode = mon
    JSObject.set = mon_set
    try:
        c = Context(time_limit=5)
        if extra:
            for k, v in extra.items():
                c.set(k, v)
        try:
            r = c.eval(src)
            res = ("ok", r)
        except Exception as e:  # noqa
            res = ("exc", type(e).__name__ + ": " + str(e)[:60])
    finally:
        VM._execute_opcode = orig
        JSObject.set = orig_set
    return res, bad


RECEIVERS = {
    "number": "5", "string": "'abc'", "boolean": "true", "object": "({a:1})", "array": "[1,2]", "typed-array": "new Uint8Array(2)",
    "array-buffer": "new ArrayBuffer(4)", "function": "(function f(a){})", "arrow": "(() => 1)", "bound": "(function(){}).bind(null)",
    "native-method": "[].push", "constructor": "Array", "error-ctor": "TypeError", "regex": "/a/g", "error": "new Error('x')",
    "math": "Math", "json": "JSON", "host-fn": "hostfn", "object-ctor": "Object", "proto-method": "Object.prototype.toString",
    "arguments": "(function(){ return arguments })(1,2)", "date": "Date", "string-ctor": "String",
}


def _names():
    import microjs.values as V, microjs.vm as VMm, microjs.compiler as CM
    names = set()
    for mod in (V, VMm, CM):
        for k, cls in vars(mod).items():
            if isinstance(cls, type) and cls.__module__.startswith("microjs"):
                names.update(dir(cls))
                try:
                    names.update(vars(cls(0) if k.endswith("Array") and k != "JSArray" else cls()).keys())
                except Exception:  # noqa
                    pass
    names.update(["__class__", "__dict__", "__globals__", "__init__", "__call__", "__code__", "__closure__", "__self__", "__func__", "__module__",
                  "__bases__", "__mro__", "__subclasses__", "__getattribute__", "__builtins__", "__import__", "_prototype", "_elements", "_properties",
                  "_getters", "_setters", "bytecode", "_compiled", "_closure_cells", "_call_fn", "_fn", "_internal", "_data", "_buffer", "closure_vars",
                  "prototype", "length", "name", "constructor", "caller", "arguments", "__proto__", "message", "stack", "lastIndex", "source", "buffer",
                  "byteLength", "index", "input", "lineNumber", "columnNumber", "params", "func", "locals", "constants", "_bound_this", "_bound_args", "_original_func", "_pattern", "_flags", "zz_fresh_1", "qq_fresh_2"])
    return sorted(n for n in names if isinstance(n, str) and n.isidentifier())


def _grid_chunk(items):
    out = []
    for rn, rexpr, name in items:
        src = (f"var r = {rexpr}; var fresh = r.zz_never_defined_name; var v = r.{name}; var t = typeof v;\n"
               f"var viaIndex = r['{name}']; var has = (typeof r === 'object' || typeof r === 'function') && r !== null ? ('{name}' in r) : false;\n"
               "[t, typeof viaIndex, has]")
        res, bad = _monitored_eval(src, {"hostfn": (lambda *a: 1)})
        verdict = None
        if bad:
            verdict = f"non-JS value observable: {bad[0]}"
        elif res[0] == "exc" and not res[1].startswith(("JSError", "JSTypeError")):
            verdict = f"host exception {res[1]}"
        out.append((rn, name, verdict, src))
    return out


@groups.group(id="C03.bounded.grid", prop="C03", kind="B", functions=["microjs.vm:VM._get_property"])
def c03_grid(tier="quick", seed=0):
    import multiprocessing as mp, random
    names = _names()
    rng = random.Random(seed)
    if tier == "quick":
        core = [n for n in names if n.startswith("_") or n in ("prototype", "length", "name", "constructor", "buffer", "lastIndex", "lineNumber", "message")]
        rest = [n for n in names if not n.startswith("_")]
        names = core + rng.sample(rest, min(60, len(rest)))
    items = [(rn, rx, n) for rn, rx in RECEIVERS.items() for n in names]
    chunks = [items[i::16] for i in range(16)]
    with mp.get_context("fork").Pool(16) as pool:
        rs = pool.map(_grid_chunk, chunks)
    by = {}
    for rn, name, verdict, src in (x for r in rs for x in r):
        b = by.setdefault(rn, [0, None])
        b[0] += 1
        if verdict and b[1] is None:
            b[1] = (name, verdict, src)
    return [ob(f"C03.bounded.grid.{rn}", bad is None, "B", f"{n} property names" if bad is None else f".{bad[0]}: {bad[1]}",
               witness=(bad[2] if bad else None), confirmed=True if bad else None, domain=n) for rn, (n, bad) in sorted(by.items())]


# a function left abruptly while a statement keeps an internal operand (for-in / for-of iterator, switch discriminant,
# pending finally) must hand exactly its result to the caller, whatever the call is an operand of
_EXITS = {
    "function f(o){ for (var k in o) { return k } }": "a",
    "function f(o){ for (var v of [1, 2]) { return v } }": 1,
    "function f(o){ switch (1) { case 1: return 's' } }": "s",
    "function f(o){ for (var k in o) { try { return k } finally { } } }": "a",
    "function f(o){ for (var k in o) { for (var v of [1]) { switch (v) { case 1: return k + v } } } }": "a1",
    "function f(o){ try { for (var k in o) { throw k } } catch (e) { return e } }": "a",
    "function f(o){ out: for (var k in o) { for (var v of [1, 2]) { break out } } return 'b' }": "b",
    "function f(o){ var r = ''; for (var v of [1, 2]) { for (var k in o) { continue } r += v } return r }": "12",
    "var f = (o) => { for (var k in o) { return k } }": "a",
    "var obj = { m: function (o) { for (var k in o) { return k } } }; var f = function (o) { return obj.m(o) }": "a",
    "var holder = { get g() { for (var k in {a: 1}) { return k } } }; var f = function (o) { return holder.g }": "a",
    "var f = function (o) { return [o].map(function (x) { for (var k in x) { return k } })[0] }": "a",
    "function F(o){ for (var k in o) { this.k = k; return } } var f = function (o) { return new F(o).k }": "a",
}
_USES = ["[0, {C}]", "'x' + {C}", "({p: 0, q: {C}})", "(function (a, b) { return [a, b] })(0, {C})", "[{C}, {C}]", "[1].concat([{C}])", "[0, [1, {C}]]", "hostid({C})", "[0, hostid({C})]"]


def _exit_forms():
    import json as _j
    out = []
    for fn, res in _EXITS.items():
        for use in _USES:
            call = "f({a: 1})"
            r = _j.dumps(res)
            want = {"[0, {C}]": f"[0,{r}]", "'x' + {C}": _j.dumps("x" + str(res)), "({p: 0, q: {C}})": '{"p":0,"q":%s}' % r, "(function (a, b) { return [a, b] })(0, {C})": f"[0,{r}]",
                    "[{C}, {C}]": f"[{r},{r}]", "[1].concat([{C}])": f"[1,{r}]", "[0, [1, {C}]]": f"[0,[1,{r}]]", "hostid({C})": r, "[0, hostid({C})]": f"[0,{r}]"}[use]
            out.append(f"ASSERT: {fn}; JSON.stringify({use.replace('{C}', call)}) === {_j.dumps(want)}")
    return out


_ERROR_ROUTES = [
    "eval('(')", "eval('[' + Array(400).join('0,') + '0]')", "new Function('(')", "new Function('return [' + Array(400).join('0,') + '0]')()", "eval('throw 1')", "eval('null.x')",
    "eval('undefinedName')", "eval(Array(3000).join('(') + '1')", "eval('function f(){' + Array(300).join('x').split('').map(function (_, i) { return 'var v' + i + ' = ' + i + ';' }).join('') + '} f()')", "new RegExp('(')", "JSON.parse('{')", "'a'.repeat(-1)",
    "new Array(-1)", "null.x", "undefinedName", "(1)()", "new (function(){}).call()", "[].reduce(function(){})", "var o = {}; Object.defineProperty(o, 'x', {get: function(){ return eval('(') }, enumerable: true}); Object.values(o)",
    "[1].map(function(){ return eval('[' + Array(400).join('0,') + '0]') })", "'a'.replace(/a/, function(){ return new Function('(') })",
]


FORMS = _exit_forms() + [
    "var o = {R}; o.__class__", "var o = {R}; delete o._prototype; typeof o", "var o = {R}; for (var k in o) { k } 1",
    "var o = {R}; Object.keys(o).length", "var o = {R}; JSON.stringify(o)", "var o = {R}; o instanceof Object", "var o = {R}; typeof o",
    "var p = {R}; var o = Object.create(typeof p === 'object' ? p : null); o.x", "var o = {R}; o._elements = 5; o._elements",
    "var o = {R}; o.bytecode", "var o = {R}; String(o)", "var o = {R}; o + ''", "var o = {R}; [o].concat([o]).length", "var o = {R}; (function(a){ return a })(o)",
    "var o = {R}; var q = {k: o}; q.k", "var o = {R}; o.valueOf", "var o = {R}; o.constructor", "var o = {R}; o.toString",
    "new Uint8Array(2).buffer", "(-8) ** (1/3)", "new Error('m').lineNumber", "var e; try { null.x } catch (x) { e = x } e.lineNumber",
    "ASSERT: eval('null') === null && eval('[1,2]').length === 2 && eval('({a:1})').a === 1 && typeof eval('(function(){})') === 'function' && eval('undefined') === undefined",
    "ASSERT: var f = new Function('a', 'return [a, null]'); f(1)[1] === null && f(1).length === 2",
    "ASSERT: hostnone() === undefined && hostlist().length === 2 && hostdict().a === 1 && Array.isArray(hosttuple())",
    "hostlist()", "hostdict()", "hostnone()", "hosttuple()", "[1,2].map(hostid)", "Math.max.apply(null, [1,2])",
    # capture groups that did not take part in a match are undefined wherever a script or host function can see them
    "ASSERT: 'b'.replace(/(a)|(b)/, function (m, p1, p2, pos, s) { return String(p1 === undefined) + (typeof p1) + p2 + pos + s; }) === 'trueundefinedb0b'",
    "ASSERT: 'xb'.replace(/(a)?b/g, function () { return arguments.length + ':' + (arguments[1] === undefined); }) === 'x4:true'",
    "ASSERT: 'b'.replace(/(a)|(b)/, hostcheck) === 'true'", "ASSERT: 'bb'.replaceAll(/(a)|(b)/g, hostcheck) === 'truetrue'",
    "ASSERT: 'b'.match(/(a)|(b)/)[1] === undefined && /(a)|(b)/.exec('b')[1] === undefined && 'b'.match(/(a)|(b)/).length === 3",
    "ASSERT: 'xby'.split(/(a)|(b)/)[1] === undefined && 'xby'.split(/(a)|(b)/).length === 4",
    "ASSERT: [1, 2].map(hostcheck).join() === 'true,true' && [1].forEach(hostcheck) === undefined && [3, 1].sort(function (a, b) { return hostcheck(a, b) ? a - b : 0; })[0] === 1",
    "ASSERT: [1, 2].reduce(hostcheck) === true && [1].filter(hostcheck).length === 1 && [1].some(hostcheck) && [1].every(hostcheck) && [5].find(hostcheck) === 5",
    "ASSERT: hostcheck.call(null, undefined, null) === true && hostcheck.apply(null, [1, 'a', {}]) === true && hostcheck.bind(null, 1)(2) === true",
    # values without a JavaScript counterpart become undefined at every depth of what the embedder hands in
    "ASSERT: typeof cfg.owner === 'undefined' && cfg.owner === undefined && cfg.l[0] === undefined && cfg.l.length === 3 && cfg.d.o === undefined && cfg.t.length === 2 && cfg.c === undefined",
    "ASSERT: var n = 0; for (var k in cfg) { if (cfg[k] === undefined) n++; } n === 2",      # (owner and c; a tuple converts like a list)
    "ASSERT: JSON.stringify(cfg.l) === '[null,null,1]'", "cfg", "cfg.l.concat(cfg.l)", "Object.values(cfg.d)",
    # ... and of what an exposed host function RETURNS, also when it is used as an accessor or given a script callback's receiver
    "ASSERT: hostweird() === undefined && hostweirdlist()[0] === undefined && hostweirdlist()[1] === null && hostweirdlist().length === 3 && hostweirdlist()[2].k === undefined",
    "hostweird()", "hostweirdlist()", "[hostweird(), hostweirdlist()]", "({a: hostweird()})",
    "ASSERT: var o = {}; Object.defineProperty(o, 'x', {get: hostnone, enumerable: true}); o.x === undefined && Object.values(o)[0] === undefined && Object.entries(o)[0][1] === undefined",
    "ASSERT: var o = {}; Object.defineProperty(o, 'x', {get: hostlist, enumerable: true}); Array.isArray(o.x) && Array.isArray(Object.values(o)[0]) && Object.assign({}, o).x.length === 2",
    "var o = {}; Object.defineProperty(o, 'x', {get: hostweird, enumerable: true}); [o.x, Object.values(o), Object.entries(o)]",
    "ASSERT: [1].map(function () { return this === undefined; })[0] === true && [1].filter(function () { return this === undefined; }).length === 1",
    "ASSERT: [1, 2].reduce(function (a, b) { return this === undefined; }) === true && [2, 1].sort(function (a, b) { return (this === undefined) ? a - b : b - a; })[0] === 1",
    "ASSERT: 'a'.replace(/a/, function () { return String(this === undefined); }) === 'true' && 'a'.replace('a', function () { return String(this === undefined); }) === 'true'",
    "ASSERT: [1].map(function () { return hostcheck(this); })[0] === true && [1].forEach(function () { hostkeep(this); }) === undefined",
    "[1].map(function () { return this; })", "[1].map(function () { return [this, {t: this}]; })",
    # whatever a catch clause receives is a JavaScript value -- also for failures of nested code that are not script throws
    # (refusals of the compiler, syntax errors, limits of the parser) and for errors raised by built-ins
] + [
    "var c = []; [" + ", ".join("function(){ " + t + " }" for t in _ERROR_ROUTES) + "].forEach(function (t) { try { t(); c.push('no error') } catch (e) { c.push(" + probe + ") } }); " + tail
    for probe, tail in (("e", "c"), ("typeof e, e instanceof Error, String(e), hostcheck(e)", "c"), ("[e]", "c.concat(c)"), ("hostcheck(e) && (typeof e === 'object' || typeof e === 'number')", "ASSERT_ALL"))
]
FORMS = [("ASSERT: " + f.replace("ASSERT_ALL", "c.every(function (x) { return x === true })")) if f.endswith("ASSERT_ALL") else f for f in FORMS]


@groups.group(id="C03.bounded.forms", prop="C03", kind="B", functions=["microjs.vm:VM._execute_opcode", "microjs.context:Context._to_python"])
def c03_forms(tier="quick", seed=0):
    out = []
    extra = {"hostfn": (lambda *a: 1), "hostlist": (lambda: [1, 2]), "hostdict": (lambda: {"a": 1}), "hostnone": (lambda: None),
             "hosttuple": (lambda: (1, 2)), "hostid": (lambda x, *a: x),
             "hostcheck": (lambda *a: all(is_js_value(x) for x in a)), "hostkeep": (lambda *a: None),
             "hostweird": (lambda: {1, 2}), "hostweirdlist": (lambda: [object(), None, {"k": frozenset()}]),
             "cfg": {"owner": {1, 2}, "l": [b"x", object(), 1], "d": {"o": frozenset()}, "t": (1, 2), "c": complex(1, 2), "ok": "s"}}
    for i, form in enumerate(FORMS):
        bad = None
        n = 0
        rs = RECEIVERS.items() if "{R}" in form else [("-", "")]
        for rn, rx in rs:
            src = form.replace("{R}", rx).replace("ASSERT: ", "")
            n += 1
            res, leaks = _monitored_eval(src, extra)
            if form.startswith("ASSERT: ") and not leaks and res != ("ok", True):
                bad = (rn, f"assertion evaluated to {res}", src)
                break
            if leaks:
                bad = (rn, f"non-JS value observable: {leaks[0]}", src)
                break
            if res[0] == "exc" and not res[1].startswith(("JSError", "JSTypeError", "JSSyntaxError", "JSReferenceError", "JSRangeError")):
                bad = (rn, f"host exception {res[1]}", src)
                break
            if res[0] == "ok":
                from microjs.values import JSObject
                seen = set()

                def pyok(v):
                    if v is None or isinstance(v, (bool, int, float, str)):
                        return not isinstance(v, complex)
                    if id(v) in seen:
                        return True
                    if isinstance(v, list):
                        seen.add(id(v))
                        return all(pyok(x) for x in v)
                    if isinstance(v, dict):
                        seen.add(id(v))
                        return all(isinstance(k, str) and pyok(x) for k, x in v.items())
                    return callable(v) or type(v).__name__ in ("JSFunction", "JSBoundMethod")
                if not pyok(res[1]):
                    bad = (rn, f"eval handed {type(res[1]).__name__} to the embedder", src)
                    break
        key = f"C03.bounded.forms.{i:02d}"
        out.append(ob(key, bad is None, "B", f"{form[:60]}: {n} receivers" if bad is None else f"{form[:50]} on {bad[0]}: {bad[1]}",
                      witness=(bad[2] if bad else None), confirmed=True if bad else None, domain=n, key=key))
    return out


@groups.group(id="C03.struct.process-state", prop="C03", kind="K3", functions=["microjs (module-level state)"])
def c03_process_state(tier="quick", seed=0):
    """no module-level object of the engine is reachable from scripts of several contexts (the analysis of C12)"""
    from contracts.C12_context import process_state
    return process_state("C03", tier, seed)


# ---- K1 shared with C07: what a catch clause receives from nested code is the thrown JS value or a script Error, never the host's error object
import contracts.C07_exceptions as _C07      # noqa: E402
from pyvc.api import register as _register, method as _method      # noqa: E402
_register(_C07.c_rethrow_script_error, id="C03.VM._rethrow_script_error", prop="C03", target=_method("microjs.vm", "VM._rethrow_script_error"), native=_C07._native_rethrow,
          summaries={"microjs.vm:VM._throw": _C07.spec_throw_recorded, "microjs.vm:VM._handle_python_exception": _C07.spec_handle_python_exception}, prim_args=False)
