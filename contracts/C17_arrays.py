"""C17 - Array and typed-array methods compute, mutate and alias as specified.
B: (method, receiver, args) grid against a list model written from ECMA-262 23.1.3, callback protocol traces,
stable sort / undefined last, identity of results, typed-array element coercion against ToInt8..ToUint32/ToUint8Clamp,
views over one buffer.  K1: typed-array coercions (contracts below)."""
import math, itertools, random
from pyvc import groups
from pyvc.groups import ob
from pyvc.api import *
import specs.es_core as CORE


# ---- K1: typed array element coercion == ECMA-262 ToInt8/ToUint8/... for every Number -----------------------------
def wrap(n, bits, signed):
    m = 1 << bits
    r = n % m
    if signed and r >= m // 2:
        return r - m
    return r


def ToIntN(v, bits, signed):
    n = CORE.ToNumber(v)
    if math.isnan(n) or n == INF or n == -INF or n == 0:
        return 0
    return wrap(math.trunc(n), bits, signed)


def spec_int8(v):
    return ToIntN(v, 8, True)


def spec_uint8(v):
    return ToIntN(v, 8, False)


def spec_int16(v):
    return ToIntN(v, 16, True)


def spec_uint16(v):
    return ToIntN(v, 16, False)


def spec_int32(v):
    return ToIntN(v, 32, True)


def spec_uint32(v):
    return ToIntN(v, 32, False)


def coerce(self: Obj("JSTypedArray"), v: Num):
    """_coerce_value of the element type never raises and equals the ECMAScript conversion for every Number"""
    r = outcome(REAL, self, v)
    e = es_outcome(SPEC, v)
    check("never-raises", r[0] == "ret")
    check("post", same_outcome(r, e))


def _coerce_native(cls):
    def make():
        import microjs.values as V
        return getattr(V, cls)._coerce_value
    return make


for _cls, _spec in (("JSInt8Array", spec_int8), ("JSUint8Array", spec_uint8), ("JSInt16Array", spec_int16), ("JSUint16Array", spec_uint16),
                    ("JSInt32Array", spec_int32), ("JSUint32Array", spec_uint32)):
    register(coerce, id=f"C17.coerce.{_cls}", prop="C17", target=method("microjs.values", f"{_cls}._coerce_value"),
             native=_coerce_native(_cls), bind={"SPEC": _spec}, grid={"Obj": None})


# ---- bounded: list model ----------------------------------------------------------------------------------------------
def to_model(v):
    from microjs.values import JSArray
    if isinstance(v, JSArray):
        return [to_model(x) for x in v._elements]
    return v


def js_lit(v):
    from microjs.values import UNDEFINED, NULL
    if v is UNDEFINED:
        return "undefined"
    if v is NULL:
        return "null"
    if v is True:
        return "true"
    if v is False:
        return "false"
    if isinstance(v, float):
        if v != v:
            return "NaN"
        if v in (math.inf, -math.inf):
            return "Infinity" if v > 0 else "-Infinity"
        if v == 0 and math.copysign(1, v) < 0:
            return "-0"
        return repr(v)
    if isinstance(v, int):
        return str(v)
    if isinstance(v, str):
        import json
        return json.dumps(v)
    if isinstance(v, list):
        return "[" + ",".join(js_lit(x) for x in v) + "]"
    raise TypeError(v)


def py_of(v):
    """engine result (converted by Context._to_python) -> comparable model value"""
    return v


def model_to_py(v):
    from microjs.values import UNDEFINED, NULL
    if v is UNDEFINED or v is NULL:
        return None
    if isinstance(v, list):
        return [model_to_py(x) for x in v]
    return v


def py_eq(a, b):
    if isinstance(a, float) and isinstance(b, float) and a != a and b != b:
        return True
    if isinstance(a, list) and isinstance(b, list):
        return len(a) == len(b) and all(py_eq(x, y) for x, y in zip(a, b))
    if isinstance(a, bool) or isinstance(b, bool):
        return type(a) is type(b) and a == b
    if isinstance(a, (int, float)) and isinstance(b, (int, float)):
        return a == b and (a != 0 or math.copysign(1, a) == math.copysign(1, b))
    return type(a) is type(b) and a == b


def _arr_chunk(items):
    from microjs import Context
    import specs.es_array as A
    c = Context(time_limit=10)
    bad = []
    for meth, recv, args in items:
        spec = getattr(A, "m_" + meth)
        res, after = spec(list(recv), list(args))
        src = (f"var a = {js_lit(recv)}; var r; var err = null; try {{ r = a.{meth}({', '.join(js_lit(x) for x in args)}) }} catch (e) {{ err = e.name }}\n"
               f"[err, r === a, r === undefined ? 'undefined' : r, a, Array.isArray(r) && r !== a]")
        try:
            got = c.eval(src)
        except Exception as e:  # noqa
            bad.append((meth, src, "HOST " + type(e).__name__ + ": " + str(e)[:60], None))
            continue
        err, same, r, a_after, fresh = got
        want_after = model_to_py(after)
        ok = err is None and py_eq(a_after, want_after)
        if res == "<receiver>":
            ok = ok and same is True
        elif isinstance(res, list):
            ok = ok and py_eq(r, model_to_py(res)) and fresh is True
        else:
            from microjs.values import UNDEFINED
            ok = ok and (r == "undefined" if res is UNDEFINED else py_eq(r, model_to_py(res)))
        if not ok:
            bad.append((meth, src, repr(got)[:200], repr((model_to_py(res) if res != "<receiver>" else res, want_after))[:200]))
    return len(items), bad


def _grids():
    from microjs.values import UNDEFINED, NULL
    recvs = [[], [1], [1, 2, 3], ["b", "a", "c"], [3, 1, 2, 1], [UNDEFINED, 1, NULL], [0.5, -0.0, float("nan"), "x"], [[1], [2, 3]], [1, "1", True, NULL, UNDEFINED, 2], ["z", UNDEFINED, "a", UNDEFINED, "v"], [UNDEFINED, UNDEFINED]]
    idx = [UNDEFINED, 0, 1, 2, -1, -2, 5, -9, 1.7, -1.5, float("nan"), float("inf"), float("-inf"), "1", NULL, True]
    vals = [1, "1", UNDEFINED, NULL, float("nan"), 2, "a", True, 0.5, -0.0, 0]
    items = []
    for recv in recvs:
        for m in ("pop", "shift", "reverse", "toString", "sort_default"):
            items.append((m if m != "sort_default" else "sort", recv, ()))
        for m in ("push", "unshift", "concat"):
            items.append((m, recv, ()))
            items.append((m, recv, (1,)))
            items.append((m, recv, (UNDEFINED, "x", [7, 8])))
        for s in (UNDEFINED, ",", "", "-", NULL, 1):
            items.append(("join", recv, (s,)))
        items.append(("join", recv, ()))
        for v in vals:
            for m in ("indexOf", "lastIndexOf", "includes"):
                items.append((m, recv, (v,)))
                for i in idx:
                    items.append((m, recv, (v, i)))
        for i in idx:
            items.append(("slice", recv, (i,)))
            items.append(("splice", recv, (i,)))
            for j in idx:
                items.append(("slice", recv, (i, j)))
                items.append(("splice", recv, (i, j)))
                items.append(("splice", recv, (i, j, "n1", "n2")))
        items.append(("slice", recv, ()))
        items.append(("splice", recv, ()))
    return items


@groups.group(id="C17.bounded.list-model", prop="C17", kind="B", functions=["microjs.vm:VM._make_array_method"])
def c17_list_model(tier="quick", seed=0):
    import multiprocessing as mp
    import specs.es_array as A
    items = _grids()
    A.m_sort = A.m_sort_default
    chunks = [items[i::16] for i in range(16)]
    with mp.get_context("fork").Pool(16) as pool:
        rs = pool.map(_arr_chunk, chunks)
    counts = {}
    for m, _, _ in items:
        counts[m] = counts.get(m, 0) + 1
    fails = {}
    for n, bad in rs:
        for m, src, got, want in bad:
            fails.setdefault(m, []).append((src, got, want))
    return [ob(f"C17.bounded.list-model.{m}", m not in fails, "B", f"{n} (receiver, args) cases" if m not in fails else f"{len(fails[m])}/{n} differ: {fails[m][0][0][:110]} -> {fails[m][0][1]} expected {fails[m][0][2]}",
               witness=(fails[m][0][0] if m in fails else None), confirmed=True if m in fails else None, domain=n, key=f"C17.bounded.list-model.{m}") for m, n in sorted(counts.items())]


CALLBACK_CASES = [
    ("forEach-trace", "var a=[5,6,7]; var t=[]; a.forEach(function(v,i,arr){ t.push([v,i,arr===a,this===undefined]) }); t", [[5, 0, True, True], [6, 1, True, True], [7, 2, True, True]]),
    ("map-fresh", "var a=[1,2]; var r=a.map(function(v,i){ return v*10+i }); [r, r!==a, a]", [[10, 21], True, [1, 2]]),
    ("filter", "[1,2,3,4].filter(function(v,i){ return v%2==0 })", [2, 4]),
    ("reduce", "[[1,2,3].reduce(function(a,v,i){ return a+v*i }), [1,2,3].reduce(function(a,v){ return a+v }, 10), [].reduce(function(a,v){return a}, 'init')]", [9, 16, "init"]),
    ("reduce-empty-error", "var r; try { [].reduce(function(a,v){return a}) } catch(e) { r = e.name } r", "TypeError"),
    ("reduceRight", "[1,2,3].reduceRight(function(a,v,i){ return a + '' + v + i })", "32110"),
    ("reduce-undefined-initial", "[1,2].reduce(function(a,v){ return String(a)+v }, undefined)", "undefined12"),
    ("find", "[[1,2,3].find(function(v){ return v>1 }), [1].find(function(v){ return v>1 }) === undefined, [1,2,3].findIndex(function(v){ return v>1 }), [1].findIndex(function(v){return false})]", [2, True, 1, -1]),
    ("some-every", "[[1,2].some(function(v){ return v==2 }), [].some(function(){return true}), [1,2].every(function(v){ return v>0 }), [].every(function(){return false})]", [True, False, True, True]),
    ("forEach-growth-not-visited", "var a=[1,2]; var n=0; a.forEach(function(v){ n++; if (n<10) a.push(v) }); [n, a.length]", [2, 4]),
    ("map-live-read", "var a=[1,2,3]; a.map(function(v,i){ if (i==0) a[2]=99; return v })", [1, 2, 99]),
    ("sort-stable", "var a=[{k:1,t:'a'},{k:0,t:'b'},{k:1,t:'c'},{k:0,t:'d'}]; a.sort(function(x,y){ return x.k-y.k }); a.map(function(o){return o.t}).join('')", "bdac"),
    ("sort-fraction", "[3,1,2].sort(function(a,b){ return (a-b)/10 })", [1, 2, 3]),
    ("sort-undefined-last", "var a=[3,undefined,1,undefined,2]; a.sort(function(x,y){return y-x}); [a[0],a[1],a[2],a[3]===undefined,a[4]===undefined]", [3, 2, 1, True, True]),
    ("sort-default-strings", "[10,9,1,'b','a',true,null].sort()", [1, 10, 9, "a", "b", None, True]),
    ("sort-returns-receiver", "var a=[2,1]; a.sort() === a && a.reverse() === a", True),
    ("sort-nan-comparator", "[2,1,3].sort(function(){ return NaN }).length", 3),
    ("concat-no-alias", "var a=[[1]]; var b=a.concat([2]); b[0].push(9); [a[0].length, b.length, b !== a]", [2, 2, True]),
    ("slice-no-alias", "var a=[1,2]; var b=a.slice(); b.push(3); [a.length, b.length]", [2, 3]),
    ("index-append", "var a=[1]; a[1]=2; a.length", 2),
    ("index-beyond-error", "var a=[1]; var r='no error'; try { a[5]=1 } catch(e) { r = e.name } [r, a.length]", ["TypeError", 1]),
    ("length-truncate", "var a=[1,2,3]; a.length=1; [a.length, a[1]===undefined]", [1, True]),
    ("length-grow", "var a=[1]; a.length=3; [a.length, a[2]===undefined]", [3, True]),
    ("length-invalid", "var a=[1]; var r; try { a.length = -1 } catch(e) { r = e.name } r", "RangeError"),
    ("length-fraction", "var a=[1]; var r; try { a.length = 1.5 } catch(e) { r = e.name } r", "RangeError"),
    ("negative-index-read", "[1,2][-1] === undefined", True),
    ("array-ctor", "[new Array(3).length, new Array(1,2).length, new Array('3').length, Array.isArray([]), Array.isArray({})]", [3, 2, 1, True, False]),
]

TYPED = {"Int8Array": (8, True), "Uint8Array": (8, False), "Int16Array": (16, True), "Uint16Array": (16, False), "Int32Array": (32, True), "Uint32Array": (32, False)}
TVALS = [0, 1, -1, 127, 128, 255, 256, -128, -129, 32767, 32768, 65535, 65536, 2 ** 31 - 1, 2 ** 31, 2 ** 32, 2 ** 32 + 5, -(2 ** 31) - 1, 1.5, -1.5, 0.5, -0.5, 2.5, 3.5, 1e21, -1e21,
         float("nan"), float("inf"), float("-inf"), 1e40, 254.5, 255.5, -0.0]


def clamp8(x):
    if x != x:
        return 0
    if x <= 0:
        return 0
    if x >= 255:
        return 255
    f = math.floor(x)
    if f + 0.5 < x:
        return f + 1
    if x < f + 0.5:
        return f
    return f if f % 2 == 0 else f + 1


@groups.group(id="C17.bounded.callbacks-and-typed", prop="C17", kind="B", functions=["microjs.vm:VM._make_array_method", "microjs.values:JSTypedArray", "microjs.context:Context._create_typed_array_constructor"])
def c17_callbacks_typed(tier="quick", seed=0):
    from microjs import Context
    import struct
    c = Context(time_limit=10)
    out = []

    def run(name, src, want, cmp=None):
        try:
            got = c.eval(src)
        except Exception as e:  # noqa
            got = "HOST:" + type(e).__name__ + ": " + str(e)[:60]
        ok = cmp(got, want) if cmp else py_eq(got, want)
        oid = f"C17.bounded.{name}"
        out.append(ob(oid, ok, "B", "ok" if ok else f"got {got!r}, expected {want!r}", witness=(src if not ok else None), confirmed=True if not ok else None, domain=1, key=oid))
    for name, src, want in CALLBACK_CASES:
        run("case." + name, src, want)
    lits = ",".join(js_lit(float(v) if isinstance(v, float) else v) for v in TVALS)
    for tn, (bits, signed) in TYPED.items():
        want = [wrap(math.trunc(v), bits, signed) if (v == v and v not in (math.inf, -math.inf)) else 0 for v in TVALS]
        run(f"typed.{tn}.coercion", f"var t = new {tn}({len(TVALS)}); var vs=[{lits}]; for (var i=0;i<vs.length;i++) t[i]=vs[i]; var o=[]; for (i=0;i<vs.length;i++) o.push(t[i]); o", want)
        run(f"typed.{tn}.from-array", f"var t = new {tn}([{lits}]); var o=[]; for (var i=0;i<t.length;i++) o.push(t[i]); o", want)
    run("typed.Uint8ClampedArray.coercion", f"var t = new Uint8ClampedArray({len(TVALS)}); var vs=[{lits}]; for (var i=0;i<vs.length;i++) t[i]=vs[i]; var o=[]; for (i=0;i<vs.length;i++) o.push(t[i]); o",
        [clamp8(float(v)) for v in TVALS])
    f32 = [struct.unpack("f", struct.pack("f", v))[0] if abs(v) < 3.4e38 or v != v else (math.inf if v > 0 else -math.inf) for v in map(float, TVALS)]
    run("typed.Float32Array.rounding", f"var t = new Float32Array([{lits}]); var o=[]; for (var i=0;i<t.length;i++) o.push(t[i]); o", f32)
    run("typed.Float64Array.identity", f"var t = new Float64Array([{lits}]); var o=[]; for (var i=0;i<t.length;i++) o.push(t[i]); o", [float(v) for v in TVALS])
    run("typed.views-share-buffer", "var b = new ArrayBuffer(8); var u8 = new Uint8Array(b); var u32 = new Uint32Array(b); u32[0] = 0x01020304; u8[4] = 255; [u8[0], u8[1], u8[2], u8[3], u32[1], u8.length, u32.length, b.byteLength]",
        [4, 3, 2, 1, 255, 8, 2, 8])
    run("typed.subarray-shares", "var t = new Int16Array([1,2,3,4]); var s = t.subarray(1,3); s[0] = 99; [t[1], s.length, s[1]]", [99, 2, 3])
    run("typed.out-of-range-ignored", "var t = new Int8Array(2); t[5] = 1; [t.length, t[5] === undefined]", [2, True])
    # values that are not numbers are converted with ToNumber first (7.1.4), in every kind and through every way of storing
    nn_js = "['7', ' 12 ', '0x10', '1e2', '', 'x', true, false, null, undefined, '-1.9', '300']"
    nn_num = [7.0, 12.0, 16.0, 100.0, 0.0, math.nan, 1.0, 0.0, 0.0, math.nan, -1.9, 300.0]
    for tn, (bits, signed) in TYPED.items():
        want = [wrap(math.trunc(v), bits, signed) if v == v else 0 for v in nn_num]
        run(f"typed.{tn}.non-number-stores", f"var vs = {nn_js}; var t = new {tn}(vs.length); for (var i = 0; i < vs.length; i++) t[i] = vs[i]; var u = new {tn}(vs); var w = new {tn}(vs.length); w.set(vs); "
            "var o = []; for (i = 0; i < vs.length; i++) o.push([t[i], u[i], w[i]].join()); o", [f"{x},{x},{x}" for x in want])
    run("typed.Float64Array.non-number-stores", f"var vs = {nn_js}; var t = new Float64Array(vs.length); for (var i = 0; i < vs.length; i++) t[i] = vs[i]; var o = []; for (i = 0; i < vs.length; i++) o.push(String(t[i])); o",
        ["7", "12", "16", "100", "0", "NaN", "1", "0", "0", "NaN", "-1.9", "300"])
    run("typed.Uint8ClampedArray.non-number-stores", f"var vs = {nn_js}; var t = new Uint8ClampedArray(vs); var o = []; for (var i = 0; i < vs.length; i++) o.push(t[i]); o", [clamp8(v) if v == v else 0 for v in nn_num])
    # set(source, offset): all of the source lands at the offset, or RangeError and nothing is written
    for off, want in (("0", "1,2,0,0"), ("2", "0,0,1,2"), ("1.9", "0,1,2,0"), ("undefined", "1,2,0,0"), ("NaN", "1,2,0,0"), ("3", "RangeError|0,0,0,0"), ("-1", "RangeError|0,0,0,0"), ("Infinity", "RangeError|0,0,0,0"), ("4", "RangeError|0,0,0,0"), ("'1'", "0,1,2,0")):
        for srcjs in ("[1, 2]", "new Uint8Array([1, 2])", "new Float64Array([1, 2])"):
            run(f"typed.set-offset.{off}.{srcjs[:6]}", f"var t = new Int16Array(4); var r = ''; try {{ t.set({srcjs}, {off}); }} catch (e) {{ r = e.name + '|'; }} r + t.join()", want)
    # constructor forms
    for src, want in (("new Uint8Array(new Int16Array([1, 2, 300])).join()", "1,2,44"), ("new Float64Array(new Uint8Array([1, 2])).join()", "1,2"), ("new Uint8Array('3').length", 3), ("new Uint8Array(null).length", 0),
                      ("new Uint8Array(undefined).length", 0), ("new Uint8Array(true).length", 1), ("new Int16Array(new ArrayBuffer(8), 2).length", 3), ("new Int16Array(new ArrayBuffer(8), 2, 2).length", 2),
                      ("new Int16Array(new ArrayBuffer(8), undefined, undefined).length", 4), ("new Int16Array(new ArrayBuffer(8), NaN).length", 4), ("new Int16Array(new ArrayBuffer(8), '2').length", 3),
                      ("var r; try { new Int16Array(new ArrayBuffer(8), 1) } catch (e) { r = e.name } r", "RangeError"), ("var r; try { new Int16Array(new ArrayBuffer(8), 0, 5) } catch (e) { r = e.name } r", "RangeError"),
                      ("var r; try { new Int16Array(new ArrayBuffer(8), -2) } catch (e) { r = e.name } r", "RangeError"), ("var r; try { new Int16Array(new ArrayBuffer(8), 10) } catch (e) { r = e.name } r", "RangeError"),
                      ("var r; try { new Int16Array(new ArrayBuffer(7)) } catch (e) { r = e.name } r", "RangeError"), ("var r; try { new Int16Array(new ArrayBuffer(8), 0, Infinity) } catch (e) { r = e.name } r", "RangeError"),
                      ("var r; try { new Int16Array(new ArrayBuffer(8), 1e21) } catch (e) { r = e.name } r", "RangeError"), ("var r; try { new Uint8Array(1e9) } catch (e) { r = e.name } r", "RangeError"),
                      ("var r; try { new Array(4294967295) } catch (e) { r = e.name } r", "RangeError"), ("var r; try { var a = []; a.length = 2147483648 } catch (e) { r = e.name } r", "RangeError")):
        run("typed.ctor." + "".join(ch if ch.isalnum() else "_" for ch in src)[:50], src, want)
    run("typed.ctor-negative-length", "var r; try { new Int8Array(-1) } catch(e) { r = e.name } r", "RangeError")
    run("typed.arraybuffer-negative", "var r; try { new ArrayBuffer(-1) } catch(e) { r = e.name } r", "RangeError")
    run("typed.set", "var t = new Uint8Array(4); t.set([1,2], 1); [t[0],t[1],t[2],t[3]]", [0, 1, 2, 0])
    run("typed.set-from-view", "var b = new ArrayBuffer(4); var src = new Uint8Array(b); var other = new Uint8Array(b); src[0] = 1; other[1] = 7; other[0] = 9; var d = new Uint8Array(4); d.set(src); [d[0], d[1], src[0], src[1]]", [9, 7, 9, 7])
    run("typed.set-typed-source", "var s16 = new Int16Array([300, -1]); var d8 = new Uint8Array(3); d8.set(s16, 1); [d8[0], d8[1], d8[2]]", [0, 44, 255])
    run("typed.buffer-identity", "var b = new ArrayBuffer(4); var t = new Uint8Array(b); t.buffer === b", True)
    return out


# ---- bounded: views over one buffer see each other's writes (byte model) ---------------------------------------------
import struct

VIEW_KINDS = {"Uint8Array": ("B", 1), "Int8Array": ("b", 1), "Uint16Array": ("H", 2), "Int16Array": ("h", 2), "Uint32Array": ("I", 4), "Int32Array": ("i", 4),
              "Float32Array": ("f", 4), "Float64Array": ("d", 8), "Uint8ClampedArray": ("B", 1)}


def _view_seq_chunk(args):
    seed, n = args
    from microjs import Context
    rng = random.Random(seed)
    bad = []
    cnt = 0
    for _ in range(n):
        size = 16
        kinds = rng.sample(list(VIEW_KINDS), 3)
        model = bytearray(size)
        lines = [f"var buf = new ArrayBuffer({size});"] + [f"var v{i} = new {k}(buf);" for i, k in enumerate(kinds)] + ["var log = [];"]
        expected = []
        for step in range(rng.randint(3, 9)):
            vi = rng.randrange(3)
            fmt, w = VIEW_KINDS[kinds[vi]]
            idx = rng.randrange(size // w)
            val = rng.choice([0, 1, 5, 7, 200, 255, 256, 65535, 70000, -1, -129, 2 ** 31, 3.5, -2.5, 1e10, 0.1])
            # value stored per ECMA-262 typed array element conversion
            if fmt in ("f", "d"):
                stored = struct.pack("<" + fmt, val)
            elif kinds[vi] == "Uint8ClampedArray":
                stored = struct.pack("<B", clamp8(val))
            else:
                bits = 8 * w
                m = int(math.trunc(val)) % (1 << bits) if val == val and abs(val) != math.inf else 0
                stored = m.to_bytes(w, "little")
            model[idx * w:(idx + 1) * w] = stored
            lines.append(f"v{vi}[{idx}] = {val!r};")
            # observe every view completely
            obs = []
            for j, k in enumerate(kinds):
                f2, w2 = VIEW_KINDS[k]
                vals = struct.unpack("<" + f2 * (size // w2), bytes(model))
                obs.append(",".join(CORE.number_to_string(float(x)) if isinstance(x, float) else str(x) for x in vals))
            expected.append("|".join(obs))
            lines.append("log.push([" + ", ".join(f"Array.prototype.slice ? v{j}.join(',') : ''" for j in range(3)) + "].join('|'));")
        lines.append("log.join('\\n')")
        src = "\n".join(lines).replace("Array.prototype.slice ? ", "").replace(" : ''", "")
        cnt += 1
        try:
            got = Context(time_limit=5).eval(src)
        except Exception as e:  # noqa
            got = "!" + type(e).__name__ + ": " + str(e)[:80]
        if got != "\n".join(expected):
            bad.append((src, str(got)[:300], "\n".join(expected)[:300]))
            if len(bad) > 2:
                break
    return cnt, bad


@groups.group(id="C17.bounded.view-sequences", prop="C17", kind="B", functions=["microjs.values:JSTypedArray.set_index", "microjs.values:JSTypedArray.get_index"])
def c17_view_sequences(tier="quick", seed=0):
    import multiprocessing as mp
    n = 25 if tier == "quick" else 600
    with mp.get_context("fork").Pool(16) as pool:
        rs = pool.map(_view_seq_chunk, [(seed * 7919 + i, n) for i in range(16)])
    tot = sum(c for c, _ in rs)
    bad = [b for _, bs in rs for b in bs]
    return [ob("C17.bounded.view-sequences", not bad, "B", f"{tot} write sequences through 3 views over one ArrayBuffer agree with a byte model after every write" if not bad else
               f"engine {bad[0][1]!r} expected {bad[0][2]!r}", witness=(bad[0][0] if bad else None), confirmed=True if bad else None, domain=tot)]


# =======================================================================================================================
# K1: the searching methods (loops over the elements, proved with loop invariants for arrays of any length)
# =======================================================================================================================
import specs.es_ops as OPS


@abstract("is_strictly_equal")
def is_strictly_equal(a, b) -> "bool":
    """IsStrictlyEqual (7.2.16) as an uninterpreted relation here: VM._strict_equals is proved equal to it for all
    primitive operands in C06 (C06.helper._strict_equals); objects compare by identity"""
    return OPS.strict_equals(a, b)


@recursive
def first_strict(arr, search, k) -> "int":
    """least index >= k whose element is strictly equal to search, -1 if none (measure: len - k)"""
    if k >= len(arr._elements):
        return -1
    if is_strictly_equal(arr._elements[k], search):
        return k
    return first_strict(arr, search, k + 1)


def first_strict__ensures(arr, search, k, result):
    return result == -1 or (k <= result and result < len(arr._elements))


@recursive
def last_strict(arr, search, k) -> "int":
    """greatest index <= k whose element is strictly equal to search, -1 if none (measure: k + 1)"""
    if k < 0:
        return -1
    if k < len(arr._elements) and is_strictly_equal(arr._elements[k], search):
        return k
    return last_strict(arr, search, k - 1)


def last_strict__ensures(arr, search, k, result):
    return result == -1 or (0 <= result and result <= k)


def inv_index_of(arr, search, start, i__next):
    return start >= 0 and i__next >= start and first_strict(arr, search, i__next) == first_strict(arr, search, start)


def inv_last_index_of(arr, search, start, i__next):
    top = min(start, len(arr._elements) - 1)
    return -1 <= i__next and i__next <= top and last_strict(arr, search, i__next) == last_strict(arr, search, top)


def c_index_of(vm: Obj("VM"), arr: Obj("JSArray"), search: JSPrim, from_index: IntRange(-2 ** 53, 2 ** 53), has_from: Bool):
    """Array.prototype.indexOf (23.1.3.17): first index k >= the relative start with elements[k] === search"""
    n = len(arr._elements)
    r = outcome(REAL, search, from_index) if has_from else outcome(REAL, search)
    check("never-raises", r[0] == "ret")
    f = from_index if has_from else 0      # an integral fromIndex (other values: values.to_integer, C06)
    k = f if f >= 0 else (n + f if n + f > 0 else 0)
    check("post", r[1] == first_strict(arr, search, k))


def c_last_index_of(vm: Obj("VM"), arr: Obj("JSArray"), search: JSPrim, from_index: IntRange(-2 ** 53, 2 ** 53), has_from: Bool):
    """Array.prototype.lastIndexOf (23.1.3.20): last index k <= the relative start with elements[k] === search"""
    n = len(arr._elements)
    r = outcome(REAL, search, from_index) if has_from else outcome(REAL, search)
    check("never-raises", r[0] == "ret")
    f = from_index if has_from else n - 1
    k = (f if f < n - 1 else n - 1) if f >= 0 else n + f
    check("post", r[1] == last_strict(arr, search, k))


def _native_array_method(name):
    def make(vm, arr):
        return vm._make_array_method(arr, name)
    return make


def spec_to_integer_of_int(v):
    return v


ARR_SUMM = {"microjs.values:to_integer": spec_to_integer_of_int}


def spec_strict_equals(vm, a, b):
    return is_strictly_equal(a, b)


ARR_SUMM["microjs.vm:VM._strict_equals"] = spec_strict_equals
register(c_index_of, id="C17.array.indexOf", prop="C17", target=closure("microjs.vm", "VM._make_array_method", "indexOf_fn"), env=("vm", "arr"),
         native=_native_array_method("indexOf"), summaries=ARR_SUMM, heap_inputs=True,
         invariants={("microjs.vm:VM._make_array_method.<indexOf_fn>", "range(start, len(arr._elements))"): inv_index_of})
register(c_last_index_of, id="C17.array.lastIndexOf", prop="C17", target=closure("microjs.vm", "VM._make_array_method", "lastIndexOf_fn"), env=("vm", "arr"),
         native=_native_array_method("lastIndexOf"), summaries=ARR_SUMM, heap_inputs=True,
         invariants={("microjs.vm:VM._make_array_method.<lastIndexOf_fn>", "range(min(start, len(arr._elements) - 1), -1, -1)"): inv_last_index_of})


def _is_nan(v):
    return isinstance(v, float) and v != v


@recursive
def first_svz(arr, search, k) -> "int":
    """least index >= k whose element is SameValueZero-equal to search (NaN finds NaN), -1 if none"""
    if k >= len(arr._elements):
        return -1
    e = arr._elements[k]
    if (_is_nan(search) and _is_nan(e)) or is_strictly_equal(e, search):
        return k
    return first_svz(arr, search, k + 1)


def first_svz__ensures(arr, search, k, result):
    return result == -1 or (k <= result and result < len(arr._elements))


def inv_includes(arr, search, start, i__next):
    return start >= 0 and i__next >= start and first_svz(arr, search, i__next) == first_svz(arr, search, start)


def c_includes(vm: Obj("VM"), arr: Obj("JSArray"), search: JSPrim, from_index: IntRange(-2 ** 53, 2 ** 53), has_from: Bool):
    """Array.prototype.includes (23.1.3.16): some element from the relative start on is SameValueZero-equal to search"""
    n = len(arr._elements)
    r = outcome(REAL, search, from_index) if has_from else outcome(REAL, search)
    check("never-raises", r[0] == "ret")
    f = from_index if has_from else 0
    k = f if f >= 0 else (n + f if n + f > 0 else 0)
    check("post", r[1] is (first_svz(arr, search, k) >= 0))


register(c_includes, id="C17.array.includes", prop="C17", target=closure("microjs.vm", "VM._make_array_method", "includes_fn"), env=("vm", "arr"),
         native=_native_array_method("includes"), summaries=ARR_SUMM, heap_inputs=True,
         invariants={("microjs.vm:VM._make_array_method.<includes_fn>", "range(start, len(arr._elements))"): inv_includes})


# ---- K1: the loop-free element-moving methods (sequence theory; arrays of any length) ---------------------------------
def _rel(i, n):
    """relative index clamped to [0, n] (23.1.3: relativeStart / relativeEnd)"""
    if i < 0:
        return n + i if n + i > 0 else 0
    return i if i < n else n


def c_arr_slice(vm: Obj("VM"), arr: Obj("JSArray"), a: IntRange(-2 ** 53, 2 ** 53), b: IntRange(-2 ** 53, 2 ** 53)):
    """slice(a, b) (23.1.3.28): a NEW array with the elements from relative a up to relative b; the receiver is unchanged"""
    old = arr._elements[:]
    n = len(old)
    r = outcome(REAL, a, b) if NARGS == 2 else (outcome(REAL, a) if NARGS == 1 else outcome(REAL))
    check("never-raises", r[0] == "ret")
    k = _rel(a, n) if NARGS >= 1 else 0
    f = _rel(b, n) if NARGS == 2 else n
    res = r[1]
    check("result-is-a-new-array", isinstance(res, JSArray) and not same_ref(res, arr))
    if isinstance(res, JSArray):
        check("result-elements", same_elements(res._elements, old[k:f] if f > k else []))
        check("result-does-not-share-storage", not same_ref(res._elements, arr._elements))
    check("receiver-unchanged", same_elements(arr._elements, old))


def c_arr_splice(vm: Obj("VM"), arr: Obj("JSArray"), start: IntRange(-2 ** 53, 2 ** 53), count: IntRange(-2 ** 53, 2 ** 53), item: JSVal):
    """splice(start, count, item) (23.1.3.31): removes count elements at the relative start, inserts item there, returns the
    removed elements in a new array"""
    old = arr._elements[:]
    n = len(old)
    r = outcome(REAL, start, count, item)
    check("never-raises", r[0] == "ret")
    k = _rel(start, n)
    d = count if count > 0 else 0
    d = d if d < n - k else n - k
    res = r[1]
    check("result-is-a-new-array", isinstance(res, JSArray) and not same_ref(res, arr))
    if isinstance(res, JSArray):
        check("result-is-the-removed-run", same_elements(res._elements, old[k:k + d]))
    check("receiver-after", same_elements(arr._elements, old[:k] + [item] + old[k + d:]))


def c_arr_pop_shift(vm: Obj("VM"), arr: Obj("JSArray")):
    """pop() / shift(): remove and return the last / first element, undefined on an empty array"""
    old = arr._elements[:]
    n = len(old)
    r = outcome(REAL)
    check("never-raises", r[0] == "ret")
    if n == 0:
        check("empty.returns-undefined", same_ref(r[1], UNDEFINED))
        check("empty.unchanged", same_elements(arr._elements, old))
    elif WHICH == "pop":
        check("returns-last", same_value(r[1], old[n - 1]))
        check("receiver-after", same_elements(arr._elements, old[:n - 1]))
    else:
        check("returns-first", same_value(r[1], old[0]))
        check("receiver-after", same_elements(arr._elements, old[1:]))


def c_arr_push_unshift(vm: Obj("VM"), arr: Obj("JSArray"), x: JSVal, y: JSVal):
    """push(x, y) appends in order, unshift(x, y) prepends in order; both return the new length"""
    old = arr._elements[:]
    r = outcome(REAL, x, y)
    check("never-raises", r[0] == "ret")
    check("returns-new-length", r[1] == len(old) + 2)
    if WHICH == "push":
        check("receiver-after", same_elements(arr._elements, old + [x, y]))
    else:
        check("receiver-after", same_elements(arr._elements, [x, y] + old))


def c_arr_concat(vm: Obj("VM"), arr: Obj("JSArray"), other: Obj("JSArray"), x: JSPrim):
    """concat(other, x): a new array with the receiver's elements, the elements of an array argument (spread one level) and
    a non-array argument itself; neither operand changes"""
    old, oo = arr._elements[:], other._elements[:]
    r = outcome(REAL, other, x)
    check("never-raises", r[0] == "ret")
    res = r[1]
    check("result-is-a-new-array", isinstance(res, JSArray) and not same_ref(res, arr) and not same_ref(res, other))
    if isinstance(res, JSArray):
        check("result-elements", same_elements(res._elements, old + oo + [x]))
    check("operands-unchanged", same_elements(arr._elements, old) and same_elements(other._elements, oo))


from microjs.values import JSArray, UNDEFINED, NULL      # noqa: E402
for _k in (0, 1, 2):
    register(c_arr_slice, id=f"C17.array.slice.{_k}-args", prop="C17", target=closure("microjs.vm", "VM._make_array_method", "slice_fn"), env=("vm", "arr"),
             native=_native_array_method("slice"), summaries=ARR_SUMM, heap_inputs=True, bind={"NARGS": _k}, prim_args=False)
register(c_arr_splice, id="C17.array.splice", prop="C17", target=closure("microjs.vm", "VM._make_array_method", "splice_fn"), env=("vm", "arr"),
         native=_native_array_method("splice"), summaries=ARR_SUMM, heap_inputs=True, prim_args=False)
for _w in ("pop", "shift"):
    register(c_arr_pop_shift, id=f"C17.array.{_w}", prop="C17", target=closure("microjs.vm", "VM._make_array_method", f"{_w}_fn"), env=("vm", "arr"),
             native=_native_array_method(_w), heap_inputs=True, bind={"WHICH": _w}, prim_args=False)
for _w in ("push", "unshift"):
    register(c_arr_push_unshift, id=f"C17.array.{_w}", prop="C17", target=closure("microjs.vm", "VM._make_array_method", f"{_w}_fn"), env=("vm", "arr"),
             native=_native_array_method(_w), heap_inputs=True, bind={"WHICH": _w}, prim_args=False)
register(c_arr_concat, id="C17.array.concat", prop="C17", target=closure("microjs.vm", "VM._make_array_method", "concat_fn"), env=("vm", "arr"),
         native=_native_array_method("concat"), heap_inputs=True, prim_args=False)


# ---- bounded: which property keys ARE element indices (ECMA-262 6.1.7 array index / 7.1.21 CanonicalNumericIndexString) ----
def _canonical_index(key_text):
    """the index a string key denotes, or None: only the canonical decimal spelling of an integer in [0, 2^32-2]"""
    if key_text.isascii() and key_text.isdigit() and (key_text == "0" or key_text[0] != "0") and int(key_text) < 2 ** 32 - 1:
        return int(key_text)
    return None


@groups.group(id="C17.bounded.index-keys", prop="C17", kind="B", functions=["microjs.vm:VM._get_property", "microjs.vm:VM._set_property", "microjs.values:_is_array_index"])
def c17_index_keys(tier="quick", seed=0):
    """element access by key: only canonical numeric strings (and numbers whose ToString is one) address elements;
    every other spelling ("01", " 1", "+1", "-0", "1.0", "1e0", non-ASCII digits, ...) is an ordinary property name"""
    import json as _j
    from microjs import Context
    import specs.es_core as CORE_
    from microjs.values import UNDEFINED, NULL
    str_keys = ["0", "1", "2", "3", "01", "00", " 1", "1 ", "\t1", "+1", "-0", "-1", "1.0", "1.", "1e0", "1_0", "0x1", "0b1", "\u0661", "\u00b2", "\uff11", "4294967294", "4294967295", "4294967296",
                "", "length", "1,2", "Infinity", "NaN", "1n"]
    other_keys = [("0", 0), ("1", 1), ("1.0", 1.0), ("1.5", 1.5), ("-0", -0.0), ("-1", -1), ("1e21", 1e21), ("NaN", float("nan")), ("true", True), ("null", NULL), ("undefined", UNDEFINED), ("2", 2), ("3", 3)]
    keys = [(_j.dumps(k), k) for k in str_keys] + [(js, CORE_.ToString(v)) for js, v in other_keys]
    recvs = {"array": ("[10, 20, 30]", [10, 20, 30]), "typed": ("new Uint8Array([10, 20, 30])", [10, 20, 30]), "string": ("'xyz'", ["x", "y", "z"]), "empty-array": ("[]", [])}
    out = []
    for rname, (rjs, elems) in recvs.items():
        bad = None
        n = 0
        for kjs, ktext in keys:
            idx = _canonical_index(ktext)
            is_elem = idx is not None and idx < len(elems)
            want_read = elems[idx] if is_elem else ("<length>" if ktext == "length" else "U")
            probes = [("read", f"var a = {rjs}; var v = a[{kjs}]; v === undefined ? 'U' : v", want_read if want_read != "<length>" else len(elems))]
            if rname in ("array", "empty-array"):
                probes.append(("in", f"var a = {rjs}; {kjs} in a", is_elem or ktext == "length"))
                probes.append(("hasOwnProperty", f"var a = {rjs}; a.hasOwnProperty({kjs})", is_elem or ktext == "length"))
                probes.append(("keys-agree", f"var a = {rjs}; Object.keys(a).indexOf({kjs}) >= 0", is_elem and isinstance(_j.loads(kjs) if kjs.startswith('"') else None, str)))
                if not is_elem and ktext != "length":
                    probes.append(("delete-non-element", f"var a = {rjs}; var d = delete a[{kjs}]; d + '|' + a.join() + '|' + a.length", "true|" + ",".join(str(e) for e in elems) + "|" + str(len(elems))))
                if idx is None and ktext not in ("length",):
                    # writing a non-index key never touches the elements
                    probes.append(("write-non-index", f"var a = {rjs}; try {{ a[{kjs}] = 99; }} catch (e) {{ }} a.join() + '|' + a.length", ",".join(str(e) for e in elems) + "|" + str(len(elems))))
            if rname == "typed" and idx is None and ktext != "length":
                probes.append(("write-non-index", f"var a = {rjs}; try {{ a[{kjs}] = 99; }} catch (e) {{ }} a.join() + '|' + a.length", ",".join(str(e) for e in elems) + "|" + str(len(elems))))
            for pname, src, want in probes:
                n += 1
                try:
                    got = Context(time_limit=10).eval(src)
                except Exception as e:  # noqa
                    got = "ERR " + type(e).__name__ + ": " + str(e)[:60]
                if got != want and bad is None:
                    bad = (pname, src, got, want)
        out.append(ob(f"C17.bounded.index-keys.{rname}", bad is None, "B", f"{n} (key spelling, operation) cases" if bad is None else f"[{bad[0]}] {bad[1]} -> {bad[2]!r}, ECMAScript {bad[3]!r}",
                      witness=(bad[1] if bad else None), confirmed=True if bad else None, domain=n))
    return out


# ---- bounded: iteration methods whose callback changes the array, and thisArg -----------------------------------------------
def _ref_iterate(method, arr, action, this_arg, init):
    """ECMA-262 23.1.3 on a dense list: the length is read once, an index the callback removed meanwhile is skipped
    (find / findIndex: visited with undefined), elements are read when their turn comes; returns (result, log, array after)"""
    a = list(arr)
    log = []
    U = "U"

    def cb(v, i):
        log.append(f"{v}@{i}/{len(a)}:{this_arg}")
        if action == "pop" and a:
            a.pop()
        elif action == "push" and len(a) < 12:
            a.append(100 + i)
        elif action == "clear":
            del a[:]
        elif action == "set-next" and i + 1 < len(a):
            a[i + 1] = 77
        elif action == "shift" and a:
            a.pop(0)
        return v
    n = len(a)
    if method == "forEach":
        for i in range(n):
            if i < len(a):
                cb(a[i], i)
        return U, log, a
    if method == "map":
        out = []
        for i in range(n):
            if i < len(a):
                out.append(cb(a[i], i))
        return out, log, a
    if method == "filter":
        out = []
        for i in range(n):
            if i < len(a):
                v = a[i]
                if cb(v, i) not in (0, U):
                    out.append(v)
        return out, log, a
    if method in ("some", "every"):
        for i in range(n):
            if i < len(a):
                t = cb(a[i], i) not in (0, U)
                if method == "some" and t:
                    return True, log, a
                if method == "every" and not t:
                    return False, log, a
        return method == "every", log, a
    if method in ("find", "findIndex"):
        for i in range(n):
            v = a[i] if i < len(a) else U
            if cb(v, i) not in (0, U):
                return (v if method == "find" else i), log, a
        return (U if method == "find" else -1), log, a
    if method in ("reduce", "reduceRight"):
        idx = list(range(n)) if method == "reduce" else list(range(n - 1, -1, -1))
        if init is None:
            if not idx:
                return "TypeError", log, a
            acc = a[idx[0]]
            idx = idx[1:]
        else:
            acc = init
        for i in idx:
            if i < len(a):
                v = a[i]
                log.append(f"{acc},{v}@{i}/{len(a)}")
                if action == "pop" and a:
                    a.pop()
                elif action == "push" and len(a) < 12:
                    a.append(100 + i)
                elif action == "clear":
                    del a[:]
                elif action == "set-next" and i + 1 < len(a):
                    a[i + 1] = 77
                elif action == "shift" and a:
                    a.pop(0)
                acc = acc + v
        return acc, log, a
    raise ValueError(method)


@groups.group(id="C17.bounded.mutating-callbacks", prop="C17", kind="B", functions=["microjs.vm:VM._make_array_method"])
def c17_mutating_callbacks(tier="quick", seed=0):
    """forEach / map / filter / some / every / find / findIndex / reduce / reduceRight whose callback removes, appends or
    overwrites elements, and the optional thisArg: the (value, index, length, this) sequence seen by the callback, the
    result and the final array against the specification's algorithm; sort with a comparator that touches the array
    never raises a host exception"""
    import json as _j
    from microjs import Context
    c = Context(time_limit=20)
    acts = {"none": "", "pop": "arr.pop();", "push": "if (arr.length < 12) arr.push(100 + i);", "clear": "arr.length = 0;", "set-next": "if (i + 1 < arr.length) arr[i + 1] = 77;", "shift": "arr.shift();"}
    arrays = [[], [1], [1, 2, 3], [5, 0, 6, 0, 7]]
    bad = None
    n = 0
    for method in ("forEach", "map", "filter", "some", "every", "find", "findIndex"):
        for arr in arrays:
            for act, code in acts.items():
                for this_js, this_tag in (("", "U"), (", 'T'", "T")):
                    want = _ref_iterate(method, arr, act, this_tag, None)
                    src = (f"var a = {_j.dumps(arr)}, log = []; var r = a.{method}(function (v, i, arr) {{ log.push((v === undefined ? 'U' : v) + '@' + i + '/' + arr.length + ':' + (this === undefined ? 'U' : this)); {code} return v; }}{this_js}); "
                           "[r === undefined ? 'U' : r, log, a]")
                    n += 1
                    try:
                        got = c.eval(src)
                    except Exception as e:  # noqa
                        got = "!" + type(e).__name__ + ": " + str(e)[:60]
                        c = Context(time_limit=20)
                    w = [want[0], want[1], want[2]]
                    if got != w and bad is None:
                        bad = (src, got, w)
    for method in ("reduce", "reduceRight"):
        for arr in arrays:
            for act, code in acts.items():
                for init_js, init in (("", None), (", 1000", 1000)):
                    want = _ref_iterate(method, arr, act, "U", init)
                    src = (f"var a = {_j.dumps(arr)}, log = []; var r; try {{ r = a.{method}(function (acc, v, i, arr) {{ log.push(acc + ',' + v + '@' + i + '/' + arr.length); {code} return acc + v; }}{init_js}); }} "
                           "catch (e) { r = e.name } [r, log, a]")
                    n += 1
                    try:
                        got = c.eval(src)
                    except Exception as e:  # noqa
                        got = "!" + type(e).__name__ + ": " + str(e)[:60]
                        c = Context(time_limit=20)
                    w = [want[0], want[1], want[2]]
                    if got != w and bad is None:
                        bad = (src, got, w)
    for arr in arrays:
        for code in ("a.push(1);", "a.pop();", "a.length = 0;", "a[0] = 9;", "a.reverse();"):
            src = f"var a = {_j.dumps(arr)}; var r; try {{ a.sort(function (x, y) {{ {code} return x - y; }}); r = 'ok' }} catch (e) {{ r = e.name }} r"
            n += 1
            try:
                got = c.eval(src)
            except Exception as e:  # noqa
                got = "!" + type(e).__name__ + ": " + str(e)[:60]
                c = Context(time_limit=20)
            if not isinstance(got, str) or got.startswith("!"):
                bad = bad or (src, got, "no host exception")
    return [ob("C17.bounded.mutating-callbacks", bad is None, "B", f"{n} (method, array, action, thisArg) cases" if bad is None else f"{bad[0][:260]} -> {str(bad[1])[:160]}, expected {str(bad[2])[:160]}",
               witness=(bad[0] if bad else None), confirmed=True if bad else None, domain=n)]


# ---- bounded: what is not callable is refused as a callback (also when there is nothing to iterate) ------------------------
@groups.group(id="C17.bounded.callback-arguments", prop="C17", kind="B", functions=["microjs.vm:VM._make_array_method"])
def c17_callback_arguments(tier="quick", seed=0):
    """23.1.3: every iteration method throws a TypeError when its callback is not callable (IsCallable is checked before the
    first element is visited, so also on an empty array and whatever else is passed); sort accepts undefined or a callable;
    callable values of every kind (function, arrow, bound, built-in, host) are accepted"""
    from microjs import Context
    methods = ["map", "forEach", "filter", "some", "every", "find", "findIndex", "reduce", "reduceRight"]
    not_callable = ["", "undefined", "null", "0", "3", "'f'", "({})", "[]", "true", "/x/"]
    callable_ = ["function (x) { return x }", "(x) => x", "(function (x) { return x }).bind(null)", "Math.abs", "String", "hostfn", "Object.keys"]
    out = []
    for m in methods:
        bad = None
        n = 0
        for recv in ("[]", "[1, 2]", "[undefined]", "new Array(3)"):
            for a in not_callable:
                for extra in ("", ", 5"):
                    if a == "" and extra:
                        continue
                    src = f"var r; try {{ {recv}.{m}({a}{extra}); r = 'accepted' }} catch (e) {{ r = e.name }} r"
                    n += 1
                    c = Context(time_limit=10)
                    try:
                        got = c.eval(src)
                    except BaseException as e:  # noqa
                        got = f"!{type(e).__name__}: {e}"[:100]
                    if got != "TypeError" and bad is None:
                        bad = (src, f"{got!r}, ECMAScript 'TypeError'")
            for a in callable_:
                if recv == "[]" and m in ("reduce", "reduceRight"):
                    continue
                src = f"var r; try {{ {recv}.{m}({a}); r = 'accepted' }} catch (e) {{ r = e.name }} r"
                n += 1
                c = Context(time_limit=10)
                c.set("hostfn", lambda *a_: 1)
                try:
                    got = c.eval(src)
                except BaseException as e:  # noqa
                    got = f"!{type(e).__name__}: {e}"[:100]
                if got != "accepted" and bad is None:
                    bad = (src, f"{got!r}, ECMAScript 'accepted'")
        out.append(ob(f"C17.bounded.callback-arguments.{m}", bad is None, "B", f"{n} (receiver, callback value) cases" if bad is None else f"{bad[0]}: {bad[1]}",
                      witness=(bad[0] if bad else None), confirmed=True if bad else None, domain=n))
    # thisArg: the callback's this is exactly the value given (strict functions: no boxing, no defaulting), falsy values included
    bad = None
    n = 0
    for m in ("map", "forEach", "filter", "some", "every", "find", "findIndex"):
        for tv, want in [("0", "number:0"), ("''", "string:"), ("false", "boolean:false"), ("null", "object:null"), ("undefined", "undefined:undefined"), ("NaN", "number:NaN"), ("5", "number:5"),
                         ("'s'", "string:s"), ("true", "boolean:true"), ("-0", "number:0")]:
            src = f"var seen = 'not called'; [7].{m}(function () {{ seen = typeof this + ':' + this; return false }}, {tv}); seen"
            n += 1
            try:
                got = Context(time_limit=10).eval(src)
            except BaseException as e:  # noqa
                got = f"!{type(e).__name__}: {e}"[:100]
            if got != want and bad is None:
                bad = (src, f"{got!r}, ECMAScript {want!r}")
        for src, want in [(f"var o = {{k: 1}}; var same; [7].{m}(function () {{ same = this === o; return false }}, o); same", True),
                          (f"var seen; [7].{m}(function () {{ seen = typeof this; return false }}); seen", "undefined")]:
            n += 1
            try:
                got = Context(time_limit=10).eval(src)
            except BaseException as e:  # noqa
                got = f"!{type(e).__name__}: {e}"[:100]
            if got != want and bad is None:
                bad = (src, f"{got!r}, ECMAScript {want!r}")
    out.append(ob("C17.bounded.callback-arguments.thisArg", bad is None, "B", f"{n} (method, thisArg) cases" if bad is None else f"{bad[0]}: {bad[1]}", witness=(bad[0] if bad else None), confirmed=True if bad else None, domain=n))
    bad = None
    n = 0
    for recv in ("[]", "[2, 1]"):
        for a, want in [("", "accepted"), ("undefined", "accepted"), ("function (a, b) { return a - b }", "accepted"), ("null", "TypeError"), ("0", "TypeError"), ("5", "TypeError"), ("'f'", "TypeError"), ("({})", "TypeError"), ("[]", "TypeError"), ("true", "TypeError")]:
            src = f"var r; try {{ {recv}.sort({a}); r = 'accepted' }} catch (e) {{ r = e.name }} r"
            n += 1
            try:
                got = Context(time_limit=10).eval(src)
            except BaseException as e:  # noqa
                got = f"!{type(e).__name__}: {e}"[:100]
            if got != want and bad is None:
                bad = (src, f"{got!r}, ECMAScript {want!r}")
    out.append(ob("C17.bounded.callback-arguments.sort", bad is None, "B", f"{n} comparator values" if bad is None else f"{bad[0]}: {bad[1]}", witness=(bad[0] if bad else None), confirmed=True if bad else None, domain=n))
    return out


# ---- fixed probes (regressions of repaired defects) -------------------------------------------------------------------------
PROBES_C17 = [
    ("set-from-overlapping-view", "var a = new Uint8Array([1, 2, 3, 4]); a.set(a.subarray(0, 2), 1); var b = new Uint8Array([1, 2, 3, 4]); b.set(b.subarray(1, 3), 0); a.join() + '|' + b.join()", "1,1,2,4|2,3,3,4"),
    ("set-from-other-type-same-buffer", "var buf = new ArrayBuffer(4); var a = new Uint8Array(buf), w = new Uint16Array(buf); a.set([1, 2, 3, 4]); a.set(new Uint8Array(buf, 0, 2), 2); a.join() + '|' + w[1]", "1,2,1,2|513"),
    ("subarray-undefined-end", "[new Uint8Array([1, 2, 3]).subarray(1, undefined).length, new Uint8Array([1, 2, 3]).subarray(undefined, 2).length, new Uint8Array([1, 2, 3]).subarray().length].join()", "2,2,3"),
    ("every-typed-array-has-a-buffer", "var a = new Uint8Array([1, 2, 3, 4]); var b = new Uint16Array(a.buffer); b[0] = 0x0505; [typeof new Uint8Array(4).buffer, a.buffer === a.buffer, a.buffer.byteLength, a.join()].join('|')", "object|true|4|5,5,3,4"),
    ("buffer-then-write-visible", "var a = new Float64Array([1.5, 2]); var b = a.buffer; a[0] = 3.25; new Float64Array(b)[0]", 3.25),
    ("array-of-boolean", "[new Array(true).length, Array(false)[0], Array(false).length, Array(3).length, new Array('3')[0]].join()", "1,false,1,3,3"),
    ("elision-is-an-element", "[[1,,2].length, [,].length, [1,,].length, String([1,,2][1])].join()", "3,1,2,undefined"),
    ("forof-live", "var a = [1, 2], n = 0; for (var x of a) { if (n < 3) a.push(9); n++ } n", 5),
]
groups.register_probes("C17", PROBES_C17)
