"""C14 - program size never changes meaning: the instruction encoding either represents an operand /
jump target exactly or the program is refused with a JSError.  Contracts on Compiler._emit /
_emit_jump / _patch_jump and the decode expression used by the VM."""
from pyvc import structural as _S_
from pyvc.api import *
from pyvc import groups
from microjs.opcodes import OpCode

VALID_OPS = tuple(int(m) for m in OpCode)
JUMP_OPS = (int(OpCode.JUMP), int(OpCode.JUMP_IF_FALSE), int(OpCode.JUMP_IF_TRUE), int(OpCode.TRY_START))


def _cmethod(name):
    def make():
        from microjs.compiler import Compiler
        return getattr(Compiler, name)
    return make


def decode16(low, high):
    """the operand decoder of VM._execute / VM._call_callback:  low | (high << 8)"""
    return low | (high << 8)


def emit(self: Obj("Compiler"), code: ValList, arg: PyVal):
    """_emit appends exactly the encoding of (opcode, arg): bytes in range(256), jump targets decodable,
    or it refuses with JSError; nothing before the emission point changes"""
    assume(arg is None or (isinstance(arg, int) and not isinstance(arg, bool)))
    op = OP
    opv = OPV
    self.bytecode = code
    n = len(code)
    before = code[:]
    o = outcome(REAL, self, op, arg)
    check("only-JSError", o[0] == "ret" or exc_in(o, ("JSError",)))
    if o[0] == "ret":
        check("returns-position", o[1] == n)
        check("prefix-unchanged", self.bytecode[:n] == before)
        check("opcode-byte", self.bytecode[n] == opv)
        if arg is None:
            check("length", len(self.bytecode) == n + 1)
        elif opv in JUMP_OPS:
            check("length", len(self.bytecode) == n + 3)
            if len(self.bytecode) == n + 3:
                lo = self.bytecode[n + 1]
                hi = self.bytecode[n + 2]
                check("jump-bytes-in-range", isinstance(lo, int) and isinstance(hi, int) and 0 <= lo <= 255 and 0 <= hi <= 255)
                if isinstance(lo, int) and isinstance(hi, int):
                    check("jump-decodes", decode16(lo, hi) == arg)
        else:
            check("length", len(self.bytecode) == n + 2)
            if len(self.bytecode) == n + 2:
                check("operand-exact", self.bytecode[n + 1] == arg)
                check("operand-in-range", 0 <= arg <= 255)
    else:
        check("refusal-only-when-needed",
              arg is not None and (arg < 0 or (arg > 255 and opv not in JUMP_OPS) or arg > 65535))
        check("nothing-half-written-beyond-opcode", len(self.bytecode) <= n + 1)


def emit_jump(self: Obj("Compiler"), code: ValList, opv: IntRange(0, 200)):
    assume(opv in JUMP_OPS)
    op = OpCode(opv)
    self.bytecode = code
    n = len(code)
    before = code[:]
    o = outcome(REAL, self, op)
    check("no-error", o[0] == "ret")
    if o[0] == "ret":
        check("returns-position", o[1] == n)
        check("three-bytes", len(self.bytecode) == n + 3)
        check("prefix-unchanged", self.bytecode[:n] == before)
        if len(self.bytecode) == n + 3:
            check("placeholder", self.bytecode[n] == opv and self.bytecode[n + 1] == 0 and self.bytecode[n + 2] == 0)


def patch_jump(self: Obj("Compiler"), code: ValList, pos: IntRange(0, 4294967296), target: PyVal):
    """_patch_jump writes a decodable 16-bit target (default: the current end) or refuses with JSError;
    every other byte is unchanged"""
    assume(target is None or (isinstance(target, int) and not isinstance(target, bool) and target >= 0))
    n = len(code)
    assume(pos + 2 < n)
    self.bytecode = code
    before = code[:]
    o = outcome(REAL, self, pos, target)
    t = n if target is None else target
    check("only-JSError", o[0] == "ret" or exc_in(o, ("JSError",)))
    if o[0] == "ret":
        check("length", len(self.bytecode) == n)
        if len(self.bytecode) == n:
            lo = self.bytecode[pos + 1]
            hi = self.bytecode[pos + 2]
            check("bytes-in-range", isinstance(lo, int) and isinstance(hi, int) and 0 <= lo <= 255 and 0 <= hi <= 255)
            if isinstance(lo, int) and isinstance(hi, int):
                check("decodes-to-target", decode16(lo, hi) == t)
            check("before-unchanged", self.bytecode[:pos + 1] == before[:pos + 1])
            check("after-unchanged", self.bytecode[pos + 3:] == before[pos + 3:])
    else:
        check("refusal-only-when-needed", t > 65535)
        check("unchanged-on-refusal", self.bytecode == before)


# _emit distinguishes opcodes only by membership in _JUMP_OPCODES (checked structurally in C14.struct):
# one representative per class and all four 16-bit opcodes
for _op in (OpCode.JUMP, OpCode.JUMP_IF_FALSE, OpCode.JUMP_IF_TRUE, OpCode.TRY_START, OpCode.LOAD_CONST, OpCode.CALL,
            OpCode.BUILD_ARRAY, OpCode.POP):
    register(emit, id=f"C14.emit.{_op.name}", prop="C14", target=method("microjs.compiler", "Compiler._emit"),
             native=_cmethod("_emit"), bind={"OP": _op, "OPV": int(_op)})
register(emit_jump, id="C14.emit_jump", prop="C14", target=method("microjs.compiler", "Compiler._emit_jump"), native=_cmethod("_emit_jump"))
register(patch_jump, id="C14.patch_jump", prop="C14", target=method("microjs.compiler", "Compiler._patch_jump"), native=_cmethod("_patch_jump"))


# ---- K3: the two operand decoders of the VM and the compiler's width table agree -------------------
@groups.group(id="C14.struct", prop="C14", kind="K3",
              functions=["microjs.vm:VM._execute", "microjs.vm:VM._call_callback", "microjs.compiler:Compiler._emit"])
def c14_struct(tier="quick", seed=0):
    from pyvc import structural as S
    from pyvc.groups import ob
    import ast
    out = []
    ex = S.decoder_sets(S.fn("microjs.vm", "VM._execute"))
    # the second run loop (nested loop for callbacks): whichever other VM method dispatches opcodes
    others = [f for f in S.dispatchers() if f.name != "_execute"]
    cb = S.decoder_sets(others[0]) if len(others) == 1 else []
    ok_shape = len(ex) == 2 and len(cb) == 2
    out.append(ob("C14.struct.decoder-shape", ok_shape, "K3", f"decoder branches found: _execute {len(ex)}, _call_callback {len(cb)}"))
    if not ok_shape:
        return out
    from microjs.compiler import Compiler
    from microjs.opcodes import OpCode
    J = frozenset(m.name for m in Compiler._JUMP_OPCODES)
    out.append(ob("C14.struct.jump-set-execute", ex[0][0] == J, "K3", f"_execute 16-bit set {sorted(ex[0][0])} vs compiler {sorted(J)}",
                  witness="a function whose body uses " + ", ".join(sorted(ex[0][0] ^ J))))
    out.append(ob("C14.struct.jump-set-callback", cb[0][0] == J, "K3", f"_call_callback 16-bit set {sorted(cb[0][0])} vs compiler {sorted(J)}"))
    d8 = ex[1][0] ^ cb[1][0]
    out.append(ob("C14.struct.operand-set-equal", not d8, "K3", f"8-bit operand sets differ on {sorted(d8)}",
                  witness=("[1].map(function(){ /* uses " + ",".join(sorted(d8)) + " */ })") if d8 else None))
    out.append(ob("C14.struct.decode-16-identical", ex[0][1] == cb[0][1], "K2", "16-bit decode statements of the two loops are the same AST"))
    out.append(ob("C14.struct.decode-8-identical", ex[1][1] == cb[1][1], "K2", "8-bit decode statements of the two loops are the same AST"))
    # the compiler emits an operand exactly for the opcodes the decoders read one for
    comp = S.source().modules["microjs.compiler"].tree
    with_arg, without_arg, jumps = set(), set(), set()
    for c in S.calls_to(comp, "_emit"):
        names = S.opcode_names_in(c.args[0]) if c.args else []
        if len(c.args) >= 2:
            with_arg.update(names)
        else:
            without_arg.update(names)
    for c in S.calls_to(comp, "_emit_jump"):
        jumps.update(S.opcode_names_in(c.args[0]))
    out.append(ob("C14.struct.emit-jump-subset", jumps <= J, "K3", f"_emit_jump used with {sorted(jumps)}"))
    out.append(ob("C14.struct.emit-arg-decoded", (with_arg - J) <= ex[1][0], "K3",
                  f"opcodes emitted with a 1-byte operand but not decoded: {sorted((with_arg - J) - ex[1][0])}"))
    out.append(ob("C14.struct.noarg-not-decoded", not ((without_arg - with_arg) & (ex[1][0] | J)), "K3",
                  f"opcodes emitted without operand but decoded with one: {sorted((without_arg - with_arg) & (ex[1][0] | J))}"))
    # _emit looks at the opcode only through `in self._JUMP_OPCODES` (and .name in the refusal message)
    em = S.fn("microjs.compiler", "Compiler._emit")
    uses = [n for n in ast.walk(em) if isinstance(n, ast.Name) and n.id == "opcode"]
    allowed = 0
    for n in ast.walk(em):
        if isinstance(n, ast.Compare) and isinstance(n.left, ast.Name) and n.left.id == "opcode" and isinstance(n.ops[0], ast.In):
            allowed += 1
        if isinstance(n, ast.Call) and isinstance(n.func, ast.Attribute) and n.func.attr == "append" and n.args and isinstance(n.args[0], ast.Name) and n.args[0].id == "opcode":
            allowed += 1
        if isinstance(n, ast.Attribute) and isinstance(n.value, ast.Name) and n.value.id == "opcode" and n.attr == "name":
            allowed += 1
    out.append(ob("C14.struct.emit-opcode-parametric", len(uses) == allowed, "K3",
                  f"_emit uses `opcode` {len(uses)} times, {allowed} of them in the allowed forms (membership in _JUMP_OPCODES, append, .name)"))
    # every bytes(self.bytecode) is reached only through _emit/_emit_jump/_patch_jump writes
    writers = set()
    for n in ast.walk(comp):
        if isinstance(n, ast.FunctionDef):
            for m in ast.walk(n):
                if isinstance(m, ast.Attribute) and m.attr == "bytecode" and isinstance(m.value, ast.Name) and m.value.id == "self":
                    par = getattr(m, "ctx", None)
                    # writes: self.bytecode.append / self.bytecode[...] = / self.bytecode = [...]
            for m in ast.walk(n):
                if isinstance(m, ast.Call) and isinstance(m.func, ast.Attribute) and m.func.attr in ("append", "extend", "insert") \
                        and isinstance(m.func.value, ast.Attribute) and m.func.value.attr == "bytecode":
                    writers.add(n.name)
                if isinstance(m, ast.Subscript) and isinstance(m.ctx, ast.Store) and isinstance(m.value, ast.Attribute) and m.value.attr == "bytecode":
                    writers.add(n.name)
    out.append(ob("C14.struct.bytecode-writers", writers <= {"_emit", "_emit_jump", "_patch_jump"}, "K3",
                  f"functions writing bytes into self.bytecode: {sorted(writers)}"))
    return out


@groups.group(id="C14.decode-expr", prop="C14", kind="K2", functions=["microjs.vm:VM._execute"])
def c14_decode_expr(tier="quick", seed=0):
    """the decode expression proved invertible in C14.emit/patch_jump (decode16) is the one in the VM"""
    from pyvc import structural as S
    from pyvc.groups import ob
    import ast
    f = S.fn("microjs.vm", "VM._execute")
    src = [_S_.unparse(n) for n in ast.walk(f) if isinstance(n, ast.Assign)]
    want = ["low = bytecode[frame.ip]", "high = bytecode[frame.ip + 1]", "arg = low | high << 8", "frame.ip += 2"]
    have = [w for w in want[:3] if w in src]
    aug = any(isinstance(n, ast.AugAssign) and _S_.unparse(n) == "frame.ip += 2" for n in ast.walk(f))
    return [ob("C14.decode-expr.execute", len(have) == 3 and aug, "K2", f"decoder statements found: {have}, ip += 2: {aug}")]


def _template_case(job):
    name, n, src, want = job
    from microjs import Context
    from microjs.errors import JSError
    try:
        r = Context(time_limit=60).eval(src)
        if r != want:
            return name, n, f"returned {r!r}, expected {want!r}"
    except JSError as e:
        if type(e).__name__ not in ("JSError", "JSSyntaxError") or not ("too large" in str(e).lower() or "too deep" in str(e).lower()):
            # a JSError that does not say what is too large (incl. TimeLimitError from a mis-jump)
            return name, n, f"{type(e).__name__}: {str(e)[:100]}"
    except BaseException as e:  # noqa
        return name, n, f"host exception {type(e).__name__}: {str(e)[:100]}"
    return name, n, None


@groups.group(id="C14.bounded.templates", prop="C14", kind="B", functions=["microjs.context:Context.eval"])
def c14_templates(tier="quick", seed=0):
    """shape templates swept across the encoding boundaries: closed-form result or an up-front JSError"""
    from pyvc.groups import ob
    from microjs import Context
    from microjs.errors import JSError
    ns = [1, 2, 100, 254, 255, 256, 257, 300, 1000] + ([5000, 13000, 22000, 70000] if tier == "quick" else [5000, 13000, 21840, 21850, 22000, 40000, 70000, 100000])
    T = {
        "array-literal": (lambda n: "[" + ",".join(["1"] * n) + "].length", lambda n: n),
        "distinct-consts": (lambda n: "var s=0;" + "".join(f"s=s+{i + 1000};" for i in range(n)) + "s", lambda n: sum(i + 1000 for i in range(n))),
        "distinct-globals": (lambda n: "".join(f"var v{i}={i};" for i in range(n)) + f"v{n - 1}", lambda n: n - 1),
        "long-if": (lambda n: "var s=0; if (s==0) {" + "s=s+1;" * n + "} else { s=-1 } s", lambda n: n),
        "long-loop": (lambda n: "var s=0; for (var i=0;i<2;i++) {" + "s=s+1;" * n + "} s", lambda n: 2 * n),
        "call-args": (lambda n: "function f(){return arguments.length} f(" + ",".join(["0"] * n) + ")", lambda n: n),
        "func-locals": (lambda n: "function f(){" + "".join(f"var a{i}={i};" for i in range(n)) + f"return a{n - 1}" + "} f()", lambda n: n - 1),
        "switch-cases": (lambda n: "var r=-1; switch(" + str(n - 1) + "){" + "".join(f"case {i}: r={i}; break;" for i in range(n)) + "} r", lambda n: n - 1),
        "object-literal": (lambda n: "var o={" + ",".join(f"k{i}:{i}" for i in range(n)) + "}; o.k" + str(n - 1), lambda n: n - 1),
        "try-long": (lambda n: "var s=0; try {" + "s=s+1;" * n + "} catch(e) { s=-1 } s", lambda n: n),
    }
    # the same size sweep for an expression wherever an expression can be compiled: size alone must never surface as a host
    # error, whichever compile path (program, declaration hoisting, nested functions, arrows, methods, accessors) meets it
    PLACES = {"top": "{E}", "decl": "function f(){ return {E} } f()", "decl-used-before": "var r = f(); function f(){ return {E} } r",
              "nested-decl": "function g(){ function f(){ return {E} } return f() } g()", "funcexpr": "(function(){ return {E} })()", "arrow": "(() => {E})()",
              "arrow-block": "(() => { return {E} })()", "method": "({m: function(){ return {E} }}).m()", "getter": "({get g(){ return {E} }}).g",
              "callback": "[0].map(function(){ return {E} })[0]", "ctor": "new (function(){ this.v = {E} })().v", "in-try": "function f(){ try { return {E} } finally { } } f()",
              "in-loop": "function f(){ for (var i = 0; i < 1; i++) { return {E} } } f()", "default-in-switch": "function f(){ switch (1) { default: return {E} } } f()"}
    for pname, ptxt in PLACES.items():
        T[f"sum@{pname}"] = ((lambda n, ptxt=ptxt: ptxt.replace("{E}", "+".join(["1"] * n))), (lambda n: n))
        T[f"concat@{pname}"] = ((lambda n, ptxt=ptxt: ptxt.replace("{E}", "('a'" + "+'a'" * (n - 1) + ").length")), (lambda n: n))
        T[f"digits@{pname}"] = ((lambda n, ptxt=ptxt: ptxt.replace("{E}", "1" * n)), (lambda n: float("1" * n)))
        def big(text, base):
            try:
                return float(int(text, base))
            except OverflowError:
                return float("inf")
        # literals in the other bases, long fractions and long strings: their value, Infinity where a double cannot hold it
        T[f"hex@{pname}"] = ((lambda n, ptxt=ptxt: ptxt.replace("{E}", "0x" + "f" * n)), (lambda n, big=big: big("f" * n, 16)))
        T[f"octal@{pname}"] = ((lambda n, ptxt=ptxt: ptxt.replace("{E}", "0o" + "7" * n)), (lambda n, big=big: big("7" * n, 8)))
        T[f"binary@{pname}"] = ((lambda n, ptxt=ptxt: ptxt.replace("{E}", "0b" + "1" * n)), (lambda n, big=big: big("1" * n, 2)))
        T[f"fraction@{pname}"] = ((lambda n, ptxt=ptxt: ptxt.replace("{E}", "0." + "3" * n)), (lambda n: float("0." + "3" * n)))
        T[f"exponent@{pname}"] = ((lambda n, ptxt=ptxt: ptxt.replace("{E}", "1e" + "0" * (n - 1) + "9")), (lambda n: 1e9))
        T[f"string@{pname}"] = ((lambda n, ptxt=ptxt: ptxt.replace("{E}", "'" + "s" * n + "'.length")), (lambda n: n))
        T[f"nest@{pname}"] = ((lambda n, ptxt=ptxt: ptxt.replace("{E}", "(" * min(n, 3000) + "1" + ")" * min(n, 3000))), (lambda n: 1))
    import multiprocessing as mp
    jobs = []
    for name, (mk, expect) in T.items():
        for n in ns:
            if n > 5000 and name in ("distinct-globals", "call-args", "func-locals", "object-literal", "array-literal", "switch-cases", "distinct-consts"):
                continue
            if "@" in name and n not in (1, 2, 300, 1000, 5000, 22000):
                continue
            if "@" in name and n > 5000 and tier == "quick" and not name.startswith("sum@"):
                continue
            if name.split("@")[0] in ("hex", "octal", "binary", "fraction", "exponent", "string") and tier == "quick" and name.split("@")[1] not in ("top", "decl", "arrow", "getter", "in-try"):
                continue
            jobs.append((name, n, mk(n), expect(n)))
    with mp.get_context("fork").Pool(16) as pool:
        res = pool.map(_template_case, jobs, chunksize=4)
    out = []
    for name in T:
        mine = [(n, why) for (nm, n, why) in res if nm == name]
        if not mine:
            continue            # (not part of this tier)
        bad = next(((n, why) for n, why in mine if why is not None), None)
        out.append(ob(f"C14.bounded.templates.{name}", bad is None, "B",
                      "ok" if bad is None else f"n={bad[0]}: {bad[1]}", witness=(f"template {name} with n={bad[0]}" if bad else None),
                      confirmed=True if bad else None, domain=len(mine), key=f"C14.bounded.templates.{name}"))
    return out
