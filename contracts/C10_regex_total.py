"""C10 - the regex engine is total.  K3: every raise in the regex parser is RegExpError, construction converts it to
a catchable SyntaxError, budget exhaustion is converted at every matcher entry point; the main matcher loop counts steps
and bounds its stack.  B: pattern soups / mutations / truncations and catastrophic-backtracking families under a watchdog."""
from pyvc import structural as _S_
import random, json
from pyvc import groups
from pyvc.groups import ob


def step_counter_discipline(prop):
    """the step counter is set to zero only where an attempt starts -- never inside a matcher loop, nor in a function that
    holds a matcher loop or is called from one (the shared loop is entered again for every look-around body): a reset
    there ("a fresh budget for each look-ahead body") would switch off the step limit and the polling that hangs off it"""
    from pyvc import structural as S
    import ast
    tree = S.module("microjs.regex.vm")
    loops = [f for f in ast.walk(tree) if isinstance(f, ast.FunctionDef)
             and any(isinstance(w, ast.While) and isinstance(w.test, ast.Constant) and w.test.value is True for w in ast.walk(f))]
    reentered = {f.name for f in loops}
    for f in loops:
        for c in ast.walk(f):
            if isinstance(c, ast.Call) and isinstance(c.func, ast.Attribute) and isinstance(c.func.value, ast.Name) and c.func.value.id == "self":
                reentered.add(c.func.attr)
    resets_in_loop, resets = [], 0
    for f in ast.walk(tree):
        if isinstance(f, ast.FunctionDef):
            loop_nodes = set()
            for w in ast.walk(f):
                if isinstance(w, (ast.While, ast.For)):
                    loop_nodes.update(id(n) for n in ast.walk(w))
            for n in ast.walk(f):
                tgts = n.targets if isinstance(n, ast.Assign) else ([n.target] if isinstance(n, (ast.AugAssign, ast.AnnAssign)) else [])
                for t_ in tgts:
                    if "step_count" in _S_.unparse(t_):
                        plain_increment = isinstance(n, ast.AugAssign) and isinstance(n.op, ast.Add) and _S_.unparse(n.value) == "1"
                        if not plain_increment:
                            resets += 1
                            if id(n) in loop_nodes or f.name in reentered:
                                resets_in_loop.append(f"{f.name}:{n.lineno}")
    return ob(f"{prop}.struct.step-counter-reset-only-at-attempt-start", resets >= 1 and not resets_in_loop, "K3",
              f"{resets} assignment(s) to the step counter other than `+= 1`; inside a matcher loop or a function entered from one: {resets_in_loop}",
              witness="/^(?:(?=a)a|(?=a)a)*b/.test('a'.repeat(40) + 'c')  --  /((?=a)a+)+b/.test('a'.repeat(26) + 'c') under time_limit=0.3")


@groups.group(id="C10.struct", prop="C10", kind="K3", functions=["microjs.regex.parser", "microjs.regex.vm:RegexVM._execute", "microjs.values:JSRegExp"])
def c10_struct(tier="quick", seed=0):
    from pyvc import structural as S
    import ast
    out = []
    tree = S.source().modules["microjs.regex.parser"].tree
    classes = sorted({_S_.unparse(r.exc.func) if isinstance(r.exc, ast.Call) else _S_.unparse(r.exc) for r in ast.walk(tree) if isinstance(r, ast.Raise) and r.exc is not None})
    out.append(ob("C10.struct.parser-raises-only-RegExpError", classes == ["RegExpError"], "K3", f"raise sites of the regex parser use {classes}"))
    init = _S_.unparse(S.fn("microjs.values", "JSRegExp.__init__"))
    out.append(ob("C10.struct.construction-catchable", "except RegExpError as e:" in init and "raise JSSyntaxError(" in init, "K3", "JSRegExp.__init__ converts RegExpError into JSSyntaxError (script SyntaxError)"))
    rinit = _S_.unparse(S.fn("microjs.regex.regex", "RegExp.__init__"))
    out.append(ob("C10.struct.compile-wraps-unexpected", "except Exception as e:" in rinit and "RegExpError" in rinit, "K3", "RegExp.__init__ wraps unexpected compile failures into RegExpError"))
    run = _S_.unparse(S.fn("microjs.values", "JSRegExp._run"))
    out.append(ob("C10.struct.stack-overflow-converted", "except RegexStackOverflow:" in run and "raise JSRangeError(" in run, "K3", "exec/test convert RegexStackOverflow into a RangeError"))
    vm = _S_.unparse(S.source().modules["microjs.vm"].tree)
    n_t, n_s = vm.count("except RegexTimeoutError:"), vm.count("except RegexStackOverflow:")
    out.append(ob("C10.struct.string-methods-convert-budgets", n_t == n_s and n_t >= 6, "K3", f"{n_t} RegexTimeoutError handlers, {n_s} RegexStackOverflow handlers at the matcher entry points of vm.py"))
    # every backtracking loop of the regex VM (functions of RegexVM with a `while True` loop; look-around bodies
    # included, whether they run on the shared loop or on loops of their own)
    tree = S.module("microjs.regex.vm")
    loops = []
    for f in ast.walk(tree):
        if isinstance(f, ast.FunctionDef) and any(isinstance(w, ast.While) and isinstance(w.test, ast.Constant) and w.test.value is True for w in ast.walk(f)):
            loops.append(f)
    def all_loops(pred):
        return bool(loops) and all(pred(_S_.unparse(f)) for f in loops)
    import re as _re
    names = [f.name for f in loops]
    out.append(ob("C10.struct.step-budget", all_loops(lambda t: _re.search(r"(\w|\.)*step_count \+= 1", t) and "self.step_limit" in t), "K3",
                  f"every matcher loop ({names}) counts every step against step_limit",
                  witness="a catastrophic pattern inside a look-around, e.g. /(?=(a*)*b)/.test('aaaaaaaaaaaaaaaaaaaaaaaaaaaa')"))
    out.append(ob("C10.struct.stack-budget", all_loops(lambda t: "self.stack_limit" in t and "raise RegexStackOverflow" in t), "K3",
                  f"every matcher loop ({names}) bounds its backtrack stack by stack_limit"))
    out.append(ob("C10.struct.poll", all_loops(lambda t: "self.poll_interval" in t and "self.poll_callback" in t and "raise RegexTimeoutError" in t), "K3",
                  f"every matcher loop ({names}) polls the deadline callback"))
    out.append(step_counter_discipline("C10"))
    # the budget is per attempt and does not grow with the subject
    ex = _S_.unparse(S.fn("microjs.regex.vm", "RegexVM._execute"))
    lim = [n for f in loops for n in ast.walk(f) if isinstance(n, ast.Compare) and "step_limit" in _S_.unparse(n)]
    ok = bool(lim) and all(_S_.unparse(c.comparators[0]) == "self.step_limit" for c in lim) and "self.step_limit =" not in _S_.unparse(tree).replace("self.step_limit = step_limit", "")
    out.append(ob("C10.struct.step-budget-constant", ok, "K3", "steps are compared with self.step_limit itself (no scaling by subject length or mode); step_limit is assigned in __init__ only",
                  witness="/(a*)*b/y.test('a'.repeat(5000)) without a time limit"))
    return out


META = list("()[]{}|*+?.^$\\-,:=!<>") + ["\u0130", "\u00df", "\u212a", "\\u0130", "k", "s", "i", "\\d", "\\w", "\\s", "\\b", "\\1", "\\2", "a", "b", "1", "(?:", "(?=", "(?!", "(?<=", "(?<!", "{2}", "{1,", "{,3}", "{2,1}", "[^", "\\u", "\\x", "\\c", "{100000000}"]
# bodies that compile to nothing under huge counts (the program size limit cannot trigger: nothing is emitted)
HUGE = ["(?:){N}", "(){N}", "(?:|){N}", "(?:a{0}){N}", "(?:(?:){N}){N}", "(?:){N,}", "(?:){0,N}", "a{N}", "(?:a|b){N}", "(?=){N}", "\\b{N}", "^{N}", "(?:^){N}", "[]{N}",
        "(?:a{0,0}){N}", "((?:)){N}"]
SUBJECTS = ["", "a", "ab", "aaaaaaaaaaaaaaaaaaaaaaaa", "foo bar", "aXb\n", "\u0130", "\u00df", "K\u212ak", "\u01c5\u017f", "\ud83d\ude00", "a\u0130b\u00dfss"]


def _literal_ok(pat):
    """can the pattern be written between slashes (ECMA-262 12.9.5 RegularExpressionLiteral: no line terminator, a `/`
    only inside a class or escaped, classes closed, no trailing backslash, not starting with `*`)"""
    if not pat or pat[0] in "*/=" or any(c in pat for c in "\n\r\u2028\u2029"):
        return False
    in_class, i = False, 0
    while i < len(pat):
        c = pat[i]
        if c == "\\":
            if i + 1 >= len(pat):
                return False
            i += 2
            continue
        if c == "[":
            in_class = True
        elif c == "]":
            in_class = False
        elif c == "/" and not in_class:
            return False
        i += 1
    return not in_class


VALID = ["a*b", "(a|b)+c", "[a-c]{2,3}", "a(?=b)", "(?<=a)b", "(a)\\1", "^a.b$", "\\bfoo\\b", "(?:ab)*?c", "[^\\d\\s]+", "a{2}b{0,1}", "((a)|(b))*", "\\u0041", "(a*)*b", "(a|a)*c", "(x+x+)+y"]


def _soup_chunk(args):
    seed, n = args
    import signal, time
    from microjs import Context
    r = random.Random(seed)
    bad = []
    cnt = 0

    def boom(*a):
        raise TimeoutError("hang")
    signal.signal(signal.SIGPROF, boom)      # CPU-time watchdog (independent of the load of the machine)
    for i in range(n):
        k = r.random()
        if k < 0.5:
            pat = "".join(r.choice(META) for _ in range(r.randint(1, 8)))
        elif k < 0.8:
            v = r.choice(VALID)
            j = r.randrange(len(v) + 1)
            pat = v[:j] + r.choice(META) + v[j:] if r.random() < 0.5 else v[:j]
        elif k < 0.9:
            pat = "(" * r.randint(1, 40) + "a" + ")" * r.randint(0, 40) if r.random() < 0.5 else "(a)" * r.randint(100, 600)
        else:
            pat = r.choice(HUGE).replace("N", r.choice(["9999999", "100000000", "65536", "4294967296"])) + r.choice(["", "a", "$"])
        flags = r.choice(["", "g", "i", "gim", "s", "y", "x", "gg", "u", "i", "gi", "iy"])
        subj = r.choice(SUBJECTS)
        sj = json.dumps(subj)
        form = r.choice(["ctor", "ctor", "literal", "string-pattern", "literal-unused"])
        if form.startswith("literal") and not (_literal_ok(pat) and flags.isalpha() or (_literal_ok(pat) and flags == "")):
            form = "ctor"
        uses = (f"r = ['ok', re.test({sj}), typeof re.exec({sj}), {sj}.replace(re, 'x').length >= 0, {sj}.split(re).length >= 0, {sj}.search(re) >= -1, "
                f"typeof {sj}.match(re), {sj}.replaceAll(new RegExp(re.source, 'g'), 'x').length >= 0]")
        if form == "ctor":
            body = f"var re = new RegExp({json.dumps(pat)}, {json.dumps(flags)}); {uses}"
        elif form == "literal":
            # a regex literal: an invalid pattern is a SyntaxError the script can catch, like the constructor's
            body = f"var re = /{pat}/{flags}; {uses}"
        elif form == "literal-unused":
            # ... and a literal that is never evaluated does not stop the program
            body = f"if (false) {{ var dead = /{pat}/{flags}; }} var unused = function () {{ return /{pat}/{flags}; }}; r = ['ok']"
        else:
            # the pattern given as a string to the String methods that build a RegExp from it
            body = f"r = ['ok', typeof {sj}.match({json.dumps(pat)}), {sj}.search({json.dumps(pat)}) >= -1]"
        src = f"var r; try {{ {body} }} catch (e) {{ r = ['err', e.name, e instanceof SyntaxError || e instanceof RangeError] }} r"
        cnt += 1
        signal.setitimer(signal.ITIMER_PROF, 20)
        t0 = time.process_time()
        try:
            got = Context(time_limit=2.0).eval(src)
            ok = (got[0] == "ok") or (got[0] == "err" and got[2] is True)
            if not ok:
                bad.append((src, repr(got)[:120]))
            elif time.process_time() - t0 > 6.0:
                bad.append((src, f"{time.process_time() - t0:.1f} s of CPU time under time_limit=2 (unpolled work)"))
        except TimeoutError:
            bad.append((src, "HANG > 20 s under time_limit=2"))
        except Exception as e:  # noqa
            if type(e).__name__ not in ("TimeLimitError",):
                bad.append((src, "escaped eval: " + type(e).__name__ + ": " + str(e)[:60]))
        finally:
            signal.setitimer(signal.ITIMER_PROF, 0)
        if len(bad) > 3:
            break
    return cnt, bad


REDOS = ["^(?:(?=a)a|(?=a)a)*b", "(?:(?!b)a|(?!b)a)*b", "(a*)*b", "(a+)+b", "(a|a)*b", "(a|aa)+b", "(.*)*x", "(\\w+\\s?)+$", "(a*)\\1*b", "(?=(a+)+b)a", "(?<=(?:a|a)*c)x", "((a?){20}){20}b", "(x+x+)+y", "(?:(?:a*){2})*b", "(?:a*)*?b", "([ab]*)*c"]


FORMS_REDOS = ["new RegExp(P).test(S)", "new RegExp(P, 'y').test(S)", "S.split(new RegExp(P))", "S.match(new RegExp(P, 'g'))", "S.replace(new RegExp(P, 'y'), '')", "S.search(new RegExp(P))",
               "new RegExp(P, 'gy').exec(S)", "S.replace(new RegExp(P, 'g'), function () { return ''; })", "S.match(new RegExp(P, 'y'))", "S.replaceAll(new RegExp(P, 'g'), '')", "S.split(new RegExp(P, 'y'), 2)"]


def _redos_case(args):
    pat, n, tl, fi = args
    import signal, time
    from microjs import Context

    def boom(*a):
        raise TimeoutError("hang")
    signal.signal(signal.SIGPROF, boom)      # CPU-time watchdog: the verdict must not depend on the load of the machine
    subj = "a" * n
    form = FORMS_REDOS[fi]
    use = form.replace("P", json.dumps(pat)).replace("S", json.dumps(subj + "c"))
    src = f"var r; try {{ r = ['ok', typeof ({use})] }} catch (e) {{ r = ['err', e.name] }} r"
    t0 = time.time()
    signal.setitimer(signal.ITIMER_PROF, 30)
    try:
        got = Context(time_limit=tl).eval(src)
        res = repr(got)
        ok = True
    except TimeoutError:
        res, ok = "HANG > 30 s of CPU time", False
    except Exception as e:  # noqa
        res = type(e).__name__
        ok = type(e).__name__ == "TimeLimitError"
    finally:
        signal.setitimer(signal.ITIMER_PROF, 0)
    dt = time.time() - t0
    if tl is not None and dt > tl + 4:
        ok, res = False, res + f" after {dt:.1f}s with time_limit={tl}"
    return pat, n, tl, ok, res, src


@groups.group(id="C10.bounded", prop="C10", kind="B", functions=["microjs.regex", "microjs.values:JSRegExp"])
def c10_bounded(tier="quick", seed=0):
    import multiprocessing as mp
    n = 60 if tier == "quick" else 1500
    with mp.get_context("fork").Pool(16) as pool:
        rs = pool.map(_soup_chunk, [(seed * 1000 + i, n) for i in range(16)])
        cases = [(p, k, tl, 0) for p in REDOS for k in ((30, 1000) if tier == "quick" else (30, 1000, 10000)) for tl in (1.0, None) if not (tl is None and k > 30)]
        # every consumer and the sticky / global flags, on the short subject under a time limit
        cases += [(p, 30, 1.0, fi) for p in REDOS for fi in range(1, len(FORMS_REDOS))]
        # ... and without any time limit: what ends the work then is the step budget of each attempt (a loaded machine lets a
        # wall-clock limit fire first and hide what happens when the budget is exhausted)
        cases += [(p, 24, None, fi) for p in REDOS for fi in range(1, len(FORMS_REDOS))]
        rr = pool.map(_redos_case, cases)
    out = []
    bad = [b for _, bs in rs for b in bs]
    tot = sum(c for c, _ in rs)
    out.append(ob("C10.bounded.pattern-soup", not bad, "B", f"{tot} patterns constructed and used through every regex API" if not bad else f"{bad[0][0][:150]} -> {bad[0][1]}",
                  witness=(bad[0][0] if bad else None), confirmed=True if bad else None, domain=tot))
    for p in REDOS:
        b = [x for x in rr if x[0] == p and not x[3]]
        oid = "C10.bounded.redos." + "".join(ch if ch.isalnum() else "_" for ch in p)
        out.append(ob(oid, not b, "B", "bounded work on subjects up to 1e3/1e4" if not b else f"n={b[0][1]} time_limit={b[0][2]}: {b[0][4]}",
                      witness=(b[0][5] if b else None), confirmed=True if b else None, domain=len([x for x in rr if x[0] == p]), key=oid))
    return out


# ---- bounded: consumers that loop over matches come to an end WITHOUT a time limit ------------------------------------------
LOOP_PATTERNS = ["^a", "^", "$", "a$", "\\b", "\\B", "(?=a)", "(?!a)", "(?<=a)", "(?<!a)", "a*", "a*?", "(?:)", "^a|b", "^\\s*", "(^a)", "(?:^a)+", "^a*", "$|^", "a|", "|a", "(a)|^", "x*$", "^$", "\\b|\\B", "[^]", ".", ".*", ".*?", "(.)\\1*"]
LOOP_SUBJECTS = ["aaa", "", "a\nb", "ab ab", "\n\n", "xaax"]
LOOP_FLAGS = ["g", "gm", "gy", "y", "gi", "gs", "gmy", ""]
LOOP_USES = ["S.replace(r, 'x')", "S.replace(r, function () { return 'y' })", "S.match(r)", "S.split(r)", "S.replaceAll(new RegExp(r.source, r.flags.indexOf('g') < 0 ? r.flags + 'g' : r.flags), 'z')",
             # (an exec loop over EMPTY matches does not advance by itself in ECMAScript either: it stops at the first empty match here)
             "var n = 0, m; while ((m = r.exec(S)) && m[0] !== '' && n < 200) n++; n", "var n = 0, m; while ((m = r.exec(S)) && m[0] !== '' && r.test(S) && n < 200) n++; n", "S.search(r)", "S.split(r, 3)"]


def _loop_chunk(pats):
    import json, signal, time
    from microjs import Context

    def boom(*a):
        raise TimeoutError("hang")
    signal.signal(signal.SIGPROF, boom)
    bad, n = [], 0
    for pat in pats:
        for fl in LOOP_FLAGS:
            for subj in LOOP_SUBJECTS:
                for use in LOOP_USES:
                    if "while" in use and not ("g" in fl or "y" in fl):
                        continue          # (a regex without g/y matches at the same place every time: such a loop is the script's)
                    src = f"var S = {json.dumps(subj)}; var r = new RegExp({json.dumps(pat)}, {json.dumps(fl)}); var out; try {{ out = ['ok', {use.split('; ')[-1] if 'while' not in use else 'null'}] }} catch (e) {{ out = ['err', e.name] }} out"
                    if "while" in use:
                        src = f"var S = {json.dumps(subj)}; var r = new RegExp({json.dumps(pat)}, {json.dumps(fl)}); var out; try {{ {use}; out = ['ok', n] }} catch (e) {{ out = ['err', e.name] }} out"
                    n += 1
                    signal.setitimer(signal.ITIMER_PROF, 10)
                    try:
                        got = Context().eval(src)         # no time limit: the work must end by itself
                        if got[0] == "ok" and "while" in use and got[1] >= 200:
                            bad.append((src, "the exec/test loop over a global or sticky regex never sees null (200 iterations on a subject of at most 5 characters)"))
                    except TimeoutError:
                        bad.append((src, "still running after 10 s of CPU time without a time limit"))
                    except BaseException as e:  # noqa
                        bad.append((src, "escaped eval: " + type(e).__name__ + ": " + str(e)[:60]))
                    finally:
                        signal.setitimer(signal.ITIMER_PROF, 0)
                    if len(bad) > 3:
                        return n, bad
    return n, bad


@groups.group(id="C10.bounded.match-loops-end", prop="C10", kind="B", functions=["microjs.regex.vm:RegexVM.search", "microjs.regex.regex:RegExp.exec", "microjs.vm:VM._make_string_method"])
def c10_match_loops_end(tier="quick", seed=0):
    """consumers that go from match to match (global replace / match / split / replaceAll, exec and test loops over global and
    sticky regexes) end on their own -- without any time limit -- for anchored, empty-matching and look-around patterns under
    every flag combination: a search that ignores where it was asked to start, or an empty match that does not advance,
    is an endless loop that only a time limit would stop"""
    import multiprocessing as mp
    pats = LOOP_PATTERNS
    with mp.get_context("fork").Pool(15) as pool:
        rs = pool.map(_loop_chunk, [pats[i::15] for i in range(15)])
    bad = [b for _, bs in rs for b in bs]
    tot = sum(c for c, _ in rs)
    return [ob("C10.bounded.match-loops-end", not bad, "B", f"{tot} (pattern, flags, subject, consumer) cases end without a time limit" if not bad else f"{bad[0][0][:200]} -> {bad[0][1]}",
               witness=(bad[0][0] if bad else None), confirmed=True if bad else None, domain=tot)]


@groups.group(id="C10.bounded.time-limit-honoured", prop="C10", kind="B", functions=["microjs.regex.vm:RegexVM._run", "microjs.vm:VM._make_string_method.<attempt>"])
def c10_time_limit_honoured(tier="quick", seed=0):
    """'governed ... by the time limit': searches made of very many short attempts (one per start position or per match,
    through every consumer) stop at the time limit instead of running on for seconds (the cases of C01's library)"""
    import multiprocessing as mp
    import contracts.C01_time as C01
    names = sorted(n for n in C01.REGEX if n.startswith("regex-short-attempts") or n.endswith("in-loop"))
    with mp.get_context("fork").Pool(8) as pool:
        res = pool.map(C01._case_worker, [(C01.REGEX[n], 0.25, None) for n in names])
    out = []
    for n, (kind, dt) in zip(names, res):
        ok = (kind == "TimeLimitError" or kind.startswith("returned") or kind.startswith("JSError")) and dt < 0.25 + 3.0
        out.append(ob(f"C10.bounded.time-limit-honoured.{n}", ok, "B", f"{kind} after {dt:.2f}s of CPU time (time_limit=0.25)", witness=None if ok else C01.REGEX[n], confirmed=None if ok else True, domain=1))
    return out


# ---- bounded: what a construction may cost before it is refused ----------------------------------------------------------
def _construct_case(pat):
    import tracemalloc, time, resource
    from microjs.regex import RegExp
    # (an allocation far beyond the bound fails at once instead of exhausting the machine)
    try:
        resource.setrlimit(resource.RLIMIT_AS, (3 * 2 ** 30, resource.getrlimit(resource.RLIMIT_AS)[1]))
    except (ValueError, OSError):
        pass
    tracemalloc.start()
    t0 = time.process_time()
    try:
        RegExp(pat)
        res = "ok"
    except Exception as e:  # noqa
        res = type(e).__name__
    peak = tracemalloc.get_traced_memory()[1]
    tracemalloc.stop()
    return pat, res, peak, time.process_time() - t0


@groups.group(id="C10.bounded.construction-cost", prop="C10", kind="B", functions=["microjs.regex.compiler:RegexCompiler._compile_quantifier", "microjs.regex.compiler:RegexCompiler._emit"])
def c10_construction_cost(tier="quick", seed=0):
    """huge counted quantifiers over every kind of body: the construction succeeds or is refused with RegExpError after
    bounded work -- the program size limit applies to every way of emitting code (at most 160 MB traced and 30 s of CPU;
    the unchanged engine needs under 70 MB and 3 s)"""
    import multiprocessing as mp
    bodies = ["a", ".", "[ab]", "\\d", "(?:a|b)", "(a)", "(?:ab)", "\\b", "(?=a)", "a?", "[^a]", "\\1(a)"]
    counts = ["{20000000}", "{999999999}", "{0,20000000}", "{20000000,}", "{5,30000000}"]
    cases = [b + q for b in bodies for q in counts]
    with mp.get_context("fork").Pool(8) as pool:
        res = pool.map(_construct_case, cases)
    bad = [(p, r, pk, dt) for p, r, pk, dt in res if r not in ("ok", "RegExpError") or pk > 160e6 or dt > 30]
    return [ob("C10.bounded.construction-cost", not bad, "B", f"{len(cases)} huge counted quantifiers" if not bad else f"new RegExp({bad[0][0]!r}): {bad[0][1]}, peak {bad[0][2] / 1e6:.0f} MB, {bad[0][3]:.1f} s",
               witness=(f"new RegExp({bad[0][0]!r})" if bad else None), confirmed=True if bad else None, domain=len(cases))]


# =======================================================================================================================
# K1: the pattern parser's cursor and its numeric sub-parsers, for every pattern text and position
# =======================================================================================================================
from pyvc.api import *      # noqa: E402


def _place_rx(ps, pat, pos):
    ps.pattern = pat
    ps.pos = pos


def c_rxparser_peek(ps: Obj("RegexParser"), pat: Str, pos: IntRange(0, 2 ** 31)):
    """_peek reads the current character without consuming, None at the end; never fails"""
    assume(pos <= len(pat))
    _place_rx(ps, pat, pos)
    r = outcome(REAL, ps)
    check("never-raises", r[0] == "ret")
    if pos < len(pat):
        check("reads-the-character", r[1] == pat[pos])
    else:
        check("None-at-the-end", r[1] is None)
    check("cursor-stays", ps.pos == pos and ps.pattern == pat)


def c_rxparser_advance(ps: Obj("RegexParser"), pat: Str, pos: IntRange(0, 2 ** 31)):
    """_advance consumes exactly one character, none at the end; the cursor never passes the end of the pattern"""
    assume(pos <= len(pat))
    _place_rx(ps, pat, pos)
    r = outcome(REAL, ps)
    check("never-raises", r[0] == "ret")
    if pos < len(pat):
        check("returns-and-consumes-one", r[1] == pat[pos] and ps.pos == pos + 1)
    else:
        check("None-at-the-end-cursor-stays", r[1] is None and ps.pos == pos)
    check("cursor-within-the-pattern", ps.pos <= len(pat) and ps.pattern == pat)


def c_rxparser_match(ps: Obj("RegexParser"), pat: Str, pos: IntRange(0, 2 ** 31), ch: Str):
    """_match(c) consumes the current character iff it is c"""
    assume(pos <= len(pat) and len(ch) == 1)
    _place_rx(ps, pat, pos)
    r = outcome(REAL, ps, ch)
    check("never-raises", r[0] == "ret")
    hit = pos < len(pat) and pat[pos] == ch
    check("result-says-whether-it-matched", r[1] is hit)
    check("consumes-iff-matched", ps.pos == (pos + 1 if hit else pos) and ps.pattern == pat)


def _native_rxp(name):
    def make():
        from microjs.regex.parser import RegexParser
        return getattr(RegexParser, name)
    return make


register(c_rxparser_peek, id="C10.RegexParser._peek", prop="C10", target=method("microjs.regex.parser", "RegexParser._peek"), native=_native_rxp("_peek"))
register(c_rxparser_advance, id="C10.RegexParser._advance", prop="C10", target=method("microjs.regex.parser", "RegexParser._advance"), native=_native_rxp("_advance"))
register(c_rxparser_match, id="C10.RegexParser._match", prop="C10", target=method("microjs.regex.parser", "RegexParser._match"), native=_native_rxp("_match"))


def inv_qstart(self, i):
    return self.pos + 1 <= i


def c_rxparser_is_quantifier_start(ps: Obj("RegexParser"), pat: Str, pos: IntRange(0, 2 ** 31)):
    """_is_quantifier_start looks ahead over any pattern text without ever indexing outside it, consumes nothing, and says
    yes only at a `{`"""
    assume(pos <= len(pat))
    _place_rx(ps, pat, pos)
    r = outcome(REAL, ps)
    check("never-raises", r[0] == "ret")
    check("answers-a-boolean", r[1] is True or r[1] is False)
    check("yes-only-at-a-brace", r[1] is False or (pos < len(pat) and pat[pos] == "{"))
    check("consumes-nothing", ps.pos == pos and ps.pattern == pat)


_QS = "microjs.regex.parser:RegexParser._is_quantifier_start"
register(c_rxparser_is_quantifier_start, id="C10.RegexParser._is_quantifier_start", prop="C10", target=method("microjs.regex.parser", "RegexParser._is_quantifier_start"),
         native=_native_rxp("_is_quantifier_start"), invariants={(_QS, 0): inv_qstart, (_QS, 1): inv_qstart})


@groups.group(id="C10.struct.process-state", prop="C10", kind="K3", functions=["microjs (module-level state)"])
def c10_process_state(tier="quick", seed=0):
    """budgets and deadlines belong to one construction / one match: nothing compiled or counted is kept in the process (the analysis of C12)"""
    from contracts.C12_context import process_state
    return process_state("C10", tier, seed)
