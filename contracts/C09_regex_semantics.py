"""C09 - regular expressions match as ECMAScript backtracking specifies.
The whole-matcher equivalence is out of deductive reach (DESIGN 5 C09): level claimed = bounded exploration.
X: the character predicates of the instruction set over all 0x110000 code points against the ECMAScript sets;
B: exhaustive small patterns over a 3-letter alphabet x all subjects up to length 4 against a reference backtracking
matcher (Python's `re`, whose semantics coincide with ECMAScript on the generated fragment; captures inside quantified
groups are compared only where the two dialects agree)."""
import itertools, json, random, re as _re
from pyvc import groups
from pyvc.groups import ob


def gen_patterns(max_atoms):
    atoms = ["a", "b", "c", ".", "[ab]", "[^a]", "(a)", "(?:ab)", "(a|b)", "\\b", "^", "$", "(?=a)", "(?!b)", "(?<=a)", "(?<!b)", "\\1"]
    quants = ["", "*", "+", "?", "*?", "+?", "??", "{2}", "{1,2}", "{0,1}?"]
    out = set()
    for n in range(1, max_atoms + 1):
        for combo in itertools.product(atoms, repeat=n):
            for qs in itertools.product(quants if n <= 2 else ["", "*", "+?", "?"], repeat=n):
                p = ""
                ok = True
                for a, q in zip(combo, qs):
                    if q and a in ("^", "$", "\\b", "(?=a)", "(?!b)", "(?<=a)", "(?<!b)"):
                        ok = False
                        break
                    p += a + q
                if ok and not ("\\1" in p and "(a" not in p.split("\\1")[0]):
                    # a backreference to a group that may not have participated matches empty in ECMAScript
                    # but fails in the reference dialect: outside the common fragment
                    if "\\1" in p and _re.search(r"\(a(\|b)?\)(\*|\?|\{0)", p):
                        continue
                    out.add(p)
    return sorted(out)


def _sem_chunk(items):
    from microjs import Context
    c = Context(time_limit=20)
    bad = []
    n = 0
    for pat, flags in items:
        try:
            rx = _re.compile(pat, (_re.I if "i" in flags else 0) | (_re.M if "m" in flags else 0) | (_re.S if "s" in flags else 0))
        except _re.error:
            continue
        quantified_capture = bool(_re.search(r"\((?!\?)[^)]*\)[*+?{]", pat)) or "\\1" in pat and bool(_re.search(r"\)[*+?{]", pat))
        subs = [""] + ["".join(t) for k in range(1, 4) for t in itertools.product("abc", repeat=k)] + ["a\nb", "Ab", "abca"]
        want = []
        for s in subs:
            m = rx.search(s)
            if m is None:
                want.append(None)
            else:
                caps = None if quantified_capture else [m.group(i) for i in range(1, (rx.groups or 0) + 1)]
                want.append([m.start(), m.group(0), caps])
        src = (f"var re = new RegExp({json.dumps(pat)}, {json.dumps(flags)}); var subs = {json.dumps(subs)}; var out = [];\n"
               "for (var i = 0; i < subs.length; i++) { var m = re.exec(subs[i]); if (m === null) { out.push(null) } else { var c = []; for (var j = 1; j < m.length; j++) c.push(m[j] === undefined ? null : m[j]); out.push([m.index, m[0], c]) } } out")
        n += len(subs)
        try:
            got = c.eval(src)
        except Exception as e:  # noqa
            bad.append((pat, flags, "ERR " + type(e).__name__ + ": " + str(e)[:60], ""))
            continue
        for s, g, w in zip(subs, got, want):
            if w is not None and w[2] is None and g is not None:
                g = [g[0], g[1], None]
            if g != w:
                bad.append((pat, flags, f"on {s!r}: engine {g!r}", f"reference {w!r}"))
                break
    return n, bad


@groups.group(id="C09.bounded.small-patterns", prop="C09", kind="B", functions=["microjs.regex.parser", "microjs.regex.compiler", "microjs.regex.vm"])
def c09_small(tier="quick", seed=0):
    import multiprocessing as mp
    pats = gen_patterns(2 if tier == "quick" else 3)
    rng = random.Random(seed)
    if tier == "quick" and len(pats) > 2500:
        pats = rng.sample(pats, 2500)
    items = [(p, f) for p in pats for f in ("", "i" if "a" in p else "", "m" if ("^" in p or "$" in p) else "", "s" if "." in p else "")]
    items = sorted(set(items))
    chunks = [items[i::16] for i in range(16)]
    with mp.get_context("fork").Pool(16) as pool:
        rs = pool.map(_sem_chunk, chunks)
    fails = [b for _, bs in rs for b in bs]
    tot = sum(n for n, _ in rs)

    def klass(p):
        for tag, key in (("lookbehind", "(?<"), ("lookahead", "(?="), ("neg-lookahead", "(?!"), ("backref", "\\1"), ("boundary", "\\b"), ("counted", "{"), ("lazy", "?"), ("class", "["), ("group", "("), ("anchor", "^"), ("anchor", "$")):
            if key in p:
                return tag
        return "literal"
    counts, bad = {}, {}
    for p, f in items:
        counts[klass(p)] = counts.get(klass(p), 0) + 1
    for p, f, g, w in fails:
        bad.setdefault(klass(p), []).append((p, f, g, w))
    return [ob(f"C09.bounded.small-patterns.{k}", k not in bad, "B", f"{n} (pattern, flags) x 43 subjects" if k not in bad else f"{len(bad[k])}/{n} patterns differ: /{bad[k][0][0]}/{bad[k][0][1]} {bad[k][0][2]}, {bad[k][0][3]}",
               witness=(f"new RegExp({json.dumps(bad[k][0][0])}, '{bad[k][0][1]}')" if k in bad else None), confirmed=True if k in bad else None, domain=n, key=f"C09.bounded.small-patterns.{k}") for k, n in sorted(counts.items())]


_ES_WS = set("\t\n\x0b\x0c\r \xa0\u1680\u2000\u2001\u2002\u2003\u2004\u2005\u2006\u2007\u2008\u2009\u200a\u2028\u2029\u202f\u205f\u3000\ufeff")
_CHARSET_SPEC = {
    "\\d": lambda ch: "0" <= ch <= "9", "\\D": lambda ch: not ("0" <= ch <= "9"),
    "\\w": lambda ch: ch.isascii() and (ch.isalnum() or ch == "_"), "\\W": lambda ch: not (ch.isascii() and (ch.isalnum() or ch == "_")),
    "\\s": lambda ch: ch in _ES_WS, "\\S": lambda ch: ch not in _ES_WS,
    ".": lambda ch: ch not in "\n\r\u2028\u2029",
}


def _charset_sweep(args):
    """one escape (bare, or inside a plain / negated class) over a range of code points, through the real engine"""
    esc, form, hi = args
    from microjs.regex import RegExp
    pred = _CHARSET_SPEC[esc]
    pat = {"bare": "^" + esc + "$", "class": "^[" + esc + "]$", "negated-class": "^[^" + esc + "]$"}[form]
    rx = RegExp(pat, "")
    bad, n = None, 0
    for cp in range(0, hi):
        if 0xD800 <= cp <= 0xDFFF:
            continue
        ch = chr(cp)
        n += 1
        got = rx.test(ch)
        want = pred(ch) != (form == "negated-class")
        if got != want and bad is None:
            bad = (cp, got)
    return esc, form, n, bad


@groups.group(id="C09.charsets", prop="C09", kind="K4", functions=["microjs.regex.vm:RegexVM._execute"])
def c09_charsets(tier="quick", seed=0):
    """\\d \\w \\s . and their negations over all code points (through the real engine, one test per code point class run)"""
    import multiprocessing as mp
    jobs = [(esc, "bare", 0x110000) for esc in _CHARSET_SPEC]
    with mp.get_context("fork").Pool(7) as pool:
        res = pool.map(_charset_sweep, jobs)
    out = []
    for esc, form, n, bad in res:
        oid = "C09.charsets." + {"\\d": "digit", "\\D": "non-digit", "\\w": "word", "\\W": "non-word", "\\s": "space", "\\S": "non-space", ".": "dot"}[esc]
        out.append(ob(oid, bad is None, "K4", f"{n} code points" if bad is None else f"U+{bad[0]:04X}: engine {bad[1]}, ECMAScript {not bad[1]}",
                      witness=(f"/^{esc}$/.test(String.fromCharCode(0x{bad[0]:x}))" if bad else None), confirmed=True if bad else None, domain=n, key=oid))
    return out


# ---- bounded: frozen results of a reference ECMAScript engine ---------------------------------------------------------
# /verif/spec_fixtures/regex_v8.json: 2600 generated patterns (alternation, greedy/lazy/counted quantifiers, captures,
# back-references incl. into open groups, look-ahead/look-behind with captures, anchors, word boundaries, flags i/m/s)
# x 14 subjects each, with the exec() result (index and captures, undefined as null) recorded once at development time
# from V8 (node 20).  The check replays them on the engine; it never runs node.
def _fixture_chunk(cases):
    from microjs import Context
    ctx = Context(time_limit=30)
    ctx.eval("""function RX(p, f, subs) { var re = new RegExp(p, f); var out = []; for (var i = 0; i < subs.length; i++) { var m;
      try { re.lastIndex = 0; m = re.exec(subs[i]); } catch (e) { out.push('ERR:' + e.name); continue; }
      if (m === null) { out.push(null); continue; } var r = [m.index]; for (var j = 0; j < m.length; j++) r.push(m[j] === undefined ? null : m[j]); out.push(r); } return out; }""")
    bad = []
    n = 0
    for c in cases:
        ctx.set("P", c["p"]); ctx.set("F", c["f"]); ctx.set("S", c["s"])
        try:
            got = ctx.eval("RX(P, F, S)")
        except Exception as e:  # noqa
            got = ["CRASH " + type(e).__name__ + ": " + str(e)[:60]] * len(c["s"])
        for s, g, w in zip(c["s"], got, c["r"]):
            n += 1
            if g != w:
                bad.append((c["p"], c["f"], s, g, w))
    return n, bad


def _features(p):
    import re
    f = []
    if "(?<=" in p or "(?<!" in p:
        f.append("lookbehind")
    if "(?=" in p or "(?!" in p:
        f.append("lookahead")
    if re.search(r"\\[1-9]", p):
        f.append("backref")
    if re.search(r"\{\d", p):
        f.append("counted")
    if re.search(r"[*+?}]\?", p):
        f.append("lazy")
    return "+".join(f) or "plain"


@groups.group(id="C09.bounded.reference-engine", prop="C09", kind="B", functions=["microjs.regex.parser", "microjs.regex.compiler", "microjs.regex.vm"])
def c09_reference(tier="quick", seed=0):
    import multiprocessing as mp, os
    path = os.path.join(os.path.dirname(os.path.dirname(os.path.abspath(__file__))), "spec_fixtures", "regex_v8.json")
    cases = json.load(open(path))
    if tier == "quick":
        rng = random.Random(seed)
        hand = cases[:0]
        cases = [c for i, c in enumerate(cases) if i % 3 == seed % 3 or "\\1" in c["p"] or "(?" in c["p"]]
    chunks = [cases[i::16] for i in range(16)]
    with mp.get_context("fork").Pool(16) as pool:
        rs = pool.map(_fixture_chunk, chunks)
    by = {}
    for c in cases:
        by.setdefault(_features(c["p"]), [0, None])[0] += len(c["s"])
    for n, bad in rs:
        for p, f, s, g, w in bad:
            e = by[_features(p)]
            if e[1] is None:
                e[1] = (p, f, s, g, w)
    out = []
    for k, (n, b) in sorted(by.items()):
        out.append(ob(f"C09.bounded.reference-engine.{k}", b is None, "B",
                      f"{n} (pattern, subject) results equal the recorded reference results" if b is None else
                      f"/{b[0]}/{b[1]}.exec({b[2]!r}): engine {b[3]!r}, reference {b[4]!r}",
                      witness=(f"new RegExp({json.dumps(b[0])}, '{b[1]}').exec({json.dumps(b[2])})" if b else None), confirmed=True if b else None, domain=n))
    return out


# /verif/spec_fixtures/regex_v8_2.json: systematic families (tools/gen_regex_fixtures2.py): quantified alternations with a
# capturing look-around in one branch only; case-insensitive matching over characters with special case forms; counted
# quantifiers over empty / assertion-only bodies.  Same recording, same replay.
@groups.group(id="C09.bounded.reference-engine-2", prop="C09", kind="B", functions=["microjs.regex.parser", "microjs.regex.compiler", "microjs.regex.vm"])
def c09_reference2(tier="quick", seed=0):
    import multiprocessing as mp, os
    path = os.path.join(os.path.dirname(os.path.dirname(os.path.abspath(__file__))), "spec_fixtures", "regex_v8_2.json")
    cases = json.load(open(path))
    cases = [c for c in cases if "u" not in c["f"]]          # the property covers the flags i, m, s
    seen = set()
    cases = [c for c in cases if (c["p"], c["f"]) not in seen and not seen.add((c["p"], c["f"]))]
    if tier == "quick":
        cases = [c for i, c in enumerate(cases) if i % 2 == seed % 2]
    chunks = [cases[i::16] for i in range(16)]
    with mp.get_context("fork").Pool(16) as pool:
        rs = pool.map(_fixture_chunk, chunks)

    def fam(c):
        if any(ord(ch) > 127 for ch in c["p"]) or (c["f"].startswith("i")) or c["p"] in ("[a-z]", "[A-Z]", "\\w"):
            return "case-forms"
        if "(?=" in c["p"] or "(?<" in c["p"] or "(?!" in c["p"]:
            return "lookaround-captures-in-loops" if "|" in c["p"] else "empty-bodies"
        return "empty-bodies"
    by = {}
    keyof = {}
    for c in cases:
        k = fam(c)
        keyof[(c["p"], c["f"])] = k
        by.setdefault(k, [0, []])[0] += len(c["s"])
    for n, bad in rs:
        for p, f, s_, g, w in bad:
            by[keyof[(p, f)]][1].append((p, f, s_, g, w))
    out = []
    for k, (n, bs) in sorted(by.items()):
        b = bs[0] if bs else None
        out.append(ob(f"C09.bounded.reference-engine-2.{k}", not bs, "B",
                      f"{n} (pattern, subject) results equal the recorded reference results" if not bs else
                      f"{len(bs)} of {n} differ, e.g. /{b[0]}/{b[1]}.exec({b[2]!r}): engine {b[3]!r}, reference {b[4]!r}",
                      witness=(f"new RegExp({json.dumps(b[0])}, '{b[1]}').exec({json.dumps(b[2])})" if b else None), confirmed=True if b else None, domain=n))
    return out


@groups.group(id="C09.struct.process-state", prop="C09", kind="K3", functions=["microjs (module-level state)"])
def c09_process_state(tier="quick", seed=0):
    """a match depends on pattern, flags and subject only: no compiled-pattern cache or other state outlives a construction (the analysis of C12)"""
    from contracts.C12_context import process_state
    return process_state("C09", tier, seed)


# ---- K4: character classes are the union of their members, whatever their order and overlap -------------------------------
@groups.group(id="C09.classes", prop="C09", kind="K4", functions=["microjs.regex.compiler:RegexCompiler._compile_char_class", "microjs.regex.vm:RegexVM._in_ranges"])
def c09_classes(tier="quick", seed=0):
    """every class of up to three members (single characters, ranges -- nested, overlapping, adjacent, reversed order of
    writing -- and the shorthand escapes), plain and negated, with and without the i flag, against set union over a test
    alphabet (exhaustive over the member vocabulary); and every shorthand inside a class over all BMP code points"""
    import itertools
    from microjs.regex import RegExp
    ES_WS = set("\t\n\x0b\x0c\r \xa0\u1680\u2000\u2001\u2002\u2003\u2004\u2005\u2006\u2007\u2008\u2009\u200a\u2028\u2029\u202f\u205f\u3000\ufeff")
    word = lambda ch: ch.isascii() and (ch.isalnum() or ch == "_")
    members = {"a": lambda c: c == "a", "b": lambda c: c == "b", "c": lambda c: c == "c", "e": lambda c: c == "e", "3": lambda c: c == "3", "_": lambda c: c == "_", "-": None,
               "a-c": lambda c: "a" <= c <= "c", "b-e": lambda c: "b" <= c <= "e", "a-f": lambda c: "a" <= c <= "f", "c-d": lambda c: "c" <= c <= "d", "a-a": lambda c: c == "a",
               "0-9": lambda c: "0" <= c <= "9", "2-4": lambda c: "2" <= c <= "4", "A-C": lambda c: "A" <= c <= "C", "\\d": lambda c: "0" <= c <= "9", "\\w": word,
               "\\s": lambda c: c in ES_WS, "\\D": lambda c: not ("0" <= c <= "9"), "\\S": lambda c: c not in ES_WS, "\\W": lambda c: not word(c)}
    del members["-"]
    # the same members spelled with escapes (ClassEscape: \\xHH, \\uHHHH, control escapes, \\b = backspace, identity escapes)
    members.update({"\\x61": lambda c: c == "a", "\\u0062": lambda c: c == "b", "\\x61-\\x63": lambda c: "a" <= c <= "c", "\\u0061-c": lambda c: "a" <= c <= "c", "a-\\x66": lambda c: "a" <= c <= "f",
                    "\\t": lambda c: c == "\t", "\\n": lambda c: c == "\n", "\\-": lambda c: c == "-", "\\]": lambda c: c == "]", "\\\\": lambda c: c == "\\", "\\cJ": lambda c: c == "\n",
                    "\\b": lambda c: c == "\x08", "\\0": lambda c: c == "\0", "\\x5f": lambda c: c == "_", "\\u0030-\\u0039": lambda c: "0" <= c <= "9"})
    alphabet = list("abcdefgABCDEFG0123456789_- \n\t!~\u00e9\u2003\u0130\u212a]\\\x08\0x14u")
    names = list(members)
    bad = None
    n = 0
    combos = list(itertools.product(names, repeat=2)) + ([t for t in itertools.product(names, repeat=3)] if tier == "thorough" else [t for i, t in enumerate(itertools.product(names, repeat=3)) if i % 7 == seed % 7])
    for combo in combos:
        body = "".join(combo)
        for neg in ("", "^"):
            for fl in ("", "i"):
                try:
                    rx = RegExp("^[" + neg + body + "]$", fl)
                except Exception as e:  # noqa
                    bad = bad or (f"/[{neg}{body}]/{fl}", f"{type(e).__name__}: {str(e)[:60]}")
                    continue
                for ch in alphabet:
                    n += 1
                    if fl == "i":
                        # Canonicalize: ASCII letters fold; the two non-ASCII letters of the alphabet have no ASCII partner
                        forms = {ch, ch.upper(), ch.lower()} if ch.isascii() else {ch}
                        inside = any(any(members[m](f) for f in forms if len(f) == 1) for m in combo)
                    else:
                        inside = any(members[m](ch) for m in combo)
                    want = inside != (neg == "^")
                    if rx.test(ch) != want and bad is None:
                        bad = (f"/^[{neg}{body}]$/{fl}.test({ch!r})", f"engine {not want}, set union says {want}")
    out = [ob("C09.classes.union", bad is None, "K4", f"{n} (class, character) cases" if bad is None else f"{bad[0]}: {bad[1]}", witness=(bad[0] if bad else None), confirmed=True if bad else None, domain=n)]
    # \\xHH and \\uHHHH denote exactly that code unit, inside a class and outside (exhaustive)
    bad = None
    n = 0
    for lit, rng_ in ((lambda c: f"\\x{c:02x}", range(256)), (lambda c: f"\\u{c:04X}", range(0, 0x10000, 1 if tier == "thorough" else 7))):
        for c in rng_:
            if 0xD800 <= c <= 0xDFFF:
                continue
            for pat in ("^" + lit(c) + "$", "^[" + lit(c) + "]$", "^[^" + lit(c) + "]$"):
                n += 1
                try:
                    rx = RegExp(pat, "s")
                    got = (rx.test(chr(c)), rx.test(chr(c ^ 1)), rx.test("x" if c != 0x78 else "y"))
                except Exception as e:  # noqa
                    got = f"{type(e).__name__}: {str(e)[:50]}"
                want = (False, True, True) if pat.startswith("^[^") else (True, False, False)
                if got != want and bad is None:
                    bad = (f"/{pat}/s on U+{c:04X}, U+{c ^ 1:04X}, x", f"engine {got}, expected {want}")
    out.append(ob("C09.classes.hex-and-unicode-escapes", bad is None, "K4", f"{n} (escape, position) cases" if bad is None else f"{bad[0]}: {bad[1]}",
                  witness=(bad[0] if bad else None), confirmed=True if bad else None, domain=n))
    # shorthand escapes inside a class agree with the bare escape over all BMP code points
    import multiprocessing as mp
    jobs = [(esc, form, 0x10000) for esc in ("\\d", "\\D", "\\w", "\\W", "\\s", "\\S") for form in ("class", "negated-class")]
    with mp.get_context("fork").Pool(12) as pool:
        res = pool.map(_charset_sweep, jobs)
    bad = None
    n = 0
    for esc, form, k, b in res:
        n += k
        if b is not None and bad is None:
            bad = (f"/^[{'^' if form == 'negated-class' else ''}{esc}]$/.test(String.fromCharCode({b[0]}))", f"engine {b[1]}")
    out.append(ob("C09.classes.shorthands-in-classes", bad is None, "K4", f"{n} (class, code point) cases" if bad is None else f"{bad[0]}: {bad[1]}",
                  witness=(bad[0] if bad else None), confirmed=True if bad else None, domain=n))
    return out


# ---- fixed probes (known deviations are listed in /verif/known_findings.json and reported as KNOWN-FINDING) ------------------
PROBES_C09 = [('lookbehind-matches-backwards', "/(?<=(\\d+)(\\d+))$/.exec('1053').join()", ',1,053')]
groups.register_probes("C09", PROBES_C09)


PROBES_C09 += [
    ("forward-backreference", "/\\1(a)/.exec('a').join('|')", "a|a"),
    ("backreference-to-later-alternative", "/(a)|\\2(b)/.exec('b').length", 3),
    ("non-space-in-class", "[/[\\S]/.test('\u00e9'), /[^\\S]/.test('\u00e9'), /[\\S]/.test('\ufeff')].join()", "true,false,false"),
    ("hex-escape-in-class", "[/[\\x41]/.test('A'), /[\\x41]/.test('1'), /[\\u0061-c]/.test('b'), /[\\u0061-c]/.test('u'), /^[\\cJ]$/.test('\\n')].join()", "true,false,true,false,true"),
    ("incomplete-escapes-in-class-are-letters", "[/[\\x]/.test('x'), /[\\x4]/.test('x'), /[\\x4]/.test('4'), /[\\xg1]/.test('g'), /[\\u]/.test('u'), /[\\u004]/.test('0'), /[\\u{41}]/.test('A'), /[\\u{41}]/.test('{'),"
     " /[\\u{41}]/.test('u'), /[\\u{41}]/u.test('A'), /[\\x41]/.test('A'), /[\\u0041]/.test('A')].join()", "true,true,true,true,true,true,false,true,true,true,true,true"),
    ("only-ascii-digits-count", "[new RegExp('^a{\u0663}$').test('a{\u0663}'), new RegExp('^a{\u0663}$').test('aaa'), new RegExp('^a{\u00b2}$').test('a{\u00b2}'), new RegExp('^a{1,\u0662}$').test('aa'),"
                                " new RegExp('^(a)\\\\1$').test('aa')].join()", "true,false,true,false,true"),
    ("kelvin-sign-ignore-case", "[/[a-z]/i.test('\u212a'), /k/i.test('\u212a'), /I/i.test('\u0131'), /s/i.test('\u017f'), /a/i.test('\u0130')].join()", "false,false,false,false,false"),
]
