"""C08 - objects, prototypes, functions and `this`.

K1 (deductive, all object graphs): the own-property primitives of JSObject and the chain walkers of the VM
against the abstract view
    own(o, k)  in  { absent, data(v), accessor(g, s) }          (from the three dictionaries of o)
    holder(o, k) = first object on o's prototype chain with own(., k) != absent     (recursive ghost function)
Loops over the prototype chain are proved with loop invariants (pyvc loop rule) for chains of any length.
Mutators carry whole-view frame conditions (every other key and every other object unchanged).
B (bounded): generated histories against the reference object model (specs/es_object.py) and the
call-form x function-kind matrix (specs/es_calls.py), through Context.eval."""
from pyvc import structural as _S_
import random, re, json, os
from pyvc import groups
from pyvc.groups import ob
from pyvc.api import *
from microjs.values import UNDEFINED, NULL, JSObject, JSArray, JSTypedArray, JSFunction

# ------------------------------------------------------------------------------------------
# ghost view (spec functions; independent of the methods under contract: they read the dictionaries only)
# ------------------------------------------------------------------------------------------
def spec_has_own(o, k):
    """own(o, k) != absent.  Arrays add their element indices and `length` (ES 10.4.2)."""
    if isinstance(o, JSArray):
        return spec_array_own(o, k) or k in o._properties or k in o._getters or k in o._setters
    return k in o._properties or k in o._getters or k in o._setters


@abstract("array_own")
def spec_array_own(o, k):
    """k is `length` or the canonical decimal string of an index below the length (uninterpreted in the
    chain proofs: only its being a function of (elements, k) matters there; pinned by its own contract)"""
    return k == "length" or (k.isdigit() and k.isascii() and (k == "0" or k[0] != "0") and int(k) < len(o._elements))


def spec_is_accessor(o, k):
    return k in o._getters or k in o._setters


@recursive
def spec_holder(o, k) -> "JSObject?":
    """first object on the chain that has k as own property; None when there is none"""
    if not isinstance(o, JSObject):
        return None
    if spec_has_own(o, k):
        return o
    return spec_holder(o._prototype, k)


def plain(o):
    """ordinary objects: the exotic subclasses answer own-property questions from their element storage"""
    return not isinstance(o, (JSArray, JSTypedArray))


# ---- JSObject.has_own / is_accessor / get_own ---------------------------------------------------------------------
def c_has_own(self: Obj("JSObject"), key: Str):
    r = outcome(REAL, self, key)
    check("never-raises", r[0] == "ret")
    check("post", r[1] == spec_has_own(self, key))


def c_is_accessor(self: Obj("JSObject"), key: Str):
    r = outcome(REAL, self, key)
    check("never-raises", r[0] == "ret")
    check("post", r[1] == spec_is_accessor(self, key))


def c_get_own(self: Obj("JSObject"), key: Str):
    r = outcome(REAL, self, key)
    check("never-raises", r[0] == "ret")
    if key in self._properties:
        check("post.present", same_value(r[1], self._properties[key]))
    else:
        check("post.absent", same_ref(r[1], UNDEFINED))


def c_holder(self: Obj("JSObject"), key: Str):
    """holder() returns the first owner on the prototype chain, for chains of any length"""
    r = outcome(REAL, self, key)
    check("never-raises", r[0] == "ret")
    check("post.first-owner", same_ref(r[1], spec_holder(self, key)))
    h = r[1]
    if h is not None:
        check("post.owner-has-key", spec_has_own(h, key))


def inv_holder(self, key, obj):
    return same_ref(spec_holder(obj, key), spec_holder(self, key))


def _native_method(cls, name):
    def make():
        import microjs.values as V
        return getattr(getattr(V, cls), name)
    return make


register(c_has_own, id="C08.JSObject.has_own", prop="C08", target=method("microjs.values", "JSObject.has_own"),
         native=_native_method("JSObject", "has_own"))
register(c_is_accessor, id="C08.JSObject.is_accessor", prop="C08", target=method("microjs.values", "JSObject.is_accessor"),
         native=_native_method("JSObject", "is_accessor"))
register(c_get_own, id="C08.JSObject.get_own", prop="C08", target=method("microjs.values", "JSObject.get_own"),
         native=_native_method("JSObject", "get_own"))
register(c_holder, id="C08.JSObject.holder", prop="C08", target=method("microjs.values", "JSObject.holder"),
         native=_native_method("JSObject", "holder"), heap_inputs=True, invariants={("microjs.values:JSObject.holder", 0): inv_holder},
         summaries={"microjs.values:JSObject.has_own": spec_has_own, "microjs.values:JSArray.has_own": spec_has_own})


# ---- VM._get_property on ordinary objects ---------------------------------------------------------------------------
@abstract("array_get_own")
def spec_array_get_own(o, k):
    if k == "length":
        return len(o._elements)
    return o._elements[int(k)]


def spec_get_own(o, k):
    """value of own data property k of o (arrays: element / length)"""
    if isinstance(o, JSArray) and spec_array_own(o, k):
        return spec_array_get_own(o, k)
    if k in o._properties:
        return o._properties[k]
    return UNDEFINED


@effectful
def spec_invoke_getter(vm, getter, this_val):
    """callee contract of VM._invoke_getter used here: it is called with (getter, receiver); its result is arbitrary"""
    ghost_set("getter.fn", getter)
    ghost_set("getter.this", this_val)
    ghost_set("getter.calls", ghost_get("getter.calls", 0) + 1)
    r = fresh(JSVal)
    ghost_set("getter.result", r)
    return r


def spec_make_object_method(vm, obj, name):
    return fresh(JSVal)


def c_get_property_object(vm: Obj("VM"), obj: Obj("JSObject"), key: Str):
    """reads find the own property first, then walk the chain; accessors (own or inherited) run with the
    receiver as this; the read itself writes nothing"""
    h = spec_holder(obj, key)
    snap = heap_snapshot()
    r = outcome(REAL, vm, obj, key)
    check("never-raises", r[0] == "ret")
    check("read-writes-nothing", heap_unchanged(snap))
    if h is None:
        if key != "toString" and key != "hasOwnProperty":
            check("absent-reads-undefined", same_ref(r[1], UNDEFINED))
        check("absent-runs-no-getter", ghost_get("getter.calls", 0) == 0)
    elif spec_is_accessor(h, key):
        g = h._getters.get(key)
        if g is not None:
            check("accessor.getter-runs-once", ghost_get("getter.calls", 0) == 1)
            check("accessor.getter-is-the-holders", same_ref(ghost_get("getter.fn", None), g))
            check("accessor.this-is-the-receiver", same_ref(ghost_get("getter.this", None), obj))
            check("accessor.result-is-returned", ghost_get("getter.calls", 0) == 1 and same_value(r[1], ghost_get("getter.result", None)))
        else:
            check("accessor.no-getter-reads-undefined", same_ref(r[1], UNDEFINED))
            check("accessor.no-getter-runs-nothing", ghost_get("getter.calls", 0) == 0)
    else:
        check("data.value-of-first-owner", same_value(r[1], spec_get_own(h, key)))
        check("data.runs-no-getter", ghost_get("getter.calls", 0) == 0)


def _vm_method(name):
    """the real method, with recording wrappers around the accessor invocations (native ghost state)"""
    def make():
        from microjs.vm import VM
        import pyvc.api as A
        real = getattr(VM, name)

        def run(vm, *args):
            og, os_ = VM._invoke_getter, VM._invoke_setter

            def rec_get(self, getter, this_val):
                A.GHOST.update({"getter.fn": getter, "getter.this": this_val, "getter.calls": A.GHOST.get("getter.calls", 0) + 1})
                r = og(self, getter, this_val)
                A.GHOST["getter.result"] = r
                return r

            def rec_set(self, setter, this_val, value):
                A.GHOST.update({"setter.fn": setter, "setter.this": this_val, "setter.value": value,
                                "setter.calls": A.GHOST.get("setter.calls", 0) + 1})
                return os_(self, setter, this_val, value)
            VM._invoke_getter, VM._invoke_setter = rec_get, rec_set
            try:
                return real(vm, *args)
            finally:
                VM._invoke_getter, VM._invoke_setter = og, os_
        return run
    return make


OWN_SUMMARIES = {"microjs.values:JSObject.has_own": spec_has_own, "microjs.values:JSArray.has_own": spec_has_own,
                 "microjs.values:JSObject.holder": spec_holder, "microjs.values:JSObject.is_accessor": spec_is_accessor,
                 "microjs.values:JSObject.get_own": spec_get_own, "microjs.values:JSArray.get_own": spec_get_own}

register(c_get_property_object, id="C08.VM._get_property.object", prop="C08", target=method("microjs.vm", "VM._get_property"),
         native=_vm_method("_get_property"), heap_inputs=True,
         summaries=dict(OWN_SUMMARIES, **{"microjs.vm:VM._invoke_getter": spec_invoke_getter,
                                          "microjs.vm:VM._make_object_method": spec_make_object_method}))


# ---- mutators of JSObject: whole-view postconditions ----------------------------------------------------------------
def c_set(self: Obj("JSObject"), key: Str, value: JSVal):
    """set(k, v): own data property k is v; every other key and every other object unchanged"""
    snap = heap_snapshot()
    props = self._properties
    order = self._key_order
    r = outcome(REAL, self, key, value)
    check("never-raises", r[0] == "ret")
    check("post.key-maps-to-value", dict_after_store(snap, props, key, value))
    if order is None:
        check("frame.nothing-else", heap_unchanged(snap, (props, "dict")))
    else:
        check("post.key-order-extended", dict_after_store(snap, order, key, None))
        check("frame.nothing-else", heap_unchanged(snap, (props, "dict"), (order, "dict")))


def c_delete(self: Obj("JSObject"), key: Str):
    """delete(k): k is no own property any more (data and both accessor halves); other keys, other objects unchanged;
    reports success also for an absent key"""
    assume(self._hidden is None)
    snap = heap_snapshot()
    props, getters, setters, order = self._properties, self._getters, self._setters, self._key_order
    r = outcome(REAL, self, key)
    check("returns-true", r[0] == "ret" and r[1] is True)
    check("post.no-own-property", not spec_has_own(self, key))
    check("post.other-data-keys", dict_after_remove(snap, props, key))
    check("post.other-getters", dict_after_remove(snap, getters, key))
    check("post.other-setters", dict_after_remove(snap, setters, key))
    if order is not None:
        # the creation-order index forgets the key too: a property created again later is the YOUNGEST one
        check("post.key-order-forgets-the-key", dict_after_remove(snap, order, key))
    check("frame.nothing-else", heap_unchanged(snap, (props, "dict"), (getters, "dict"), (setters, "dict"), (order, "dict")))


def c_define_getter(self: Obj("JSObject"), key: Str, fn: JSVal):
    """define_getter(k, g): k becomes an accessor with getter g (a data property k is dropped, the setter half kept)"""
    assume(self._key_order is not None)
    snap = heap_snapshot()
    props, getters, setters, order = self._properties, self._getters, self._setters, self._key_order
    had_setter = key in setters
    r = outcome(REAL, self, key, fn)
    check("never-raises", r[0] == "ret")
    check("post.getter-stored", dict_after_store(snap, getters, key, fn))
    check("post.data-property-dropped", dict_after_remove(snap, props, key))
    check("post.setter-half-kept", (key in setters) == had_setter)
    check("post.is-accessor", spec_is_accessor(self, key) and not (key in props))
    check("frame.nothing-else", heap_unchanged(snap, (props, "dict"), (getters, "dict"), (order, "dict")))


def c_define_value(self: Obj("JSObject"), key: Str, value: JSVal):
    """define_value(k, v): k becomes a data property (both accessor halves dropped once the object tracks accessors)"""
    snap = heap_snapshot()
    props, getters, setters, order = self._properties, self._getters, self._setters, self._key_order
    r = outcome(REAL, self, key, value)
    check("never-raises", r[0] == "ret")
    check("post.key-maps-to-value", dict_after_store(snap, props, key, value))
    if order is not None:
        check("post.not-an-accessor", not spec_is_accessor(self, key))
        check("post.other-getters", dict_after_remove(snap, getters, key))
        check("post.other-setters", dict_after_remove(snap, setters, key))
        check("frame.nothing-else", heap_unchanged(snap, (props, "dict"), (getters, "dict"), (setters, "dict"), (order, "dict")))
    else:
        check("frame.nothing-else", heap_unchanged(snap, (props, "dict")))


for _name, _fn in (("set", c_set), ("delete", c_delete), ("define_getter", c_define_getter), ("define_value", c_define_value)):
    register(_fn, id=f"C08.JSObject.{_name}", prop="C08", target=method("microjs.values", f"JSObject.{_name}"),
             native=_native_method("JSObject", _name), heap_inputs=True,
             field_types={"JSObject._key_order": "dict?"})


# ---- VM._set_property / _delete_property on ordinary objects --------------------------------------------------------
@effectful
def spec_invoke_setter(vm, setter, this_val, value):
    ghost_set("setter.fn", setter)
    ghost_set("setter.this", this_val)
    ghost_set("setter.value", value)
    ghost_set("setter.calls", ghost_get("setter.calls", 0) + 1)
    return None


def c_set_property_object(vm: Obj("VM"), obj: Obj("JSObject"), key: Str, value: JSVal):
    """writes affect only the receiver; an accessor found before any data property (own or inherited) takes the
    assignment and runs with the receiver as this; without a setter the assignment changes nothing"""
    h = spec_holder(obj, key)
    snap = heap_snapshot()
    props, order = obj._properties, obj._key_order
    r = outcome(REAL, vm, obj, key, value)
    check("never-raises", r[0] == "ret")
    if h is not None and spec_is_accessor(h, key):
        check("accessor.assignment-writes-nothing", heap_unchanged(snap))
        s = h._setters.get(key)
        if s is not None:
            check("accessor.setter-runs-once", ghost_get("setter.calls", 0) == 1)
            check("accessor.setter-is-the-holders", same_ref(ghost_get("setter.fn", None), s))
            check("accessor.this-is-the-receiver", same_ref(ghost_get("setter.this", None), obj))
            check("accessor.value-is-passed", ghost_get("setter.calls", 0) == 1 and same_value(ghost_get("setter.value", None), value))
        else:
            check("accessor.no-setter-runs-nothing", ghost_get("setter.calls", 0) == 0)
    else:
        check("data.runs-no-setter", ghost_get("setter.calls", 0) == 0)
        check("data.receiver-owns-key", dict_after_store(snap, props, key, value))
        if order is None:
            check("data.only-the-receiver-changes", heap_unchanged(snap, (props, "dict")))
        else:
            check("data.only-the-receiver-changes", heap_unchanged(snap, (props, "dict"), (order, "dict")))


register(c_set_property_object, id="C08.VM._set_property.object", prop="C08", target=method("microjs.vm", "VM._set_property"),
         native=_vm_method("_set_property"), heap_inputs=True, field_types={"JSObject._key_order": "dict?"},
         summaries=dict(OWN_SUMMARIES, **{"microjs.vm:VM._invoke_setter": spec_invoke_setter}))


def c_delete_property_object(vm: Obj("VM"), obj: Obj("JSObject"), key: Str):
    """deletes affect only the receiver (inherited properties stay)"""
    assume(obj._hidden is None)
    snap = heap_snapshot()
    props, getters, setters, order = obj._properties, obj._getters, obj._setters, obj._key_order
    r = outcome(REAL, vm, obj, key)
    check("returns-true", r[0] == "ret" and r[1] is True)
    check("post.no-own-property", not spec_has_own(obj, key))
    check("frame.only-the-receiver-changes",
          heap_unchanged(snap, (props, "dict"), (getters, "dict"), (setters, "dict"), (order, "dict")))
    check("post.other-data-keys", dict_after_remove(snap, props, key))


register(c_delete_property_object, id="C08.VM._delete_property.object", prop="C08",
         target=method("microjs.vm", "VM._delete_property"), native=_vm_method("_delete_property"), heap_inputs=True,
         field_types={"JSObject._key_order": "dict?"})


# ---- `in` and `instanceof` --------------------------------------------------------------------------------------------
from microjs.opcodes import OpCode  # noqa: E402


def _opnative():
    """VM._execute_opcode with a recording wrapper around JSObject.holder (native ghost state)"""
    from microjs.vm import VM
    import microjs.values as V
    import pyvc.api as A

    def run(vm, *args):
        orig = V.JSObject.holder

        def rec(self, key):
            r = orig(self, key)
            A.GHOST.update({"holder.obj": self, "holder.key": key, "holder.result": r, "holder.calls": A.GHOST.get("holder.calls", 0) + 1})
            return r
        V.JSObject.holder = rec
        try:
            return VM._execute_opcode(vm, *args)
        finally:
            V.JSObject.holder = orig
    return run


@effectful
def spec_holder_recorded(o, k):
    """callee contract of JSObject.holder (proved above) with its arguments and result recorded"""
    r = spec_holder(o, k)
    ghost_set("holder.obj", o)
    ghost_set("holder.key", k)
    ghost_set("holder.result", r)
    ghost_set("holder.calls", ghost_get("holder.calls", 0) + 1)
    return r


def c_in(vm: Obj("VM"), frame: Obj("CallFrame"), base: ValList, key: Str, obj: Obj("JSObject")):
    """key in obj  <=>  some object on obj's prototype chain has key as own property (data or accessor):
    the result is `holder(obj, key) is not None` on a heap that differs from the entry heap in the operand stack only"""
    vm.stack = base + [key, obj]
    stack = vm.stack
    n = len(base)
    snap = heap_snapshot()
    o = outcome(REAL, vm, OpCode.IN, None, frame)
    check("completes", o[0] == "ret")
    check("depth", len(vm.stack) == n + 1)
    check("only-the-operand-stack-changes", heap_unchanged(snap, (stack, "list.items")))
    check("asks-HasProperty-of-the-operands", ghost_get("holder.calls", 0) == 1 and same_ref(ghost_get("holder.obj", None), obj)
          and ghost_get("holder.key", None) == key)
    if len(vm.stack) == n + 1:
        check("operands-below-untouched", vm.stack[:n] == base)
        check("value-is-HasProperty", ghost_get("holder.calls", 0) == 1 and vm.stack[n] is (ghost_get("holder.result", None) is not None))


register(c_in, id="C08.op.IN", prop="C08", target=opcode("IN"), native=_opnative, heap_inputs=True,
         summaries=dict(OWN_SUMMARIES, **{"microjs.values:JSObject.holder": spec_holder_recorded}))


@recursive
def spec_chain_has(c, proto) -> "bool":
    """proto occurs on the chain c, c.[[Prototype]], ..."""
    if c is None:
        return False
    if c is proto:
        return True
    return spec_chain_has(getattr(c, "_prototype", None), proto)


def inv_instanceof(obj, proto, current, result):
    return (result is False) and spec_chain_has(current, proto) == spec_chain_has(getattr(obj, "_prototype", None), proto)


def c_instanceof(vm: Obj("VM"), frame: Obj("CallFrame"), base: ValList, obj: Obj("JSObject"), ctor: Obj("JSFunction"), proto: Obj("JSObject")):
    """o instanceof F  <=>  F.prototype (the current value) occurs on o's prototype chain, for chains of any length"""
    assume(not hasattr(ctor, "_original_func"))
    ctor._prototype = proto
    vm.stack = base + [obj, ctor]
    n = len(base)
    expected = spec_chain_has(obj._prototype, proto)
    o = outcome(REAL, vm, OpCode.INSTANCEOF, None, frame)
    check("completes", o[0] == "ret")
    check("depth", len(vm.stack) == n + 1)
    if len(vm.stack) == n + 1:
        check("operands-below-untouched", vm.stack[:n] == base)
        check("value-follows-the-chain", vm.stack[n] is expected)


register(c_instanceof, id="C08.op.INSTANCEOF", prop="C08", target=opcode("INSTANCEOF"), native=_opnative, heap_inputs=True,
         invariants={("microjs.vm:VM._execute_opcode[INSTANCEOF]", "current is not None"): inv_instanceof})


# =======================================================================================================================
# B: bounded stand-ins through Context.eval (never counted as proved)
# =======================================================================================================================
import multiprocessing as mp
import specs.es_object as EO
import specs.es_calls as EC

FEATURE_SETS = {
    "all": None,
    "data": ["lit", "newobj", "set", "del", "defdata", "create"],
    "accessors": ["lit", "create", "set", "del", "defacc", "defdata", "setproto"],
    "prototypes": ["lit", "create", "newobj", "set", "del", "setproto", "regproto", "fprotoset"],
    "constructors": ["new", "newbound", "fproto", "fprotoset", "fprotochain", "ret", "regproto", "regfn", "set", "lit"],
    "functions": ["regfn", "set", "del", "new", "fproto", "lit", "create"],
    "arrays": ["arr", "lit", "create", "setproto", "set"],
}


def _index_like(k):
    return k.isdigit() and (k == "0" or k[0] != "0")


def normalize_key_order(line):
    """known finding `integer-key-order`: own keys are enumerated in creation order, ES puts canonical array
    indices first in ascending order.  Compare the enumeration fields as multisets for objects that own such a key."""
    def fix(block):
        m = re.search(r"K=([^;]*);", block)
        if not m or not any(_index_like(k) for k in m.group(1).split("/") if k):
            return block
        def srt(mm):
            name, body = mm.group(1), mm.group(2)
            parts = [x for x in body.split("/") if x != ""]
            tail = "/" if name == "F" and parts else ""
            return f"{name}=" + "/".join(sorted(parts)) + tail + ";"
        return re.sub(r"\b([KFVE])=([^;]*);", srt, block)
    return re.sub(r"#\d+\{[^}]*\}", lambda mm: fix(mm.group(0)), line)


def _run_history(args):
    seed, feats, nmax = args
    from microjs import Context
    rng = random.Random(seed)
    h = EO.gen_history(rng, n_ops=rng.randrange(2, nmax), features=feats)
    exp = h.expected()
    import signal

    def boom(*a):
        raise TimeoutError("no answer within 40 s (time_limit=20): a native loop over the object graph does not end")
    signal.signal(signal.SIGPROF, boom)      # CPU-time watchdog (independent of the load of the machine)
    signal.setitimer(signal.ITIMER_PROF, 40)
    try:
        out = str(Context(time_limit=20).eval(h.js()))
    except BaseException as e:  # noqa
        out = "CRASH " + type(e).__name__ + ": " + str(e)[:200]
    finally:
        signal.setitimer(signal.ITIMER_PROF, 0)
    lines = out.split("\n")
    known = False
    for i, want in enumerate(exp):
        got = lines[i] if i < len(lines) else "<missing>"
        if got in want:
            continue
        if normalize_key_order(got) in {normalize_key_order(w) for w in want}:
            known = True
            continue
        # unlisted mismatch: shortest failing prefix of the history
        nops = sum(1 for _ in h.ops)
        upto = min(nops, i // 2 + 1)
        return seed, "bad", {"line": i, "got": got[:1500], "expected": sorted(want)[0][:1500], "ops": repr(h.ops[:upto])[:2000],
                             "program": h.js(upto=upto)}
    if len(lines) != len(exp):
        return seed, "bad", {"line": len(exp), "got": "<%d extra lines>" % (len(lines) - len(exp)), "expected": "", "ops": repr(h.ops)[:2000], "program": h.js()}
    return seed, ("known" if known else "ok"), None


def _histories(tier="quick", seed=0):
    n = 60 if tier == "quick" else 1500
    out = []
    jobs = []
    for fi, (name, feats) in enumerate(FEATURE_SETS.items()):
        for k in range(n * (3 if name == "all" else 1)):
            jobs.append((name, (seed * 1000003 + fi * 100003 + k, feats, 9 if tier == "quick" else 12)))
    with mp.get_context("fork").Pool(min(16, os.cpu_count() or 4)) as pool:
        rs = pool.map(_run_history, [j[1] for j in jobs], chunksize=8)
    by = {}
    known_hits = []
    for (name, _), (sd, st, info) in zip(jobs, rs):
        e = by.setdefault(name, {"n": 0, "bad": None})
        e["n"] += 1
        if st == "bad" and e["bad"] is None:
            e["bad"] = (sd, info)
        if st == "known":
            known_hits.append(sd)
    for name, e in by.items():
        b = e["bad"]
        out.append(ob(f"C08.bounded.histories.{name}", b is None, "B",
                      f"{e['n']} generated histories agree with the reference object model after every step" if b is None else
                      f"seed {b[0]}: step line {b[1]['line']}: engine {b[1]['got'][:300]} expected {b[1]['expected'][:300]}",
                      witness=(b[1]["program"] if b else None), confirmed=True if b else None, domain=e["n"]))
    out.append(ob("C08.bounded.histories.integer-key-order", not known_hits, "B",
                  "no history enumerated an integer-like key" if not known_hits else
                  f"{len(known_hits)} histories differ from ES only in the position of integer-like keys in keys/values/entries/for-in (first seed {known_hits[0]})",
                  witness=("var o = {b: 1}; o[1] = 2; Object.keys(o).join()  // engine 'b,1', ES '1,b'" if known_hits else None),
                  confirmed=True if known_hits else None, key="C08.history.integer-key-order"))
    return out


groups.group(id="C08.bounded.histories", prop="C08", kind="B", functions=["microjs.context:Context.eval"])(_histories)


def _same(got, exp):
    if isinstance(exp, set):
        return any(_same(got, e) for e in exp)
    if isinstance(exp, bool) or isinstance(got, bool):
        return got is exp
    if isinstance(exp, (int, float)):
        return isinstance(got, (int, float)) and got == exp
    return got == exp


def _calls(tier="quick", seed=0):
    from microjs import Context
    by = {}
    for cid, src, exp in EC.cases():
        grp = cid.split(".")[0]
        try:
            got = Context(time_limit=10).eval(src)
        except BaseException as e:  # noqa
            got = f"!{type(e).__name__}: {e}"[:200]
        e = by.setdefault(grp, {"n": 0, "bad": None})
        e["n"] += 1
        if not _same(got, exp) and e["bad"] is None:
            e["bad"] = (cid, src, got, exp)
    out = []
    for grp, e in by.items():
        b = e["bad"]
        out.append(ob(f"C08.bounded.calls.{grp}", b is None, "B",
                      f"{e['n']} call-form cases agree with ES" if b is None else f"{b[0]}: engine {b[2]!r} expected {b[3]!r}",
                      witness=(b[1] if b else None), confirmed=True if b else None, domain=e["n"]))
    return out


groups.group(id="C08.bounded.calls", prop="C08", kind="B", functions=["microjs.context:Context.eval"])(_calls)


# ---- fixed probes of the object model (each carries its ES answer; deviations are known findings or violations) ------
PROBES = [
    ("null-proto-has-no-toString", "typeof Object.create(null).toString", "undefined"),
    ("getPrototypeOf-function", "function F() {} Object.getPrototypeOf(F) === Function.prototype", True),
    ("function-as-prototype", "function F() {} F.k = 3; var o = Object.create(F); o.k", 3),
    ("defineProperty-on-function", "function F() {} Object.defineProperty(F, 'k', {value: 1, writable: true, enumerable: true, configurable: true}); F.k", 1),
    ("array-prototype-exists", "typeof Array.prototype", "object"),
    ("array-inherits", "var a = []; Object.getPrototypeOf(a) === Array.prototype", True),
    ("in-array-index", "var a = [1, 2]; (0 in a) + '|' + (2 in a) + '|' + ('length' in a)", "true|false|true"),
    ("keys-of-array", "Object.keys([4, 5]).join()", "0,1"),
    ("keys-of-string", "Object.keys('ab').join()", "0,1"),
    ("entries-order", "var e = Object.entries({a: 1, b: 2}); e[0][0] + e[0][1] + e[1][0] + e[1][1]", "a1b2"),
    ("inherited-getter-vs-own-data", "var p = {get x() { return 1; }}; var o = Object.create(p); Object.defineProperty(o, 'x', {value: 5, writable: true, enumerable: true, configurable: true}); o.x", 5),
    ("inherited-setter-no-own", "var p = {set x(v) { this.y = v; }}; var o = Object.create(p); o.x = 3; o.y + '|' + Object.keys(o).join()", "3|y"),
    ("getter-only-assignment-ignored", "var o = {get x() { return 1; }}; try { o.x = 2; } catch (e) {} o.x", 1),
    ("delete-accessor", "var o = {get a() { return 1; }}; delete o.a; ('a' in o) + '|' + o.a", "false|undefined"),
    ("delete-inherited-noop", "var p = {a: 1}; var o = Object.create(p); (delete o.a) + '|' + o.a", "true|1"),
    ("literal-accessor-pair", "var o = {get a() { return this.b; }, set a(v) { this.b = v * 2; }}; o.a = 2; o.a", 4),
    ("literal-data-then-getter", "var o = {a: 1, get a() { return 2; }}; o.a + '|' + Object.keys(o).join()", "2|a"),
    ("literal-getter-then-data", "var o = {get a() { return 2; }, a: 1}; o.a", 1),
    ("computed-keys", "var k = 'x'; var o = {[k + 1]: 1, [2]: 2}; o.x1 + '|' + o['2']", "1|2"),
    ("numeric-key-canonical", "var o = {}; o[1.0] = 'a'; o['1'] + '|' + o[1]", "a|a"),
    ("setPrototypeOf-cycle", "var a = {}, b = Object.create(a); var r; try { Object.setPrototypeOf(a, b); r = 'no'; } catch (e) { r = e.name; } r", "TypeError"),
    ("create-with-descriptors", "var o = Object.create({z: 1}, {q: {value: 2, writable: true, enumerable: true, configurable: true}}); o.z + '|' + o.q + '|' + Object.keys(o).join()", "1|2|q"),
    ("getOwnPropertyDescriptor", "var o = {a: 1, get b() { return 2; }}; var d = Object.getOwnPropertyDescriptor(o, 'a'), e = Object.getOwnPropertyDescriptor(o, 'b'); d.value + '|' + (typeof e.get) + '|' + (Object.getOwnPropertyDescriptor(o, 'c') === undefined)", "1|function|true"),
    ("assign-runs-setters", "var log = ''; var t = {set a(v) { log += v; }}; Object.assign(t, {a: 1, b: 2}); log + '|' + t.b", "1|2"),
    ("values-run-getters", "Object.values({get a() { return 7; }, b: 1}).join()", "7,1"),
    ("hasOwnProperty-chain", "var p = {a: 1}; var o = Object.create(p); o.b = 2; o.hasOwnProperty('a') + '|' + o.hasOwnProperty('b') + '|' + ('a' in o)", "false|true|true"),
    ("isPrototypeOf", "var p = {}; var o = Object.create(p); p.isPrototypeOf(o) + '|' + o.isPrototypeOf(p)", "true|false"),
    ("function-own-property", "function F() {} F.x = 1; F.x + '|' + ('x' in F) + '|' + F.hasOwnProperty('x') + '|' + Object.keys(F).join()", "1|true|true|x"),
    ("function-prototype-own", "function F() {} ('prototype' in F) + '|' + F.hasOwnProperty('prototype') + '|' + (typeof F.prototype)", "true|true|object"),
    ("compound-member-assign", "var o = {x: 5}; o.x += 3; o['x'] *= 2; o.x", 16),
    ("new-member-callee", "var ns = {K: function (a) { this.a = a; }}; new ns.K(3).a", 3),
    ("integer-key-order", "var o = {b: 1}; o[1] = 2; Object.keys(o).join()", "1,b"),
    ('builtin-arrays-have-no-prototype', "[[1].slice() instanceof Array, JSON.parse('[1]') instanceof Array, Object.getPrototypeOf('a,b'.split(',')) === Array.prototype].join()", 'true,true,true'),
    ("results-of-built-ins-inherit-from-Object.prototype", "[JSON.parse('{}') instanceof Object, Object.getPrototypeOf(JSON.parse('{\"a\":{}}').a) === Object.prototype, Object.getOwnPropertyDescriptor({a: 1}, 'a') instanceof Object,"
     " Object.getPrototypeOf(Object.prototype) === null, Object.getPrototypeOf(Object.assign(Object.create(null), {a: {}})) === null, Object.getPrototypeOf({__proto__: null}) === null,"
     " (function () { var n = {__proto__: null}; Object.entries({k: n}); JSON.stringify([n]); return Object.getPrototypeOf(n) === null && typeof n.toString })()].join()", "true,true,true,true,true,true,undefined"),
    ("anonymous-functions-are-named-after-their-variable", "var f = function () {}; var g = () => 1; var h; h = function () {}; var o = {m: function () {}, a: () => 1}; var n = function named() {};"
     " [f.name, g.name, h.name, o.m.name, o.a.name, n.name, (function () {}).name, typeof (function () { return typeof f2 })()].join()", "f,g,h,m,a,named,,string"),
    ("computed-key-plain-identifier", "var k = 'z', n = 5; var o = {[k]: 1, [n]: 2, k: 3}; Object.keys(o).join() + '|' + o.z + o[5] + o.k", "5,z,k|123".replace("5,z,k", "z,5,k")),
    ("array-likes-through-call", "[[].slice.call('abc').join('|'), [].slice.call({0: 'a', 1: 'b', length: 2}).join(), [].join.call({length: 2, 0: 'a', 1: 'b'}, '-'), Array.prototype.map.call('ab', function (c) { return c + c }).join(),"
     " [].every.call(new Uint8Array([1, 2]), function (x) { return x > 0 }), Array.prototype.indexOf.call('abc', 'b'), (function () { try { [].push.call({length: 0}, 1); return 'accepted' } catch (e) { return e.name } })(),"
     " (function () { try { [].slice.call({length: 1e12}); return 'accepted' } catch (e) { return e.name } })()].join(';')", "a|b|c;a,b;a-b;aa,bb;true;1;TypeError;RangeError"),
    ("bind-on-a-built-in-method-is-lazy", "var f = 'abc'.toUpperCase.bind(5); var r; try { f(); r = 'ran' } catch (e) { r = e.name } var g = 'x'.toUpperCase.bind('abc'); r + '|' + g() + '|' + [].slice.bind([1, 2, 3], 1)().join()", "TypeError|ABC|2,3"),
    ("array-like-length-and-concat", "[[].slice.call({length: '2', 0: 1, 1: 2}).join(), [].slice.call({0: 1}).length, [].slice.call(5).length, JSON.stringify(Array.prototype.concat.call('ab', 'c')), JSON.stringify([1].concat([2], 3))].join(';')", '1,2;0;0;["ab","c"];[1,2,3]'),
    ("delete-evaluates-its-operand", "var n = 0; function f() { n++; return 1 } var r = delete f(); var s = delete (n++, 5); [r, s, n, delete 0, delete nope].join()", "true,true,2,true,true"),
    ("booleans-have-no-number-methods", "[typeof true.toFixed, typeof false.toPrecision, true.toString(), false.valueOf(), typeof (5).toFixed, true.toString.call(false)].join()", "undefined,undefined,true,false,function,false"),
    ("delete-recreate-order", "var o = {b: 2, c: 3}; delete o.b; o.b = 4; Object.keys(o).join()", "c,b"),
    ("delete-recreate-order-accessor", "var o = {get a() { return 1; }, b: 2, c: 3}; delete o.b; o.b = 4; var ks = []; for (var k in o) ks.push(k); Object.keys(o).join() + '|' + ks.join() + '|' + JSON.stringify(Object.entries(o))",
     'a,c,b|a,c,b|[["a",1],["c",3],["b",4]]'),
    ("redefine-accessor-keeps-position", "var o = {a: 1, b: 2}; Object.defineProperty(o, 'a', {get: function () { return 9; }, enumerable: true, configurable: true}); Object.keys(o).join() + '|' + o.a", "a,b|9"),
    ("delete-accessor-recreate-data", "var o = {get a() { return 1; }, b: 2}; delete o.a; o.a = 5; Object.keys(o).join() + '|' + o.a", "b,a|5"),
]


def _probes(tier="quick", seed=0):
    from microjs import Context
    out = []
    for name, src, exp in PROBES:
        try:
            got = Context(time_limit=10).eval(src)
        except BaseException as e:  # noqa
            got = f"!{type(e).__name__}: {e}"[:200]
        ok = _same(got, exp)
        out.append(ob(f"C08.bounded.probe.{name}", ok, "B", f"{src}  =>  {got!r}" + ("" if ok else f"  (ES: {exp!r})"),
                      witness=None if ok else src, confirmed=None if ok else True, domain=1, key=f"C08.probe.{name}"))
    return out


groups.group(id="C08.bounded.probes", prop="C08", kind="B", functions=["microjs.context:Context.eval"])(_probes)


# ---- Object.setPrototypeOf: re-links exactly when no cycle would arise -------------------------------------------------
@recursive
def spec_on_object_chain(c, x) -> "bool":
    """x is c or one of its ancestors, following [[Prototype]] links of objects"""
    if not isinstance(c, JSObject):
        return False
    if c is x:
        return True
    return spec_on_object_chain(c._prototype, x)


def inv_set_prototype_of(obj, proto, ancestor):
    return spec_on_object_chain(ancestor, obj) == spec_on_object_chain(proto, obj)


def c_set_prototype_of(obj: Obj("JSObject"), proto: Obj("JSObject")):
    """setPrototypeOf(o, p) links o to p unless o is p or one of p's ancestors (then TypeError and no change);
    nothing else changes -- for chains of any length"""
    cyclic = spec_on_object_chain(proto, obj)
    snap = heap_snapshot()
    r = outcome(REAL, obj, proto)
    if cyclic:
        check("cycle.refused-with-TypeError", exc_in(r, ("JSTypeError",)))
        check("cycle.nothing-changes", heap_unchanged(snap))
    else:
        check("links.returns-the-object", r[0] == "ret" and same_ref(r[1], obj))
        check("links.prototype-is-the-argument", same_ref(obj._prototype, proto))
        check("links.no-longer-without-prototype", obj._null_prototype is False)
        check("links.nothing-else-changes", heap_unchanged(snap, (obj, "_prototype"), (obj, "_null_prototype")))


def _native_set_prototype_of():
    from microjs import Context
    ctx = Context()
    return ctx._globals["Object"].get("setPrototypeOf")


register(c_set_prototype_of, id="C08.Object.setPrototypeOf", prop="C08",
         target=closure("microjs.context", "Context._create_object_constructor", "set_prototype_of"),
         native=_native_set_prototype_of, heap_inputs=True,
         invariants={("microjs.context:Context._create_object_constructor.<set_prototype_of>", "isinstance(ancestor, JSObject)"): inv_set_prototype_of})


# ---- must-fail canaries (soundness guards of the machinery: a deliberately false contract has to be refuted with a
#      counter-model that replays on the real code, on every run) -------------------------------------------------------
def canary_has_own_ignores_accessors(self: Obj("JSObject"), key: Str):
    r = outcome(REAL, self, key)
    check("canary", r[0] == "ret" and r[1] == (key in self._properties))        # false: accessors are own properties too


def canary_set_prototype_never_refuses(obj: Obj("JSObject"), proto: Obj("JSObject")):
    r = outcome(REAL, obj, proto)
    check("canary", r[0] == "ret")        # false: a cycle is refused with TypeError


register(canary_has_own_ignores_accessors, id="C08.canary.has_own", prop="C08", target=method("microjs.values", "JSObject.has_own"),
         native=_native_method("JSObject", "has_own"), heap_inputs=True, canary=True)
register(canary_set_prototype_never_refuses, id="C08.canary.setPrototypeOf", prop="C08",
         target=closure("microjs.context", "Context._create_object_constructor", "set_prototype_of"),
         native=_native_set_prototype_of, heap_inputs=True, canary=True,
         invariants={("microjs.context:Context._create_object_constructor.<set_prototype_of>", "isinstance(ancestor, JSObject)"): inv_set_prototype_of})


# ---- call protocols: which `this` a call form hands to the callee -----------------------------------------------------
@effectful
def spec_invoke(vm, func, args, this_val, is_constructor=False, new_target=None):
    """callee contract of VM._invoke_js_function used here: records how it is entered"""
    ghost_set("invoke.func", func)
    ghost_set("invoke.this", this_val)
    ghost_set("invoke.args", args)
    ghost_set("invoke.ctor", is_constructor)
    ghost_set("invoke.new_target", new_target)
    ghost_set("invoke.calls", ghost_get("invoke.calls", 0) + 1)
    return None


def _vm_recording_invoke(name):
    def make():
        from microjs.vm import VM
        import pyvc.api as A
        real = getattr(VM, name)

        def run(vm, *args):
            orig = VM._invoke_js_function

            def rec(self, func, a, this_val, is_constructor=False, new_target=None):
                A.GHOST.update({"invoke.func": func, "invoke.this": this_val, "invoke.args": a, "invoke.ctor": is_constructor,
                                "invoke.new_target": new_target, "invoke.calls": A.GHOST.get("invoke.calls", 0) + 1})
                return None
            VM._invoke_js_function = rec
            try:
                return real(vm, *args)
            finally:
                VM._invoke_js_function = orig
        return run
    return make


def c_call_method(vm: Obj("VM"), method: Obj("JSFunction"), this_val: JSVal, args: ValList):
    """o.m(...) / o[k](...): the callee runs with the receiver as this and exactly the given arguments"""
    r = outcome(REAL, vm, method, this_val, args)
    check("never-raises", r[0] == "ret")
    check("enters-the-callee-once", ghost_get("invoke.calls", 0) == 1 and same_ref(ghost_get("invoke.func", None), method))
    check("this-is-the-receiver", ghost_get("invoke.calls", 0) == 1 and same_value(ghost_get("invoke.this", None), this_val))
    check("arguments-are-passed-on", ghost_get("invoke.calls", 0) == 1 and same_ref(ghost_get("invoke.args", None), args))
    check("not-a-construction", ghost_get("invoke.ctor", True) is False)


register(c_call_method, id="C08.VM._call_method", prop="C08", target=method("microjs.vm", "VM._call_method"),
         native=_vm_recording_invoke("_call_method"), summaries={"microjs.vm:VM._invoke_js_function": spec_invoke}, prim_args=False)


def c_call_function(vm: Obj("VM"), base: ValList, callee: Obj("JSFunction"), a0: JSVal, a1: JSVal):
    """f(...): a plain call runs the callee with this = undefined (strict-mode functions), arguments in source order"""
    n = NARGS
    vm.stack = base + [callee] + [a0, a1][:n]
    r = outcome(REAL, vm, n, None)
    check("never-raises", r[0] == "ret")
    check("enters-the-callee-once", ghost_get("invoke.calls", 0) == 1 and same_ref(ghost_get("invoke.func", None), callee))
    check("this-is-undefined", ghost_get("invoke.calls", 0) == 1 and same_ref(ghost_get("invoke.this", None), UNDEFINED))
    got = ghost_get("invoke.args", None)
    if ghost_get("invoke.calls", 0) == 1:
        check("arguments-in-order", len(got) == n and (n < 1 or same_value(got[0], a0)) and (n < 2 or same_value(got[1], a1)))
    check("operands-consumed", vm.stack == base)


for _n in (0, 1, 2):
    register(c_call_function, id=f"C08.VM._call_function.{_n}-args", prop="C08", target=method("microjs.vm", "VM._call_function"),
             native=_vm_recording_invoke("_call_function"), summaries={"microjs.vm:VM._invoke_js_function": spec_invoke}, bind={"NARGS": _n}, prim_args=False)


@recursive
def spec_bound_target(f) -> "JSFunction":
    """[[BoundTargetFunction]] followed to the end (measure: length of the bind chain)"""
    if hasattr(f, "_original_func"):
        return spec_bound_target(f._original_func)
    return f


def inv_new_target(constructor, target):
    return isinstance(target, JSFunction) and same_ref(spec_bound_target(target), spec_bound_target(constructor))


def c_new_object(vm: Obj("VM"), base: ValList, ctor: Obj("JSFunction"), a0: JSVal, objproto: Obj("JSObject"), objctor: Obj("JSCallableObject")):
    """new F(...): a fresh object linked to the CURRENT F.prototype of the (bound) target -- Object.prototype when that
    is not an object --, handed to the constructor as this and as new_target, with is_constructor set"""
    n = NARGS
    vm.globals = {"Object": objctor}
    objctor._prototype = objproto
    target = spec_bound_target(ctor)
    assume(isinstance(target, JSFunction))
    vm.stack = base + [ctor] + [a0][:n]
    snap = heap_snapshot()
    r = outcome(REAL, vm, n)
    if hasattr(target, "_lexical_this"):
        check("arrow-is-not-a-constructor", exc_in(r, ("JSTypeError",)))
    else:
        check("never-raises", r[0] == "ret")
        check("enters-the-constructor-once", ghost_get("invoke.calls", 0) == 1 and same_ref(ghost_get("invoke.func", None), ctor))
        this = ghost_get("invoke.this", None)
        check("this-is-a-new-object", isinstance(this, JSObject) and not same_ref(this, objproto))
        check("new_target-is-that-object", same_ref(ghost_get("invoke.new_target", None), this) and ghost_get("invoke.ctor", False) is True)
        if isinstance(this, JSObject):
            p = target._prototype if hasattr(target, "_prototype") else None
            if isinstance(p, JSObject):
                check("linked-to-the-current-prototype", same_ref(this._prototype, p))
            else:
                check("non-object-prototype-falls-back-to-Object.prototype", same_ref(this._prototype, objproto))
        check("operands-consumed", vm.stack == base)


for _n in (0, 1):
    register(c_new_object, id=f"C08.VM._new_object.{_n}-args", prop="C08", target=method("microjs.vm", "VM._new_object"),
             native=None, summaries={"microjs.vm:VM._invoke_js_function": spec_invoke}, bind={"NARGS": _n}, prim_args=False,
             field_types={"JSFunction._original_func": "JSFunction"},      # bind_fn stores the function it was created for
             invariants={("microjs.vm:VM._new_object", "hasattr(target, '_original_func')"): inv_new_target})


# ---- RETURN from a constructor call honours an object result -----------------------------------------------------------
@effectful
def spec_discard_frame_state(vm, frame):
    """callee contract used here (its own contract belongs to C02): truncates the operand stack to the frame's base"""
    vm.stack = vm.stack[:frame.bp]
    return None


def c_return(vm: Obj("VM"), frame: Obj("CallFrame"), outer: Obj("CallFrame"), base: ValList, result: JSVal, nt: Obj("JSObject"), is_ctor: Bool):
    """RETURN: a constructor call yields the returned value when it is an object or a function, otherwise the new object;
    an ordinary call yields the returned value; the frame is popped and the value lands on the caller's operands"""
    frame.is_constructor_call = is_ctor
    frame.new_target = nt
    frame.bp = len(base)
    vm.call_stack = [outer, frame]
    vm.stack = base + [result]
    o = outcome(REAL, vm, OP, None, frame)
    check("completes", o[0] == "ret")
    want_result = HAS_VALUE and ((not is_ctor) or isinstance(result, (JSObject, JSFunction)))
    check("frame-popped", len(vm.call_stack) == 1)
    check("one-value-for-the-caller", len(vm.stack) == len(base) + 1 and vm.stack[:len(base)] == base)
    if len(vm.stack) == len(base) + 1:
        v = vm.stack[len(base)]
        if want_result:
            check("value.is-the-returned-value", same_value(v, result))
        elif is_ctor:
            check("value.is-the-new-object", same_ref(v, nt))
        else:
            check("value.is-undefined", same_ref(v, UNDEFINED))


for _op, _hv in (("RETURN", True), ("RETURN_UNDEFINED", False)):
    register(c_return, id=f"C08.op.{_op}", prop="C08", target=opcode(_op), native=None, prim_args=False,
             summaries={"microjs.vm:VM._discard_frame_state": spec_discard_frame_state}, bind={"OP": OpCode[_op], "HAS_VALUE": _hv})


# ---- K3: facts the heap contracts rely on -------------------------------------------------------------------------------
@groups.group(id="C08.struct", prop="C08", kind="K3", functions=["microjs.values:JSObject", "microjs.vm:VM._execute_opcode[MAKE_CLOSURE]", "microjs.vm:VM._invoke_js_function"])
def c08_struct(tier="quick", seed=0):
    from pyvc import structural as S
    import ast
    out = []
    # A-SEP: the property dictionaries of an object are never shared: every assignment to these fields in the package
    # stores a fresh dictionary (a display, dict(), dict.fromkeys(...)) or None
    bad = []
    n = 0
    for mod, mi in S.source().modules.items():
        for a in ast.walk(mi.tree):
            tgt = None
            if isinstance(a, ast.Assign) and len(a.targets) == 1:
                tgt, val = a.targets[0], a.value
            elif isinstance(a, ast.AnnAssign) and a.value is not None:
                tgt, val = a.target, a.value
            if isinstance(tgt, ast.Attribute) and tgt.attr in ("_properties", "_getters", "_setters", "_key_order"):
                n += 1
                fresh = isinstance(val, ast.Dict) or (isinstance(val, ast.Constant) and val.value is None) or \
                    (isinstance(val, ast.Call) and _S_.unparse(val.func) in ("dict", "dict.fromkeys"))
                if not fresh:
                    bad.append(f"{mod}:{a.lineno} {_S_.unparse(a)[:60]}")
    out.append(ob("C08.struct.property-dictionaries-are-never-shared", not bad and n >= 4, "K3",
                  f"{n} assignments to _properties/_getters/_setters/_key_order, all of fresh dictionaries" if not bad else f"shared or foreign dictionary stored: {bad}"))
    # arrow functions: lexical this is captured where the closure is made and applied after bound-function resolution
    mk = _S_.unparse(S.fn("microjs.vm", "VM._execute_opcode"))
    inv = _S_.unparse(S.fn("microjs.vm", "VM._invoke_js_function"))
    ok = "js_func._lexical_this = frame.this_value" in mk and "is_arrow" in mk
    out.append(ob("C08.struct.arrow-captures-this-at-creation", ok, "K3", "MAKE_CLOSURE stores frame.this_value on closures of arrow functions"))
    i_bound, i_lex = inv.find("_original_func"), inv.find("this_val = func._lexical_this")
    out.append(ob("C08.struct.arrow-this-overrides-call-this", 0 <= i_bound < i_lex, "K3",
                  "_invoke_js_function replaces this by the captured one after resolving bound functions (so call/apply/bind cannot change it)"))
    comp = _S_.unparse(S.fn("microjs.compiler", "Compiler._compile_arrow_function"))
    out.append(ob("C08.struct.arrow-flag-set-by-compiler", "is_arrow=True" in comp, "K3", "_compile_arrow_function marks the compiled function as an arrow"))
    return out


@groups.group(id="C08.bounded.index-keys", prop="C08", kind="B", functions=["microjs.vm:VM._get_property", "microjs.vm:VM._execute_opcode[IN]", "microjs.values:JSArray.has_own", "microjs.values:_is_array_index"])
def c08_index_keys(tier="quick", seed=0):
    """reads, `in`, hasOwnProperty, Object.keys and delete agree on which keys of an array / string are elements: canonical
    index strings only (the grid of C17, here for the agreement C08 asks for)"""
    from contracts.C17_arrays import c17_index_keys
    out = []
    for o in c17_index_keys(tier, seed):
        o = dict(o)
        o["id"] = o["id"].replace("C17.", "C08.", 1)
        o["finding_key"] = o["id"]
        out.append(o)
    return out


# ---- bounded: built-in methods called with another receiver (call / apply / bind / detached then call) --------------------
NATIVE_METHODS = {
    # receiver kind -> (an object the method value is READ from, the receiver it is then CALLED on, [(method, args, what the call on the new receiver gives)])
    "array": ("[9, 9, 9]", "[3, 1, 2]", [("slice", "1", "1,2"), ("slice", "", "3,1,2"), ("join", "'-'", "3-1-2"), ("indexOf", "1", "1"), ("concat", "[7]", "3,1,2,7"), ("map", "function (x) { return x * 2 }", "6,2,4"),
                                        ("filter", "function (x) { return x > 1 }", "3,2"), ("reduce", "function (a, b) { return a + b }", "6"), ("includes", "2", "true"), ("toString", "", "3,1,2"),
                                        ("some", "function (x) { return x == 1 }", "true"), ("every", "function (x) { return x > 0 }", "true"), ("find", "function (x) { return x < 3 }", "1"), ("lastIndexOf", "2", "2")]),
    "array-mutating": ("[9, 9, 9]", "[3, 1, 2]", [("push", "5", "4|3,1,2,5"), ("pop", "", "2|3,1"), ("shift", "", "3|1,2"), ("unshift", "0", "4|0,3,1,2"), ("reverse", "", "2,1,3|2,1,3"), ("sort", "", "1,2,3|1,2,3"),
                                                 ("splice", "0, 1", "3|1,2"), ("sort", "function (a, b) { return b - a }", "3,2,1|3,2,1"), ("forEach", "function (x, i, a) { a[i] = x + 1 }", "undefined|4,2,3")]),
    "string": ("'zzz'", "'Abc'", [("toUpperCase", "", "ABC"), ("charAt", "1", "b"), ("indexOf", "'c'", "2"), ("slice", "1", "bc"), ("split", "''", "A,b,c"), ("concat", "'d'", "Abcd"), ("replace", "'b', 'x'", "Axc"),
                                  ("trim", "", "Abc"), ("repeat", "2", "AbcAbc"), ("startsWith", "'A'", "true"), ("charCodeAt", "0", "65"), ("substring", "1, 2", "b"), ("toLowerCase", "", "abc"), ("includes", "'bc'", "true")]),
    "number": ("(9)", "(255)", [("toString", "16", "ff"), ("toFixed", "1", "255.0"), ("toString", "", "255"), ("toExponential", "1", "2.6e+2"), ("toPrecision", "2", "2.6e+2")]),
    "regexp": ("/zzz/", "/b/", [("test", "'abc'", "true"), ("exec", "'abc'", "b")]),
    "typed": ("new Uint8Array([9, 9])", "new Uint8Array([1, 2, 3])", [("join", "'-'", "1-2-3"), ("subarray", "1", "2,3"), ("toString", "", "1,2,3")]),
}


@groups.group(id="C08.bounded.native-call-forms", prop="C08", kind="B", functions=["microjs.vm:VM._make_callable_method", "microjs.vm:VM._for_receiver", "microjs.vm:VM._get_property"])
def c08_native_call_forms(tier="quick", seed=0):
    """`this` is bound by the call form also for built-in methods: f.call(r, ...), f.apply(r, [...]), f.bind(r)(...), and a method
    value read from one object (or from the prototype) and called on another, act on r -- never on the object the method
    value was read from, which stays as it was"""
    from microjs import Context
    out = []
    for kind, (src_obj, recv, methods) in NATIVE_METHODS.items():
        bad = None
        n = 0
        for m, args, want in methods:
            sep = ", " if args else ""
            forms = {"call": f"f.call(r{sep}{args})", "apply": f"f.apply(r, [{args}])", "bind": f"f.bind(r)({args})", "bind-partial": f"f.bind(r{sep}{args})()",
                     "call-call": f"Function.prototype.call.call ? f.call.call(f, r{sep}{args}) : 0"}
            sources = {"other-instance": src_obj + "." + m}
            if kind.startswith("array"):
                sources["prototype"] = "Array.prototype." + m
                sources["empty-literal"] = "[]." + m
            for sn, fexpr in sources.items():
                for fname, call in forms.items():
                    if fname == "call-call":
                        continue
                    mut = kind == "array-mutating"
                    prog = (f"var src = {src_obj}; var before = String(src.join ? src.join() : src); var f = {fexpr if sn != 'other-instance' else 'src.' + m}; var r = {recv}; var v = {call}; "
                            + ("var res = String(v && v.join ? v.join() : v) + '|' + r.join(); " if mut else "var res = String(v && v.join ? v.join() : (v && v[0] !== undefined && typeof v !== 'string' ? v[0] : v)); ")
                            + "res + '#' + (String(src.join ? src.join() : src) === before)"
                            + (" + '#' + Array.prototype.length" if kind.startswith("array") else ""))
                    n += 1
                    try:
                        got = Context(time_limit=10).eval(prog)
                    except BaseException as e:  # noqa
                        got = f"!{type(e).__name__}: {e}"[:160]
                    exp = want + "#true" + ("#0" if kind.startswith("array") else "")
                    if got != exp and bad is None:
                        bad = (prog, f"{m} via {sn}/{fname}: {got!r}, ECMAScript {exp!r}")
        out.append(ob(f"C08.bounded.native-call-forms.{kind}", bad is None, "B", f"{n} (method, source of the method value, call form) cases" if bad is None else bad[1],
                      witness=(bad[0] if bad else None), confirmed=True if bad else None, domain=n))
    # the idioms
    idioms = [("arguments-to-array", "function f() { return [].slice.call(arguments).join() } f(1, 2, 3)", "1,2,3"),
              ("arguments-rest", "function f() { return Array.prototype.slice.call(arguments, 1).join() } f(1, 2, 3)", "2,3"),
              ("push-apply", "var a = [1]; Array.prototype.push.apply(a, [2, 3]); a.join()", "1,2,3"),
              ("max-apply", "Math.max.apply(null, [1, 5, 2])", 5),
              ("hasOwnProperty-call", "Object.prototype.hasOwnProperty.call({a: 1}, 'a') + '|' + Object.prototype.hasOwnProperty.call({a: 1}, 'b')", "true|false"),
              ("toString-call", "Object.prototype.toString.call([]) + Object.prototype.toString.call(null)", "[object Array][object Null]"),
              ("incompatible-receiver", "var r; try { [].push.call({}, 1); r = 'accepted' } catch (e) { r = e.name } r + '|' + Array.prototype.length", "TypeError|0"),
              ("detached-method-keeps-its-object", "var a = [1, 2]; var m = a.map; m(function (x) { return x + 1 }).join()", "2,3"),
              ("map-call-on-string-method", "'x'.toUpperCase.call('abc')", "ABC")]
    for name, src, exp in idioms:
        try:
            got = Context(time_limit=10).eval(src)
        except BaseException as e:  # noqa
            got = f"!{type(e).__name__}: {e}"[:160]
        out.append(ob(f"C08.bounded.native-call-forms.idiom.{name}", _same(got, exp), "B", f"{src} => {got!r}" + ("" if _same(got, exp) else f" (ES: {exp!r})"),
                      witness=None if _same(got, exp) else src, confirmed=None if _same(got, exp) else True, domain=1))
    return out
