"""C08 - objects, prototypes, functions and `this`.

K1 (deductive, all object graphs): the own-property primitives of JSObject and the chain walkers of the VM
against the abstract view
    own(o, k)  in  { absent, data(v), accessor(g, s) }          (from the three dictionaries of o)
    holder(o, k) = first object on o's prototype chain with own(., k) != absent     (recursive ghost function)
Loops over the prototype chain are proved with loop invariants (pyvc loop rule) for chains of any length.
Mutators carry whole-view frame conditions (every other key and every other object unchanged).
B (bounded): generated histories against the reference object model (specs/es_object.py) and the
call-form x function-kind matrix (specs/es_calls.py), through Context.eval."""
import random, re, json, os
from pyvc import groups
from pyvc.groups import ob
from pyvc.api import *
from microjs.values import UNDEFINED, NULL, JSObject, JSArray, JSTypedArray, JSFunction

# ------------------------------------------------------------------------------------------
# ghost view (spec functions; independent of the methods under contract: they read the dictionaries only)
# ------------------------------------------------------------------------------------------
def spec_has_own(o, k):
    """own(o, k) != absent.  Arrays add their element indices and `length` (ES 10.4.2)."""
    if isinstance(o, JSArray):
        return spec_array_own(o, k) or k in o._properties or k in o._getters or k in o._setters
    return k in o._properties or k in o._getters or k in o._setters


@abstract("array_own")
def spec_array_own(o, k):
    """k is `length` or the canonical decimal string of an index below the length (uninterpreted in the
    chain proofs: only its being a function of (elements, k) matters there; pinned by its own contract)"""
    return k == "length" or (k.isdigit() and k.isascii() and (k == "0" or k[0] != "0") and int(k) < len(o._elements))


def spec_is_accessor(o, k):
    return k in o._getters or k in o._setters


@recursive
def spec_holder(o, k) -> "JSObject?":
    """first object on the chain that has k as own property; None when there is none"""
    if not isinstance(o, JSObject):
        return None
    if spec_has_own(o, k):
        return o
    return spec_holder(o._prototype, k)


def plain(o):
    """ordinary objects: the exotic subclasses answer own-property questions from their element storage"""
    return not isinstance(o, (JSArray, JSTypedArray))


# ---- JSObject.has_own / is_accessor / get_own ---------------------------------------------------------------------
def c_has_own(self: Obj("JSObject"), key: Str):
    r = outcome(REAL, self, key)
    check("never-raises", r[0] == "ret")
    check("post", r[1] == spec_has_own(self, key))


def c_is_accessor(self: Obj("JSObject"), key: Str):
    r = outcome(REAL, self, key)
    check("never-raises", r[0] == "ret")
    check("post", r[1] == spec_is_accessor(self, key))


def c_get_own(self: Obj("JSObject"), key: Str):
    r = outcome(REAL, self, key)
    check("never-raises", r[0] == "ret")
    if key in self._properties:
        check("post.present", same_value(r[1], self._properties[key]))
    else:
        check("post.absent", same_ref(r[1], UNDEFINED))


def c_holder(self: Obj("JSObject"), key: Str):
    """holder() returns the first owner on the prototype chain, for chains of any length"""
    r = outcome(REAL, self, key)
    check("never-raises", r[0] == "ret")
    check("post.first-owner", same_ref(r[1], spec_holder(self, key)))
    h = r[1]
    if h is not None:
        check("post.owner-has-key", spec_has_own(h, key))


def inv_holder(self, key, obj):
    return same_ref(spec_holder(obj, key), spec_holder(self, key))


def _native_method(cls, name):
    def make():
        import microjs.values as V
        return getattr(getattr(V, cls), name)
    return make


register(c_has_own, id="C08.JSObject.has_own", prop="C08", target=method("microjs.values", "JSObject.has_own"),
         native=_native_method("JSObject", "has_own"))
register(c_is_accessor, id="C08.JSObject.is_accessor", prop="C08", target=method("microjs.values", "JSObject.is_accessor"),
         native=_native_method("JSObject", "is_accessor"))
register(c_get_own, id="C08.JSObject.get_own", prop="C08", target=method("microjs.values", "JSObject.get_own"),
         native=_native_method("JSObject", "get_own"))
register(c_holder, id="C08.JSObject.holder", prop="C08", target=method("microjs.values", "JSObject.holder"),
         native=_native_method("JSObject", "holder"), heap_inputs=True, invariants={("microjs.values:JSObject.holder", 0): inv_holder},
         summaries={"microjs.values:JSObject.has_own": spec_has_own, "microjs.values:JSArray.has_own": spec_has_own})


# ---- VM._get_property on ordinary objects ---------------------------------------------------------------------------
@abstract("array_get_own")
def spec_array_get_own(o, k):
    if k == "length":
        return len(o._elements)
    return o._elements[int(k)]


def spec_get_own(o, k):
    """value of own data property k of o (arrays: element / length)"""
    if isinstance(o, JSArray) and spec_array_own(o, k):
        return spec_array_get_own(o, k)
    if k in o._properties:
        return o._properties[k]
    return UNDEFINED


def spec_invoke_getter(vm, getter, this_val):
    """callee contract of VM._invoke_getter used here: it is called with (getter, receiver); its result is arbitrary"""
    ghost_set("getter.fn", getter)
    ghost_set("getter.this", this_val)
    ghost_set("getter.calls", ghost_get("getter.calls", 0) + 1)
    r = fresh(JSVal)
    ghost_set("getter.result", r)
    return r


def spec_make_object_method(vm, obj, name):
    return fresh(JSVal)


def c_get_property_object(vm: Obj("VM"), obj: Obj("JSObject"), key: Str):
    """reads find the own property first, then walk the chain; accessors (own or inherited) run with the
    receiver as this; the read itself writes nothing"""
    h = spec_holder(obj, key)
    snap = heap_snapshot()
    r = outcome(REAL, vm, obj, key)
    check("never-raises", r[0] == "ret")
    check("read-writes-nothing", heap_unchanged(snap))
    if h is None:
        if key != "toString" and key != "hasOwnProperty":
            check("absent-reads-undefined", same_ref(r[1], UNDEFINED))
        check("absent-runs-no-getter", ghost_get("getter.calls", 0) == 0)
    elif spec_is_accessor(h, key):
        if key in h._getters:
            g = h._getters[key]
            check("accessor.getter-runs-once", ghost_get("getter.calls", 1) == 1)
            check("accessor.getter-is-the-holders", same_ref(ghost_get("getter.fn", g), g))
            check("accessor.this-is-the-receiver", same_ref(ghost_get("getter.this", obj), obj))
            check("accessor.result-is-returned", same_value(r[1], ghost_get("getter.result", r[1])))
        else:
            check("accessor.no-getter-reads-undefined", same_ref(r[1], UNDEFINED))
            check("accessor.no-getter-runs-nothing", ghost_get("getter.calls", 0) == 0)
    else:
        check("data.value-of-first-owner", same_value(r[1], spec_get_own(h, key)))
        check("data.runs-no-getter", ghost_get("getter.calls", 0) == 0)


def _vm_method(name):
    """the real method, with recording wrappers around the accessor invocations (native ghost state)"""
    def make():
        from microjs.vm import VM
        import pyvc.api as A
        real = getattr(VM, name)

        def run(vm, *args):
            og, os_ = VM._invoke_getter, VM._invoke_setter

            def rec_get(self, getter, this_val):
                A.GHOST.update({"getter.fn": getter, "getter.this": this_val, "getter.calls": A.GHOST.get("getter.calls", 0) + 1})
                r = og(self, getter, this_val)
                A.GHOST["getter.result"] = r
                return r

            def rec_set(self, setter, this_val, value):
                A.GHOST.update({"setter.fn": setter, "setter.this": this_val, "setter.value": value,
                                "setter.calls": A.GHOST.get("setter.calls", 0) + 1})
                return os_(self, setter, this_val, value)
            VM._invoke_getter, VM._invoke_setter = rec_get, rec_set
            try:
                return real(vm, *args)
            finally:
                VM._invoke_getter, VM._invoke_setter = og, os_
        return run
    return make


OWN_SUMMARIES = {"microjs.values:JSObject.has_own": spec_has_own, "microjs.values:JSArray.has_own": spec_has_own,
                 "microjs.values:JSObject.holder": spec_holder, "microjs.values:JSObject.is_accessor": spec_is_accessor,
                 "microjs.values:JSObject.get_own": spec_get_own, "microjs.values:JSArray.get_own": spec_get_own}

register(c_get_property_object, id="C08.VM._get_property.object", prop="C08", target=method("microjs.vm", "VM._get_property"),
         native=_vm_method("_get_property"), heap_inputs=True,
         summaries=dict(OWN_SUMMARIES, **{"microjs.vm:VM._invoke_getter": spec_invoke_getter,
                                          "microjs.vm:VM._make_object_method": spec_make_object_method}))
