"""C04 - eval fails only with JSError: positioned JSSyntaxError or a runtime JSError.
K3: classification of every `raise` in src/microjs (only the JSError family may reach Context.eval; private classes are
converted at the listed sites).  B: character soup, token soup, truncations / splices / mutations / prefixes of the corpus
under a watchdog; every built-in called with an adversarial argument grid."""
from pyvc import structural as _S_
import glob, os, random, json
from pyvc import groups
from pyvc.groups import ob

ALLOWED = {"JSError", "JSSyntaxError", "JSTypeError", "JSReferenceError", "JSRangeError", "MemoryLimitError", "TimeLimitError"}
CONVERTED = {"RegExpError": "JSRegExp.__init__ -> JSSyntaxError", "RegexTimeoutError": "matcher entry points -> TimeLimitError",
             "RegexStackOverflow": "matcher entry points -> RangeError", "NativeUnwind": "control signal caught by the run loops",
             "IndexError": "JSArray.set_index, caught in VM._set_property", "ValueError": "JSON.parse hooks, caught in parse_fn",
             "NotImplementedError": "VM._execute_opcode fallthrough: unreachable, every OpCode member has a branch (C04.struct.opcodes-all-handled)",
             "RuntimeError": "defensive internal-state check in vm.py"}


@groups.group(id="C04.struct", prop="C04", kind="K3", functions=["src/microjs (all raise statements)"])
def c04_struct(tier="quick", seed=0):
    from pyvc import structural as S
    import ast
    out = []
    seen = {}
    for mod, mi in S.source().modules.items():
        funcs = [f for f in ast.walk(mi.tree) if isinstance(f, (ast.FunctionDef, ast.AsyncFunctionDef))]
        for n in ast.walk(mi.tree):
            if isinstance(n, ast.Raise) and n.exc is not None:
                classes = [_S_.unparse(n.exc.func) if isinstance(n.exc, ast.Call) else _S_.unparse(n.exc)]
                if isinstance(n.exc, ast.Name):
                    # `raise name`: the classes of everything assigned to the name in the enclosing function; a name bound by
                    # `except ... as name` re-raises what was caught
                    encl = [f for f in funcs if any(m is n for m in ast.walk(f))]
                    fn = min(encl, key=lambda f: sum(1 for _ in ast.walk(f))) if encl else None
                    vals = [a.value for a in ast.walk(fn) if isinstance(a, ast.Assign) and any(isinstance(t, ast.Name) and t.id == n.exc.id for t in a.targets)] if fn else []
                    handler = fn is not None and any(isinstance(h, ast.ExceptHandler) and h.name == n.exc.id for h in ast.walk(fn))
                    if vals and all(isinstance(v, ast.Call) for v in vals):
                        classes = [_S_.unparse(v.func) for v in vals]
                    elif handler and not vals:
                        classes = ["e"]
                for cls in classes:
                    seen.setdefault(str(cls), []).append(f"{mod.split('.')[-1]}:{n.lineno}")
    # private exception classes of the package (defined in src/microjs, outside the JSError family) are acceptable
    # when the package itself catches them: some handler names the class (its conversion site)
    defined, caught = set(), set()
    for mod, mi in S.source().modules.items():
        for n in ast.walk(mi.tree):
            if isinstance(n, ast.ClassDef) and any(getattr(b, "id", "") in ("Exception", "BaseException") for b in n.bases):
                defined.add(n.name)
            if isinstance(n, ast.ExceptHandler) and n.type is not None:
                for t in (n.type.elts if isinstance(n.type, ast.Tuple) else [n.type]):
                    caught.add(_S_.unparse(t).split(".")[-1])
    for cls, sites in sorted(seen.items()):
        private_ok = cls in defined and cls in caught and cls not in ALLOWED
        if private_ok and cls not in CONVERTED:
            CONVERTED[cls] = "private class of the package, caught by the package itself"
        ok = cls in ALLOWED or cls in CONVERTED or cls in ("self._error", "self._syntax_error", "e", "ex")
        out.append(ob(f"C04.struct.raise.{cls}", ok, "K3", f"{len(sites)} raise sites of {cls}: " + ("JSError family" if cls in ALLOWED else CONVERTED.get(cls, "re-raise / parser error helper") if ok else f"a host exception class raised at {sites[:4]}"),
                      witness=(f"the code path reaching {sites[0]}" if not ok else None)))
    from microjs.opcodes import OpCode
    ops_src = _S_.unparse(S.fn("microjs.vm", "VM._execute_opcode"))
    emitted = set(S.opcode_names_in(S.source().modules["microjs.compiler"].tree))
    missing = [m.name for m in OpCode if m.name in emitted and f"OpCode.{m.name}" not in ops_src]
    out.append(ob("C04.struct.opcodes-all-handled", not missing, "K3", f"opcodes without a branch in _execute_opcode: {missing}"))
    perr = _S_.unparse(S.fn("microjs.parser", "Parser._error"))
    out.append(ob("C04.struct.parser-error-positioned", "JSSyntaxError(" in perr and "line" in perr and "column" in perr, "K3", "Parser._error builds JSSyntaxError(message, line, column) from a token"))
    return out


def _corpus():
    root = os.environ.get("MICROJS_SRC", "/repo/src").replace("/src", "/tests")
    files = sorted(glob.glob(os.path.join(root, "basic", "*.js")) + glob.glob(os.path.join(root, "compat", "*.js")) + glob.glob(os.path.join(root, "*.js")))
    return [open(f, encoding="utf-8").read() for f in files if os.path.getsize(f) < 40000]


TOKENS = ["var", "function", "return", "if", "else", "for", "while", "do", "switch", "case", "default", "break", "continue", "try", "catch", "finally", "throw", "new", "typeof",
          "instanceof", "in", "of", "delete", "void", "this", "null", "true", "false", "x", "y", "f", "1", "0x1F", "1.5e3", "'s'", '"d"', "/re/g", "(", ")", "[", "]", "{", "}", ";", ",", ".",
          "=", "==", "===", "!=", "+", "-", "*", "/", "%", "**", "++", "--", "&&", "||", "!", "~", "&", "|", "^", "<<", ">>", ">>>", "<", ">", "<=", ">=", "?", ":", "=>", "+=", "-=", "\n", " ", "//c\n", "/*c*/"]


def _literal_stress(r):
    """literals at and beyond the representable ranges: digit runs, exponents, escapes, counted quantifiers"""
    hexd = "0123456789abcdefABCDEF"
    kind = r.randrange(9)
    big = r.choice([1, 2, 5, 15, 16, 17, 20, 40, 310, 400, 1100])
    if kind == 0:
        return "0x" + "".join(r.choice(hexd) for _ in range(big))
    if kind == 1:
        return r.choice(["0b", "0o", ""]) + "".join(r.choice("01") for _ in range(big)) + r.choice(["", ".5", "e5", "e400", "e-400", "e", "."])
    if kind == 2:
        return str(r.randrange(1, 99)) + "e" + r.choice(["", "+", "-"]) + "9" * r.choice([1, 3, 4, 20])
    if kind == 3:
        body = "".join(r.choice(hexd + "_- g") for _ in range(r.choice([0, 1, 4, 5, 6, 7, 20])))
        return r.choice(["'\\u{%s}'", '"\\u%s"', "'\\x%s'", "/\\u{%s}/u", "/\\u%s/", "'a\\u{%s}b'.length"]).replace("\\\\", "\\") % body
    if kind == 4:
        n = r.choice(["0", "1", "9" * 3, "9" * 11, "9" * 20, "1" + "0" * 30])
        m = r.choice(["", ",", "," + n, ",0"])
        return r.choice(["/a{%s%s}/.test('aaa')", "new RegExp('(?:a|b){%s%s}')", "'aaa'.replace(/a{%s%s}/g, 'x')", "/(a{%s%s}){%s%s}/"]).replace("%s%s", n + m)
    if kind == 5:
        recv = r.choice(["NaN", "Infinity", "(-Infinity)", "(5e-324)", "(1.7976931348623157e308)", "(-0)", "(0.1)", "(1e21)", "(-1e-7)", "(2**53)", "(255.5)"])
        meth = r.choice(["toFixed", "toString", "toExponential", "toPrecision"])
        arg = r.choice(["", "0", "1", "2", "10", "16", "36", "100", "101", "-1", "NaN", "undefined", "1e21", "'3'", "2.9"])
        return f"{recv}.{meth}({arg})"
    if kind == 6:
        return r.choice(["'%s'", '"%s"', "`%s`"]) % "".join(r.choice(["\\", "\\n", "\\0", "\\x4", "\\u12", "\\u{", "a", "\n", "${", "}", "'", '"']) for _ in range(r.randint(1, 6)))
    if kind == 7:
        return "[" + ",".join(r.choice(["", "1", "[]", "{}", "...x"]) for _ in range(big % 50)) + "]" + r.choice(["", ".length", "[0]", "[1e21]", "['x']"])
    return r.choice(["(", "[", "{a:", "f(", "-", "!", "typeof ", "x=", "a?b:", "new "]) * min(big, 30) + "1"      # C04 scope: nesting depth <= 30


def _fuzz_chunk(args):
    import contextlib, io
    seed, n, corpus = args
    import signal
    from microjs import Context
    from microjs.errors import JSError, JSSyntaxError
    r = random.Random(seed)
    bad = []
    cnt = 0

    def boom(*a):
        raise TimeoutError()
    signal.signal(signal.SIGPROF, boom)      # CPU-time watchdog (independent of the load of the machine)
    for i in range(n):
        k = r.random()
        if k < 0.12:
            src = _literal_stress(r)
        elif k < 0.2:
            src = "".join(r.choice("abc(){}[];=+-*/<>!&|?:.,'\"\\\n 0129_$`^%~#@\t\r é😀") for _ in range(r.randint(1, 40)))
        elif k < 0.5:
            src = " ".join(r.choice(TOKENS) for _ in range(r.randint(1, 25)))
        else:
            base = r.choice(corpus)
            m = r.random()
            if m < 0.3:
                src = base[: r.randrange(len(base) + 1)]
            elif m < 0.6:
                j = r.randrange(len(base))
                src = base[:j] + r.choice(TOKENS) + base[j + r.randint(0, 3):]
            elif m < 0.8:
                a, b = sorted((r.randrange(len(base)), r.randrange(len(base))))
                src = base[:a] + base[b:]
            else:
                j = r.randrange(len(base))
                src = base[:j] + r.choice("(){}[]'\"/*\\") + base[j:]
        cnt += 1
        signal.setitimer(signal.ITIMER_PROF, 25)
        try:
            with contextlib.redirect_stdout(io.StringIO()):       # (corpus programs print)
                Context(time_limit=1.0, memory_limit=5_000_000).eval(src)
        except JSSyntaxError as e:
            nl = src.count("\n") + 1
            if not (1 <= e.line <= nl + 1 and e.column >= 0):
                bad.append((src, f"JSSyntaxError position out of the text: line {e.line}, column {e.column} (text has {nl} lines)"))
        except JSError:
            pass
        except TimeoutError:
            bad.append((src, "front end / evaluation hangs (> 25 s with time_limit=1)"))
        except BaseException as e:  # noqa
            bad.append((src, "host exception " + type(e).__name__ + ": " + str(e)[:80]))
        finally:
            signal.setitimer(signal.ITIMER_PROF, 0)
        if len(bad) > 4:
            break
    return cnt, bad


ARGS = ["", "undefined", "null", "NaN", "Infinity", "-Infinity", "-1", "0", "-0", "0.5", "300", "1e21", "5e-324", "2**53", "'5'", "'abc'", "'\\u00e9'", "({})", "[]", "[1,2]", "[[]]",
        "(function(){})", "true", "({valueOf:function(){return 2}})",
        # text that only LOOKS numeric to the host (str.isdigit / int() / float() accept it, the language does not), and very long numerals
        "'\\u00b2'", "'\\u0663'", "'\\uff11\\uff12'", "'\\u2460'", "'1_0'", "' 12 '", "'\\u0661.5'", "'1'.repeat(5000)", "'0x' + 'f'.repeat(400)", "'0b' + '1'.repeat(1100)", "'9'.repeat(400) + '.5e1'",
        # lengths and counts that are legal numbers but would be enormous allocations
        "1e9", "2147483648", "4294967295", "4294967296", "2**31 - 1"]
CALLS = (["Math." + m for m in "abs floor ceil round trunc min max pow sqrt sin cos tan asin acos atan atan2 log exp sign imul fround clz32 hypot cbrt log2 log10 expm1 log1p".split()]
         + ["parseInt", "parseFloat", "isNaN", "isFinite", "Number", "String", "Boolean", "Array", "Object", "RegExp", "Error", "Number.isInteger", "Number.parseFloat", "String.fromCharCode",
            "JSON.parse", "JSON.stringify", "Object.keys", "Object.values", "Object.entries", "Object.assign", "Object.create", "Object.getPrototypeOf", "Object.setPrototypeOf",
            "Object.defineProperty", "Object.getOwnPropertyDescriptor", "Array.isArray", "new Array", "new Object", "new Error", "new RegExp", "new Int8Array", "new Uint8ClampedArray",
            "new Float32Array", "new ArrayBuffer", "new Function", "eval", "Date.now", "new Uint8Array", "new Float64Array", "new Int16Array", "Array(3).fill", "new Array(2).concat"]
         + ["'abc'." + m for m in "charAt charCodeAt indexOf lastIndexOf substring slice split toLowerCase trim concat repeat startsWith endsWith includes replace replaceAll match search".split()]
         + ["[3,1,2]." + m for m in "push pop shift unshift join map filter reduce reduceRight forEach indexOf lastIndexOf find findIndex some every concat slice splice reverse includes sort".split()]
         + [recv + "." + m for recv in ("(255)", "NaN", "Infinity", "(-Infinity)", "(5e-324)", "(1.7976931348623157e308)", "(-0)", "(0.1)", "(1e21)", "(-2.5)")
            for m in "toFixed toString toExponential toPrecision valueOf".split()]
         + ["''." + m for m in "charAt charCodeAt indexOf slice split repeat padStart padEnd at codePointAt normalize localeCompare".split()]
         + ["[]." + m for m in "pop shift reduce reduceRight join sort at flat fill".split()] + ["/a/g.test", "/a/g.exec", "(function(){}).call", "(function(){}).apply", "(function(){}).bind",
            "new Uint8Array(4).set", "new Uint8Array(4).subarray", "new Uint8Array(4).join", "Object.prototype.hasOwnProperty.call", "Object.prototype.toString.call"])


def _api_chunk(calls):
    import resource
    from microjs import Context
    from microjs.errors import JSError
    try:        # (an enormous allocation fails with MemoryError -- a host exception, reported -- instead of exhausting the machine)
        resource.setrlimit(resource.RLIMIT_AS, (4 * 2 ** 30, resource.getrlimit(resource.RLIMIT_AS)[1]))
    except (ValueError, OSError):
        pass
    bad = []
    n = 0
    for call in calls:
        for a in ARGS:
            for b in ("", "undefined", "NaN", "-1", "({})"):
                if a == "" and b != "":
                    continue
                args = ", ".join(x for x in (a, b) if x != "")
                src = f"{call}({args})"
                n += 1
                try:
                    Context(time_limit=2.0, memory_limit=10_000_000).eval(src)
                except JSError:
                    pass
                except BaseException as e:  # noqa
                    bad.append((src, "host exception " + type(e).__name__ + ": " + str(e)[:80]))
    return n, bad


# every literal and escape form the lexers know, as small programs the engine accepts, so that every PREFIX ends inside
# each form once (a parser that stops at the first error never lexes what follows it, hence many short texts)
ZOO = [
    r"""var s = 'a\x41B\u{1F600}\n\t\v\0\'\\' + "q\x7e\u00e9\"" + 'line\
cont'; s""",
    r"""var n = [0x1F, 0b101, 0o17, 1e+5, .5, 1.5e-3, 0.1E2, 9007199254740993, 0XaB, 1e-7, 0O17]; n""",
    r"""var r = /a[/\]]\/(?:x|A|\x41|\cA)+(?=b)(?<=c)(d)\1{2,3}?/gimsuy; /* block */ // line
r.source""",
    r"""var o = {a: 1, 'b': 2, 3: 4, get g() { return 1 }, set g(v) { }, f: function () { }}; o.g""",
    r"""lbl: for (var i = 0; i < 2; i++) { continue lbl } out: { break out } i""",
    r"""var f = (a, b) => a + b, g = x => ({v: x}); f(1, 2) + g(3).v""",
    r"""try { throw new Error('e') } catch (e) { } finally { } switch (1) { case 1: break; default: }""",
    r"""'a1b22'.replace(/\d+/g, function (m) { return m + 1 }); typeof void 0; var a = 1 ? 2 : 3; a *= 2; a >>>= 1; a""",
    r"""var t = [1, [2, [3, {k: [4]}]]], u = t[1][1][1].k[0]; do { u-- } while (u > 0); for (var k in {a: 1}) { } for (var v of [1]) { } u""",
    r"""var x = {}; x.y = {z: function () { return this }}; new x.y.z() instanceof x.y.z; delete x.y; 'y' in x""",
    r"""var m = {'key with space': 1, "dq": 2}; m['key with space'] + m["dq"]""",
    r"""function outer(a, b) { var c = arguments.length; return function inner() { return a + b + c } } outer(1, 2)()""",
    r"""if (1) { } else if (2) { } else { } while (false) { } for (;;) { break } ;;; -1 + +1 - -1 + !0 + ~0""",
    r"""var big = 1.7976931348623157e308, tiny = 5e-324, neg = -0, h = 0xFFFFFFFF, e = 1E21; [big, tiny, neg, h, e]""",
    r"""var re2 = /[\]\\/]+$/.test('a]') && /\//.test('/') && /[^\n]/.test('x') && /\u{61}/u.test('a'); re2""",
]


def _prefix_chunk(args):
    texts = args
    from microjs import Context
    from microjs.errors import JSError
    bad = []
    for src in texts:
        try:
            Context(time_limit=2.0, memory_limit=5_000_000).eval(src)
        except JSError:
            pass
        except BaseException as e:  # noqa
            bad.append((src, "host exception " + type(e).__name__ + ": " + str(e)[:80]))
    return len(texts), bad


RX_PATTERNS = ["$", "^", "\\\\b", "\\\\B", "(?=a)", "(?!a)", "(?<=a)", "(?<!a)", "a", ".", "[^x]", "(a)\\\\1", "a*", "(?:)", "\\\\s", "a|$"]
RX_FLAGS = ["", "g", "y", "gy", "m", "my", "gm", "gmy", "s", "i", "u", "giy"]
RX_LAST = ["-1", "0", "1", "2", "3", "7", "2147483648", "4294967296", "9007199254740992", "1e21", "NaN", "Infinity", "-Infinity", "'3'", "null", "undefined", "({})", "2.5", "-0"]
RX_USES = ["r.test(S)", "r.exec(S)", "S.match(r)", "S.replace(r, 'x')", "S.split(r)", "S.search(r)", "S.replace(r, function () { return 'y' })", "S.replaceAll(new RegExp(r.source, r.flags.indexOf('g') < 0 ? r.flags + 'g' : r.flags), 'z')"]


def _regex_state_chunk(args):
    """a RegExp object in every state a script can put it in (lastIndex: any value) through every consumer"""
    cases = args
    from microjs import Context
    from microjs.errors import JSError
    bad = []
    ctx = None
    for i, (p, f, l, u, subj) in enumerate(cases):
        if i % 100 == 0:
            ctx = Context(time_limit=5.0)
        src = f'var S = {subj}; var r = new RegExp("{p}", "{f}"); r.lastIndex = {l}; var res = {u}; [typeof res, r.lastIndex]'
        try:
            ctx.eval(src)
        except JSError:
            pass
        except BaseException as e:  # noqa
            bad.append((src, "host exception " + type(e).__name__ + ": " + str(e)[:80]))
            ctx = Context(time_limit=5.0)
    return len(cases), bad


@groups.group(id="C04.bounded.states", prop="C04", kind="B", functions=["microjs.lexer:Lexer", "microjs.regex.regex:RegExp.exec", "microjs.vm:VM"])
def c04_states(tier="quick", seed=0):
    import multiprocessing as mp
    prefixes = [z[:i] for z in ZOO for i in range(len(z) + 1)]
    prefixes += [z[:i] + tail for z in ZOO for i in range(0, len(z), 5) for tail in ("'", '"', "/", "*/", "}", ")", "\\", "\n")]
    whole = [z for z in ZOO]
    cases = [(p, f, l, u, subj) for p in RX_PATTERNS for f in RX_FLAGS for l in RX_LAST for u in RX_USES for subj in ("'ab'", "''", "'a\\nb a'")]
    if tier == "quick":
        cases = cases[seed % 3::3]
    with mp.get_context("fork").Pool(16) as pool:
        rp = pool.map(_prefix_chunk, [prefixes[i::16] for i in range(16)])
        rr = pool.map(_regex_state_chunk, [cases[i::16] for i in range(16)])
    out = []
    for name, rs, what in (("prefixes", rp, "prefixes (and prefixes closed by one token) of a text that contains every literal and escape form"),
                           ("regex-state", rr, "RegExp pattern x flags x lastIndex value x consumer x subject")):
        bad = [b for _, bs in rs for b in bs]
        tot = sum(c for c, _ in rs)
        out.append(ob(f"C04.bounded.states.{name}", not bad, "B", f"{tot} {what}" if not bad else f"{bad[0][1]} on {bad[0][0][-120:]!r}",
                      witness=(bad[0][0] if bad else None), confirmed=True if bad else None, domain=tot))
    return out


@groups.group(id="C04.bounded", prop="C04", kind="B", functions=["microjs.context:Context.eval"])
def c04_bounded(tier="quick", seed=0):
    import multiprocessing as mp
    corpus = _corpus()
    n = 60 if tier == "quick" else 4000
    with mp.get_context("fork").Pool(16) as pool:
        rs = pool.map(_fuzz_chunk, [(seed * 977 + i, n, corpus) for i in range(16)])
        ra = pool.map(_api_chunk, [CALLS[i::16] for i in range(16)])
    out = []
    bad = [b for _, bs in rs for b in bs]
    tot = sum(c for c, _ in rs)
    out.append(ob("C04.bounded.source-fuzz", not bad, "B", f"{tot} sources (soups, truncations, splices, mutations of {len(corpus)} corpus programs)" if not bad else f"{bad[0][1]} on {bad[0][0][:80]!r}",
                  witness=(bad[0][0] if bad else None), confirmed=True if bad else None, domain=tot))
    fails = {}
    cnt = {}
    for c in CALLS:
        cnt[c.split("(")[0].split(".")[0].replace("new ", "").strip("'[]/")[:12] or "misc"] = 0
    badapi = [b for _, bs in ra for b in bs]
    tota = sum(c for c, _ in ra)
    groups_ = {}
    for src, why in badapi:
        key = src.split("(")[0]
        groups_.setdefault(key, []).append((src, why))
    out.append(ob("C04.bounded.api-grid", not badapi, "B", f"{tota} built-in calls with adversarial arguments" if not badapi else f"{len(groups_)} built-ins leak host exceptions, e.g. {badapi[0][0]} -> {badapi[0][1]}",
                  witness=(badapi[0][0] if badapi else None), confirmed=True if badapi else None, domain=tota))
    if badapi:
        out[-1]["all"] = sorted({k for k in groups_})[:60]
    return out


def _numeric_chunk(prefixes):
    import itertools
    from microjs import Context
    from microjs.errors import JSError
    alphabet = "0189afgxXoObBeE._+-n"
    bad, n = [], 0
    c = Context(time_limit=5)
    for pre in prefixes:
        for k in range(0, 4):
            for tail in itertools.product(alphabet, repeat=k):
                lit = pre + "".join(tail)
                for src in (lit, "var v = " + lit + "; v", "[" + lit + "]", lit + ".x"):
                    n += 1
                    try:
                        c.eval(src)
                    except JSError:
                        pass
                    except BaseException as e:  # noqa
                        bad.append((src, "host exception " + type(e).__name__ + ": " + str(e)[:80]))
                        c = Context(time_limit=5)
                        break
                if len(bad) > 3:
                    return n, bad
    return n, bad


NUMERIC_PREFIXES = ["0x", "0X", "0o", "0O", "0b", "0B", "0", "", "1", ".", "0.", "1e", "9", "0x1", "0b1", "0o7"]


@groups.group(id="C04.bounded.numeric-near-misses", prop="C04", kind="B", functions=["microjs.lexer:Lexer._read_number", "microjs.lexer:Lexer._integer_value"])
def c04_numeric_near_misses(tier="quick", seed=0):
    """every text made of a numeric-literal prefix followed by up to three characters of 0189afgxXoObBeE._+-n (digits that a
    radix does not have, doubled prefixes, stray dots, signs and exponent letters, the BigInt suffix), alone and in three
    contexts: a value or a JSError, never the host's int()/float() complaint"""
    import multiprocessing as mp
    with mp.get_context("fork").Pool(16) as pool:
        res = pool.map(_numeric_chunk, [[p_] for p_ in NUMERIC_PREFIXES])
    out = []
    for pre, (n, bad) in zip(NUMERIC_PREFIXES, res):
        out.append(ob(f"C04.bounded.numeric-near-misses.{pre or 'none'}", not bad, "B", f"{n} sources" if not bad else f"{bad[0][0]!r}: {bad[0][1]}",
                      witness=bad[0][0] if bad else None, confirmed=True if bad else None, domain=n))
    return out


GLOBAL_NAMES = ["Object", "Array", "Function", "Error", "TypeError", "RangeError", "SyntaxError", "ReferenceError", "String", "Number", "Boolean", "RegExp", "JSON", "Math", "Date",
                "Uint8Array", "ArrayBuffer", "parseInt", "isNaN", "undefined", "NaN", "Infinity", "eval"]
GLOBAL_VALUES = ["1", "null", "undefined", "'s'", "({})", "function () { return 7 }"]
BATTERY = [
    "Object.getPrototypeOf(function () {})", "Object.getPrototypeOf([])", "Object.getPrototypeOf({})", "(function () {}).call", "(function () {}).bind(null)()", "new (function F() {})()",
    "({}).toString()", "[1, 2].map(function (x) { return x })", "[3, 1].sort()", "[].concat([1])", "'a,b'.split(',')", "'abc'.match(/b/)", "'abc'.replace('b', 'x')", "/a/.exec('a')",
    "null.x", "undefinedName", "(1)()", "new Array(-1)", "'a'.repeat(-1)", "JSON.parse('{')", "JSON.stringify({a: [1]})", "JSON.parse('[1, {\"a\": 2}]')", "eval('(')", "new Function('(')",
    "Object.keys({a: 1})", "Object.create(null)", "Object.create({})", "Object.setPrototypeOf({}, null)", "Object.assign({}, {a: 1})", "Object.defineProperty({}, 'a', {value: 1})",
    "var o = {}; o instanceof Object", "[] instanceof Array", "(function () {}) instanceof Function", "new Error('e') instanceof Error", "typeof new Error('e').stack", "new TypeError('t').name",
    "String(1)", "Number('1')", "Boolean(0)", "(1.5).toFixed(1)", "new RegExp('a')", "Math.max(1, 2)", "new Uint8Array(2).join()", "new Uint8Array(2).buffer", "new Uint8Array(4).subarray(1)",
    "for (var k in {a: 1}) { } k", "for (var v of [1]) { } v", "try { throw new Error('x') } catch (e) { e.message }", "try { null.x } catch (e) { [e.name, e instanceof Error, String(e)] }",
    "parseInt('12')", "isNaN(1)", "1 / 0", "0 / 0", "void 0", "[1, [2]].join()", "'x'.toUpperCase.call('y')", "[].slice.call([1, 2], 1)", "Array.prototype.push.call([1], 2)",
]


def _globals_chunk(names):
    from microjs import Context
    from microjs.errors import JSError
    bad, n = [], 0
    for g in names:
        for v in GLOBAL_VALUES:
            for how in ("{G} = {V};", "var {G} = {V};", "delete {G};"):
                if how.startswith("delete") and v != "1":
                    continue
                pre = how.replace("{G}", g).replace("{V}", v)
                for b in BATTERY:
                    src = pre + " " + b
                    n += 1
                    try:
                        Context(time_limit=2.0, memory_limit=10_000_000).eval(src)
                    except JSError:
                        pass
                    except BaseException as e:  # noqa
                        bad.append((src, "host exception " + type(e).__name__ + ": " + str(e)[:80]))
                        break
    return n, bad


@groups.group(id="C04.bounded.replaced-globals", prop="C04", kind="B", functions=["microjs.context:Context._setup_globals", "microjs.vm:VM._function_prototype", "microjs.vm:VM._object_prototype"])
def c04_replaced_globals(tier="quick", seed=0):
    """a script may assign to, redeclare or delete any global binding (Object, Function, Error, ...): what the engine needs
    of its own built-ins afterwards either still works or fails with a JSError, never with a host exception"""
    import multiprocessing as mp
    with mp.get_context("fork").Pool(12) as pool:
        res = pool.map(_globals_chunk, [[g] for g in GLOBAL_NAMES])
    out = []
    for g, (n, bad) in zip(GLOBAL_NAMES, res):
        out.append(ob(f"C04.bounded.replaced-globals.{g}", not bad, "B", f"{n} programs" if not bad else f"{bad[0][0]!r}: {bad[0][1]}",
                      witness=bad[0][0] if bad else None, confirmed=True if bad else None, domain=n))
    return out


NESTS = {
    "paren": lambda n: "(" * n + "1" + ")" * n, "paren-unclosed": lambda n: "(" * n + "1", "paren-in-call": lambda n: "f(" + "(" * n + "1" + ")" * n + ")",
    "paren-pairs": lambda n: "(" * n + "(a) + (b)" + ")" * n, "paren-then-arrow": lambda n: "(" * n + "(a) => a" + ")" * n, "array": lambda n: "[" * n + "1" + "]" * n,
    "call": lambda n: "f(" * n + "1" + ")" * n, "index": lambda n: "a" + "[0]" * n, "member": lambda n: "a" + ".b" * n, "unary": lambda n: "!" * n + "1", "ternary": lambda n: "1?" * n + "1" + ":1" * n,
    "block": lambda n: "{" * n + "}" * n, "object": lambda n: "({a:" * n + "1" + "})" * n, "sum": lambda n: "1" + "+1" * n, "comma": lambda n: "1" + ",1" * n, "statements": lambda n: "1;" * n,
    "else-if": lambda n: "if(0){}else " * n + "{}", "string": lambda n: "'" + "a" * (n * 10) + "'", "comment": lambda n: "/*" + "a" * (n * 10) + "*/1", "line-comments": lambda n: "//x\n" * n + "1",
    "function": lambda n: "function f(){" * n + "}" * n, "arrow": lambda n: "(a)=>" * n + "1", "assign": lambda n: "a=" * n + "1", "regex-groups": lambda n: "/" + "(a)" * n + "/",
    "regex-nest": lambda n: "/" + "(" * n + "a" + ")" * n + "/", "regex-class": lambda n: "/[" + "a-z" * n + "]/", "cases": lambda n: "switch(1){" + "case 1:" * n + "}", "vars": lambda n: "var " + ",".join("v%d" % i for i in range(n)),
    "labels": lambda n: "".join("l%d:" % i for i in range(n)) + "1", "try": lambda n: "try{" * n + "}catch(e){}" * n, "paren-array": lambda n: "[(" * n + "1" + ")]" * n, "new": lambda n: "new " * n + "F",
    "template-like": lambda n: "'" + "\\n" * n + "'", "regex-in-paren": lambda n: "(" * n + "/\\(/" + ")" * n, "string-of-parens": lambda n: "'" + "(" * n + "'",
}


def _nest_case(name):
    import time as _t
    from microjs import Context
    from microjs.errors import JSError
    worst = None
    for n in (250, 1000, 4000, 16000):
        src = NESTS[name](n)
        t0 = _t.process_time()
        try:
            Context().eval(src)
            kind = "ok"
        except JSError:
            kind = "JSError"
        except BaseException as e:  # noqa
            return name, n, "host exception " + type(e).__name__ + ": " + str(e)[:60], 0.0
        dt = _t.process_time() - t0
        if worst is None or dt > worst[1]:
            worst = (n, dt, kind)
        if dt > 8.0:
            break
    return name, worst[0], worst[2], worst[1]


@groups.group(id="C04.bounded.front-end-cost", prop="C04", kind="B", functions=["microjs.parser:Parser", "microjs.lexer:Lexer", "microjs.compiler:Compiler"])
def c04_front_end_cost(tier="quick", seed=0):
    """'the front end never hangs': sources of a few kilobytes to a few hundred kilobytes made of one construct nested or
    repeated n times (n up to 16000) are accepted or refused within seconds of CPU time -- no construct costs n^2 with a
    constant that matters (bound: 8 s of CPU time for any of them; linear behaviour is three orders of magnitude below)"""
    import multiprocessing as mp
    with mp.get_context("fork").Pool(12) as pool:
        res = pool.map(_nest_case, sorted(NESTS))
    out = []
    for name, n, kind, dt in res:
        ok = not kind.startswith("host") and dt <= 8.0
        out.append(ob(f"C04.bounded.front-end-cost.{name}", ok, "B", f"n={n}: {kind} after {dt:.2f}s of CPU time",
                      witness=None if ok else f"<{name} nested/repeated {n} times>: " + NESTS[name](3)[:60], confirmed=None if ok else True, domain=4))
    return out


@groups.group(id="C04.bounded.positions", prop="C04", kind="B", functions=["microjs.lexer:Lexer._skip_whitespace", "microjs.lexer:Lexer._advance"])
def c04_positions(tier="quick", seed=0):
    """a JSSyntaxError carries the position of the offending character, whatever trivia precedes it (the layouts of C13)"""
    from contracts.C13_parsing import c13_positions
    out = []
    for o in c13_positions(tier, seed):
        if o["id"].endswith(".syntax-error"):
            o = dict(o)
            o["id"] = o["id"].replace("C13.", "C04.", 1)
            o["finding_key"] = o["id"]
            out.append(o)
    return out
