"""C01 - time limit bounds every evaluation.  K1 contract on VM._check_limits (also carries C02's
memory clause), lemma on the polling period, K3 dominance / exception transparency / one-deadline
obligations, bounded placement library."""
from pyvc import structural as _S_
import time
from pyvc.api import *
from pyvc import groups
from pyvc.groups import ob


def _consts():
    """polling period and memory cost constants, read from the real VM._check_limits"""
    from pyvc import structural as S
    import ast
    f = S.fn("microjs.vm", "VM._check_limits")
    poll = slot = frame = None
    for n in ast.walk(f):
        if isinstance(n, ast.BinOp) and isinstance(n.op, ast.Mod) and isinstance(n.right, ast.Constant) and "instruction_count" in _S_.unparse(n.left):
            poll = n.right.value
        if isinstance(n, ast.BinOp) and isinstance(n.op, ast.Mult) and isinstance(n.right, ast.Constant):
            if "self.stack" in _S_.unparse(n.left):
                slot = n.right.value
            if "self.call_stack" in _S_.unparse(n.left):
                frame = n.right.value
    return poll, slot, frame


POLL, SLOT, FRAME = _consts()


def _vm_method(name):
    def make():
        from microjs.vm import VM
        return getattr(VM, name)
    return make


def check_limits(self: Obj("VM"), count: IntRange(0, 10 ** 15), tl: Num, ml: IntRange(0, 10 ** 12), use_tl: Bool, use_ml: Bool,
                 start: Flt, stack: ValList, frames: ValList):
    """every call counts one instruction; on every POLL-th instruction a passed deadline raises TimeLimitError;
    a normal return implies the usage estimate is within memory_limit; no other exception, no spurious stop"""
    assume(start >= 0 and start < 1e12)
    assume(tl >= 0 and tl < 1e9)
    self.instruction_count = count
    self.time_limit = tl if use_tl else None
    self.memory_limit = ml if use_ml else None
    self.start_time = start
    self.stack = stack
    self.call_stack = frames
    t0 = time.monotonic()
    o = outcome(REAL, self)
    t1 = time.monotonic()
    polled = use_tl and (count + 1) % POLL == 0
    usage = SLOT * len(stack) + FRAME * len(frames)
    over = use_ml and ml != 0 and usage > ml
    check("counts-one", self.instruction_count == count + 1)
    check("only-limit-errors", o[0] == "ret" or exc_in(o, ("TimeLimitError", "MemoryLimitError")))
    check("timeout-when-due", not (polled and t0 - start > tl) or exc_in(o, ("TimeLimitError",)))
    check("no-spurious-timeout", not exc_in(o, ("TimeLimitError",)) or (polled and t1 - start > tl))
    check("memory-stop", not over or o[0] == "raise")
    check("no-spurious-memory-stop", not exc_in(o, ("MemoryLimitError",)) or over)
    check("frame-untouched", self.stack == stack and self.call_stack == frames)


register(check_limits, id="C01.check_limits", prop="C01", target=method("microjs.vm", "VM._check_limits"),
         native=_vm_method("_check_limits"), grid={"Flt": [0.0, 1.0, 1e6]})


def _ctx_method(name):
    def make():
        from microjs.context import Context
        return getattr(Context, name)
    return make


def c_nested_vm(ctx: Obj("Context"), cur: Obj("VM"), has_cur: Bool, tl: Num, use_tl: Bool, start: Flt, depth: IntRange(0, 1000)):
    """Context._nested_vm -- the VM every piece of nested code runs in (eval, Function, accessors read by built-ins, callbacks
    started by the host, Context.eval called again by a host function): with an evaluation running it carries THAT
    evaluation's start time and limit (one deadline per evaluation), is refused with TimeLimitError when the deadline has
    already passed (and only then), counts one more level of nesting (refused beyond the guard), and leaves the running VM
    as it was; without one it is a fresh VM whose clock has not started"""
    assume(start >= 0 and start < 1e12)
    assume(tl >= 0 and tl < 1e9)
    ctx.time_limit = tl if use_tl else None
    ctx.memory_limit = None
    ctx._current_vm = cur if has_cur else None
    cur.start_time = start
    cur.native_depth = depth
    cur.time_limit = tl if use_tl else None
    limit = cur.MAX_NATIVE_DEPTH
    t0 = time.monotonic()
    o = outcome(REAL, ctx)
    t1 = time.monotonic()
    if not has_cur:
        check("fresh.returns-a-vm", o[0] == "ret")
        if o[0] == "ret":
            check("fresh.clock-not-started", o[1].start_time is None)
            check("fresh.limit-of-the-context", same_value(o[1].time_limit, ctx.time_limit))
            check("fresh.no-nesting", o[1].native_depth == 0)
            check("fresh.shares-the-globals", same_ref(o[1].globals, ctx._globals))
    else:
        due = use_tl and t0 - start > tl
        check("running.stopped-when-the-deadline-has-passed", not due or exc_in(o, ("TimeLimitError",)))
        check("running.never-stopped-before-the-deadline", not exc_in(o, ("TimeLimitError",)) or (use_tl and t1 - start > tl))
        check("running.only-limit-errors", o[0] == "ret" or exc_in(o, ("TimeLimitError", "MemoryLimitError")))
        check("running.nesting-guard", not (depth >= limit and not exc_in(o, ("TimeLimitError",))) or exc_in(o, ("MemoryLimitError",)))
        check("running.no-spurious-nesting-stop", not exc_in(o, ("MemoryLimitError",)) or depth >= limit)
        if o[0] == "ret":
            check("running.same-start-time", o[1].start_time == start)
            check("running.same-limit", same_value(o[1].time_limit, ctx.time_limit))
            check("running.one-level-deeper", o[1].native_depth == depth + 1)
            check("running.shares-the-globals", same_ref(o[1].globals, ctx._globals))
        check("running.vm-left-as-it-was", cur.native_depth == depth and cur.start_time == start)
    check("context-still-points-at-the-running-vm", same_ref(ctx._current_vm, cur) if has_cur else ctx._current_vm is None)


register(c_nested_vm, id="C01.Context._nested_vm", prop="C01", target=method("microjs.context", "Context._nested_vm"), native=_ctx_method("_nested_vm"),
         grid={"Flt": [0.0, 1.0, 1e6]})


@effectful
def spec_call_callback(vm, callback, args, this_val=None):
    """callee contract of VM._call_callback used here: it runs script code in `vm`; what is recorded is the state that code
    would see (which VM the context points at, the VM's clock and nesting depth); its result is arbitrary"""
    ctx = ghost_get("ctx", None)
    ghost_set("cb.calls", ghost_get("cb.calls", 0) + 1)
    ghost_set("cb.vm-is-current", same_ref(ctx._current_vm, vm))
    ghost_set("cb.start", vm.start_time)
    ghost_set("cb.depth", vm.native_depth)
    return fresh(JSVal)


def _recording_call_function():
    from microjs.context import Context
    from microjs.vm import VM
    import pyvc.api as A
    real = Context._call_function

    def run(ctx, func, args):
        orig = VM._call_callback

        def rec(self, callback, a, this_val=None):
            A.GHOST.update({"cb.calls": A.GHOST.get("cb.calls", 0) + 1, "cb.vm-is-current": ctx._current_vm is self, "cb.start": self.start_time, "cb.depth": self.native_depth})
            return 0
        VM._call_callback = rec
        try:
            return real(ctx, func, args)
        finally:
            VM._call_callback = orig
    return run


def c_call_function(ctx: Obj("Context"), cur: Obj("VM"), func: Obj("JSFunction"), args: ValList, has_cur: Bool, tl: Num, use_tl: Bool, start: Flt, depth: IntRange(0, 40)):
    """Context._call_function -- how the host (a comparator, a replacer, JSON's toJSON, the embedder) runs a script function:
    in a nested VM that is the context's current VM while the function runs, on the clock of the evaluation that is
    running (or on a clock started now when none is), one nesting level deeper; afterwards the context points at the
    VM it pointed at before"""
    assume(start >= 0 and start < 1e12)
    assume(tl >= 0 and tl < 1e9)
    ctx.time_limit = tl if use_tl else None
    ctx.memory_limit = None
    ctx._current_vm = cur if has_cur else None
    cur.start_time = start
    cur.native_depth = depth
    cur.time_limit = tl if use_tl else None
    ghost_set("ctx", ctx)
    t0 = time.monotonic()
    o = outcome(REAL, ctx, func, args)
    t1 = time.monotonic()
    check("only-limit-errors", o[0] == "ret" or exc_in(o, ("TimeLimitError",)))
    if o[0] == "ret":
        check("the-function-ran-once", ghost_get("cb.calls", 0) == 1)
        check("in-the-current-vm", ghost_get("cb.vm-is-current", False) is True)
        if has_cur:
            check("on-the-running-clock", ghost_get("cb.start", None) == start)
            check("one-level-deeper", ghost_get("cb.depth", None) == depth + 1)
        else:
            check("on-a-clock-started-now", t0 <= ghost_get("cb.start", None) and ghost_get("cb.start", None) <= t1)
    else:
        check("stopped-only-after-the-deadline", has_cur and use_tl and t1 - start > tl)
        check("the-function-did-not-run", ghost_get("cb.calls", 0) == 0)
    check("current-vm-restored", same_ref(ctx._current_vm, cur) if has_cur else ctx._current_vm is None)


register(c_call_function, id="C01.Context._call_function", prop="C01", target=method("microjs.context", "Context._call_function"), native=_recording_call_function,
         summaries={"microjs.vm:VM._call_callback": spec_call_callback}, grid={"Flt": [0.0, 1.0, 1e6]}, prim_args=False)


@groups.group(id="C01.lemma", prop="C01", kind="K1", functions=["microjs.vm:VM._check_limits"])
def c01_lemma(tier="quick", seed=0):
    """bounded overrun: with polling period k (read from the code, 1 <= k <= 1e5), from any instruction
    count c a poll happens within the next k instructions; and the constants are inside their bands"""
    import z3
    out = [ob("C01.lemma.poll-band", isinstance(POLL, int) and 1 <= POLL <= 10 ** 5, "K3", f"polling period read from code: {POLL}"),
           ob("C02.lemma.cost-bands", isinstance(SLOT, int) and isinstance(FRAME, int) and 16 <= SLOT <= 1024 and 64 <= FRAME <= 4096,
              "K3", f"cost constants read from code: {SLOT} B/slot, {FRAME} B/frame")]
    if isinstance(POLL, int) and POLL >= 1:
        c, m = z3.Ints("c m")
        s = z3.Solver()
        s.add(c >= 0, z3.ForAll([m], z3.Not(z3.And(m >= c + 1, m <= c + POLL, m % POLL == 0))))
        out.append(ob("C01.lemma.overrun", s.check() == z3.unsat, "K1", f"forall c exists m in [c+1, c+{POLL}]: m % {POLL} == 0"))
    return out


@groups.group(id="C01.dominance", prop="C01", kind="K3", functions=["microjs.vm:VM._execute", "microjs.vm:VM._call_callback"])
def c01_dominance(tier="quick", seed=0):
    """every opcode dispatch is preceded, in the same loop iteration, by an unconditional limit check"""
    from pyvc import structural as S
    import ast
    out = []
    vm = S.source().modules["microjs.vm"].tree
    sites = []
    for f in ast.walk(vm):
        if not isinstance(f, ast.FunctionDef):
            continue
        loops = [n for n in ast.walk(f) if isinstance(n, ast.While)]
        for call in S.calls_to(f, "_execute_opcode"):
            # innermost enclosing while loop
            encl = [l for l in loops if any(c is call for c in ast.walk(l))]
            sites.append((f.name, call.lineno, encl))
    out.append(ob("C01.dominance.sites", len(sites) >= 2 and "_execute" in {s[0] for s in sites}, "K3",
                  f"_execute_opcode is dispatched from {sorted({s[0] for s in sites})}"))
    for fname, line, encl in sites:
        ok = False
        if encl:
            inner = min(encl, key=lambda l: sum(1 for _ in ast.walk(l)))
            first = inner.body[0]
            ok = isinstance(first, ast.Expr) and isinstance(first.value, ast.Call) and _S_.unparse(first.value) == "self._check_limits()"
            # no `continue` between the check and the dispatch can skip... (a continue would re-enter the loop head = the check)
        out.append(ob(f"C01.dominance.{fname}", ok, "K3",
                      f"dispatch at line {line}: first statement of the enclosing loop is `self._check_limits()`: {ok}",
                      witness="while(true){} / do{}while(true) placed in code run by " + fname))
    # _check_limits itself is not overridden / bypassed: the method is called, not a cached attribute
    return out


@groups.group(id="C01.transparency", prop="C01", kind="K3",
              functions=["microjs.vm", "microjs.context", "microjs.values", "microjs.regex.regex", "microjs.regex.vm"])
def c01_transparency(tier="quick", seed=0):
    """no Python-level handler on the way from _check_limits to Context.eval absorbs or converts a limit error:
    every `except` whose classes cover TimeLimitError/MemoryLimitError re-raises on every path"""
    from pyvc import structural as S
    from microjs.errors import TimeLimitError, MemoryLimitError
    import builtins
    out = []
    n = 0
    for mod in ("microjs.vm", "microjs.context", "microjs.values", "microjs.regex.regex", "microjs.regex.vm", "microjs.compiler"):
        real = S.source().real_modules.get(mod)
        for qual, h, tr in S.handlers_in(mod):
            names = S.handler_type_names(h)
            covers = False
            for nm in names:
                cls = getattr(real, nm, None) or getattr(builtins, nm, None)
                if cls is None and nm == "JSONDecodeError":
                    import json
                    cls = json.JSONDecodeError
                if cls is None:
                    covers = True      # unknown class: conservatively assume it may cover
                elif isinstance(cls, type) and (issubclass(TimeLimitError, cls) or issubclass(MemoryLimitError, cls)):
                    covers = True
            n += 1
            if not covers:
                continue
            # a preceding handler of the same try that catches the limit errors and re-raises makes this one unreachable for them
            shielded = False
            for h2 in tr.handlers:
                if h2 is h:
                    break
                n2 = S.handler_type_names(h2)
                if ("TimeLimitError" in n2 and "MemoryLimitError" in n2 or "JSError" in n2) and S.always_reraises(h2):
                    shielded = True
            ok = shielded or S.always_reraises(h) or not S.may_raise_limit_error(mod, tr.body)
            out.append(ob(f"C01.transparency.{mod.split('.')[-1]}.{qual}.L{h.lineno}", ok, "K3",
                          f"except {names} in {qual}: re-raises limit errors: {ok}",
                          witness=f"a script that loops forever inside the code protected by the handler at {mod}:{h.lineno}",
                          key=f"C01.transparency.{mod.split('.')[-1]}.{qual}"))
    out.append(ob("C01.transparency.inventory", n > 0, "K3", f"{n} handlers inspected"))
    # the script-visible conversion in VM._execute names exactly the catchable classes
    ex = S.fn("microjs.vm", "VM._execute")
    import ast
    conv = sorted({nm for hh in ast.walk(ex) if isinstance(hh, ast.ExceptHandler) for nm in S.handler_type_names(hh)})
    ok = all(nm in ("JSTypeError", "JSReferenceError", "JSRangeError", "JSSyntaxError", "NativeUnwind", "JSError", "TimeLimitError", "MemoryLimitError") for nm in conv)
    # the generic JSError conversion (uncaught throws of nested code) comes only after a handler that re-raises the limit errors
    for tr in [n for n in ast.walk(ex) if isinstance(n, ast.Try)]:
        shield = False
        for hh in tr.handlers:
            nms = S.handler_type_names(hh)
            if "TimeLimitError" in nms and "MemoryLimitError" in nms and S.always_reraises(hh):
                shield = True
            if "JSError" in nms and not shield:
                ok = False
    out.append(ob("C01.transparency.execute-converts-only-script-errors", ok, "K3", f"VM._execute converts {conv} into script exceptions; limit errors are re-raised before the generic conversion"))
    return out


@groups.group(id="C01.one-deadline", prop="C01", kind="K3", functions=["microjs.context:Context"])
def c01_one_deadline(tier="quick", seed=0):
    """every VM constructed while an evaluation may be running takes over its deadline: VM(...) is
    constructed only in Context.eval (entry point) and Context._nested_vm, which copies start_time"""
    from pyvc import structural as S
    import ast
    out = []
    sites = []
    for mod in ("microjs.context", "microjs.vm", "microjs.values"):
        tree = S.source().modules[mod].tree
        for f in ast.walk(tree):
            if isinstance(f, ast.FunctionDef):
                for c in ast.walk(f):
                    if isinstance(c, ast.Call) and isinstance(c.func, ast.Name) and c.func.id == "VM":
                        sites.append((mod, f.name, c.lineno))
    allowed = {("microjs.context", "eval"), ("microjs.context", "_nested_vm")}
    bad = [s for s in sites if (s[0], s[1]) not in allowed]
    out.append(ob("C01.one-deadline.construction-sites", not bad and len(sites) >= 1, "K3",
                  f"VM(...) constructed in {sorted({(s[0].split('.')[-1], s[1]) for s in sites})}; not allowed: {bad}",
                  witness="nested code started from " + str(bad)))
    try:
        nv = S.fn("microjs.context", "Context._nested_vm")
        src = _S_.unparse(nv)
        ok = "vm.start_time = self._current_vm.start_time" in src and "time_limit=self.time_limit" in src.replace(" ", "").replace("time_limit=self.time_limit", "time_limit=self.time_limit")
    except KeyError:
        ok = False
    out.append(ob("C01.one-deadline.nested-copies-start", ok, "K3", "Context._nested_vm copies start_time and time_limit of the running evaluation"))
    # every nested start polls the deadline itself (work made of many short nested runs never reaches the per-VM interval)
    try:
        nv2 = _S_.unparse(S.fn("microjs.context", "Context._nested_vm"))
        ok_poll = "raise TimeLimitError('Execution timeout')" in nv2 and "time.monotonic() - vm.start_time > vm.time_limit" in nv2
    except KeyError:
        ok_poll = False
    out.append(ob("C01.one-deadline.nested-start-polls", ok_poll, "K3", "Context._nested_vm compares the clock with the inherited deadline before any nested code runs",
                  witness="function f(d){ if(d==0) return 0; for(var i=0;i<10;i++) eval('f('+(d-1)+')'); return 0 } f(9)"))
    # a match runs against the deadline of the evaluation that starts it: every use of a RegExp object in the string and
    # regexp methods first installs the current VM's deadline check on it
    vmt = S.module("microjs.vm")
    unarmed, sites = [], 0
    for f in ast.walk(vmt):
        if isinstance(f, ast.FunctionDef) and f.name in ("_make_string_method", "_make_regexp_method"):
            for n in ast.walk(f):
                if isinstance(n, ast.If) and isinstance(n.test, ast.Call) and ast.unparse(n.test.func) == "isinstance" and len(n.test.args) == 2 \
                        and ast.unparse(n.test.args[1]) == "JSRegExp" and isinstance(n.test.args[0], ast.Name):
                    sites += 1
                    first = ast.unparse(n.body[0]) if n.body else ""
                    if first != f"self._arm_regex({n.test.args[0].id})":
                        unarmed.append(f"{f.name}:{n.lineno}")
            if f.name == "_make_regexp_method":
                for g in ast.walk(f):
                    if isinstance(g, ast.FunctionDef) and g is not f and any(isinstance(c, ast.Call) and isinstance(c.func, ast.Attribute) and c.func.attr in ("test", "exec") for c in ast.walk(g)):
                        sites += 1
                        if "self._arm_regex(" not in ast.unparse(g):
                            unarmed.append(f"{f.name}.{g.name}")
    try:
        arm = _S_.unparse(S.fn("microjs.vm", "VM._arm_regex"))
        ok_arm = "time.monotonic() - self.start_time > self.time_limit" in arm and "_poll_callback" in arm
    except KeyError:
        ok_arm = False
    out.append(ob("C01.one-deadline.regex-armed-at-use", ok_arm and sites >= 6 and not unarmed, "K3",
                  f"{sites} uses of a RegExp object in the string/regexp methods, not preceded by _arm_regex: {unarmed}; _arm_regex installs the running VM's deadline: {ok_arm}",
                  witness="eval 1: var re = /(x+)+y/; (wait past the limit) eval 2: re.test('xxxxxxxxxxxx') is stopped at once"))
    run = S.fn("microjs.vm", "VM.run")
    rs = _S_.unparse(run)
    ok2 = "if self.start_time is None:" in rs and rs.count("self.start_time = time.monotonic()") == 1
    out.append(ob("C01.one-deadline.run-keeps-start", ok2, "K3", "VM.run starts the clock only when no deadline was inherited"))
    return out


@groups.group(id="C01.current-vm", prop="C01", kind="K3", functions=["microjs.context:Context.eval", "microjs.context:Context._create_eval_function"])
def c01_current_vm(tier="quick", seed=0):
    """the running VM (whose deadline nested code and RegExp objects inherit) is tracked by a stack discipline:
    the entry point sets it and clears it in a finally; every other site that sets it saves the previous value
    first and restores exactly that value in a finally"""
    from pyvc import structural as S
    import ast
    out = []
    tree = S.module("microjs.context")
    sites = 0
    for f in ast.walk(tree):
        if not isinstance(f, (ast.FunctionDef,)):
            continue
        own = [n for n in ast.walk(f) if isinstance(n, ast.Assign) and len(n.targets) == 1 and isinstance(n.targets[0], ast.Attribute)
               and n.targets[0].attr == "_current_vm"]
        # only the innermost function containing the assignment
        own = [n for n in own if not any(n in list(ast.walk(g)) for g in ast.walk(f) if isinstance(g, ast.FunctionDef) and g is not f)]
        if not own or f.name == "__init__":
            continue
        sites += 1
        src = _S_.unparse(f)
        tries = [t for t in ast.walk(f) if isinstance(t, ast.Try) and t.finalbody]
        restores = [n for t in tries for st in t.finalbody for n in ast.walk(st) if n in own]
        sets = [n for n in own if n not in restores]
        ok = len(sets) == 1 and len(restores) == 1
        detail = ""
        if ok:
            rv = restores[0].value
            if f.name == "eval" and isinstance(rv, ast.Constant):
                ok = rv.value is None
                detail = "entry point: cleared in finally"
            else:
                # restored value must be a name assigned from <x>._current_vm before the set
                ok = isinstance(rv, ast.Name)
                if ok:
                    saves = [n for n in ast.walk(f) if isinstance(n, ast.Assign) and len(n.targets) == 1 and isinstance(n.targets[0], ast.Name)
                             and n.targets[0].id == rv.id and isinstance(n.value, ast.Attribute) and n.value.attr == "_current_vm"]
                    ok = len(saves) == 1 and saves[0].lineno < sets[0].lineno
                detail = "nested entry: previous value saved before the set and restored in finally"
        out.append(ob(f"C01.current-vm.{f.name}", ok, "K3", detail if ok else f"{f.name}: _current_vm is set {len(sets)}x and restored {len(restores)}x in finally; restore value {_S_.unparse(restores[0].value) if restores else None}",
                      witness="eval('1'); /(a*)*b/.test(long) after an indirect eval (the RegExp gets no deadline)"))
    out.append(ob("C01.current-vm.sites", sites >= 2, "K3", f"{sites} functions set Context._current_vm"))
    return out


@groups.group(id="C01.regex-polls", prop="C01", kind="K3", functions=["microjs.regex.vm:RegexVM"])
def c01_regex_polls(tier="quick", seed=0):
    """every backtracking loop of the regex VM (main matcher, lookahead and lookbehind sub-matchers) counts its steps
    and polls the deadline callback every poll_interval steps, raising RegexTimeoutError"""
    from pyvc import structural as S
    import ast
    out = []
    tree = S.module("microjs.regex.vm")
    loops = 0
    for f in ast.walk(tree):
        if not isinstance(f, ast.FunctionDef):
            continue
        for w in [n for n in f.body if isinstance(n, ast.While)] + [n for st in f.body if isinstance(st, (ast.If, ast.Try, ast.With)) for n in ast.walk(st) if isinstance(n, ast.While)]:
            if not (isinstance(w.test, ast.Constant) and w.test.value is True):
                continue
            loops += 1
            head = w.body[:3]
            txt = "\n".join(_S_.unparse(x) for x in head)
            counter = [_S_.unparse(x.target) for x in head if isinstance(x, ast.AugAssign) and isinstance(x.op, ast.Add)
                       and isinstance(x.value, ast.Constant) and x.value.value == 1]
            counts = bool(counter)
            # either the step counter modulo the interval, or a counter of its own that runs on across attempts and is
            # cleared only where the poll happens
            since = [c for c in counter if f"if {c} >= self.poll_interval:\n    {c} = 0" in txt]
            polls = counts and (f"{counter[0]} % self.poll_interval == 0" in txt or bool(since)) and "self.poll_callback()" in txt and "raise RegexTimeoutError" in txt
            if since:
                fld = since[0].split(".")[-1]
                resets = [(g.name, n.lineno) for g in ast.walk(tree) if isinstance(g, ast.FunctionDef) and g.name != "__init__" for n in ast.walk(g)
                          if isinstance(n, ast.Assign) and any(isinstance(t, ast.Attribute) and t.attr == fld for t in n.targets)]
                out.append(ob(f"C01.regex-polls.{f.name}.poll-counter-runs-on", len(resets) == 1, "K3",
                              f"{since[0]} is cleared only where the poll happens (assignments outside __init__: {resets}): a search made of many short attempts polls as often as one long attempt",
                              witness="'a'.repeat(100000) searched with /a{20}b/ under time_limit=0.3"))
            out.append(ob(f"C01.regex-polls.{f.name}", counts and polls, "K3",
                          f"{f.name}: loop at line {w.lineno} {'counts steps and polls the deadline first' if counts and polls else 'does not start by counting a step and polling the deadline'}",
                          witness="/(?<=(?:a|a)*c)x/.test('aaaaaaaaaaaaaaaaaaaaaaaaaaaaax') under a time limit"))
    from contracts.C10_regex_total import step_counter_discipline
    out.append(step_counter_discipline("C01"))
    # sub-matchers of look-around assertions either are that loop (recursive call) or have their own counted loop
    subs = [f.name for f in ast.walk(tree) if isinstance(f, ast.FunctionDef) and ("lookahead" in f.name or "lookbehind" in f.name)]
    out.append(ob("C01.regex-polls.inventory", loops >= 1 and (loops >= 1 + len(subs)), "K3",
                  f"{loops} backtracking loops inspected; separate look-around matchers: {subs or 'none (they run on the shared loop)'}"))
    return out


# ---- bounded: construct x placement library under a real time limit ---------------------------------
LOOPS = {
    "while": "while(true){}",
    "for": "for(;;){}",
    "do": "do{}while(true)",
    "recursion": "(function f(n){ return n > 200 ? 0 : f(n+1) + f(n+1) })(0)",
}
PLACES = {
    "top": "{L}",
    "function": "(function(){ {L} })()",
    "arrow": "(() => { {L} })()",
    "constructor": "function K(){ {L} } new K()",
    "map-callback": "[1].map(function(x){ {L} })",
    "forEach-callback": "[1].forEach(function(x){ {L} })",
    "filter-callback": "[1].filter(function(x){ {L} })",
    "reduce-callback": "[1,2].reduce(function(a,b){ {L} })",
    "sort-comparator": "[2,1].sort(function(a,b){ {L} })",
    "find-callback": "[1].find(function(x){ {L} })",
    "getter": "({get p(){ {L} }}).p",
    "setter": "({set p(v){ {L} }}).p = 1",
    "valueOf": "({valueOf:function(){ {L} }}) + 1",
    "toString-conv": "'' + ({toString:function(){ {L} }})",
    "call": "(function(){ {L} }).call(null)",
    "apply": "(function(){ {L} }).apply(null, [])",
    "bind": "(function(){ {L} }).bind(null)()",
    "indirect-eval": "eval('{L}')",
    "new-Function": "new Function('{L}')()",
    "replace-fn": "'a'.replace(/a/, 'b') + (function(){ {L} })()",
}
REGEX = {
    "regex-test": "/(a*)*b/.test('aaaaaaaaaaaaaaaaaaaaaaaaaaaaaaaa')",
    "regex-exec": "/(a*)*b/.exec('aaaaaaaaaaaaaaaaaaaaaaaaaaaaaaaa')",
    "regex-match": "'aaaaaaaaaaaaaaaaaaaaaaaaaaaaaaaa'.match(/(a*)*b/)",
    "regex-replace": "'aaaaaaaaaaaaaaaaaaaaaaaaaaaaaaaa'.replace(/(a*)*b/, 'x')",
    "regex-search": "'aaaaaaaaaaaaaaaaaaaaaaaaaaaaaaaa'.search(/(a*)*b/)",
    "regex-split": "'aaaaaaaaaaaaaaaaaaaaaaaaaaaaaaaa'.split(/(a*)*b/)",
    "regex-ctor": "new RegExp('(a*)*b').test('aaaaaaaaaaaaaaaaaaaaaaaaaaaaaaaa')",
    "regex-string-pattern": "'aaaaaaaaaaaaaaaaaaaaaaaaaaaaaaaa'.match('(a*)*b')",
    "regex-lookahead": "/(?=(a*)*b)/.test('aaaaaaaaaaaaaaaaaaaaaaaaaaaaaaaa')",
    "regex-lookbehind": "/(?<=(?:a|a)*c)x/.test('aaaaaaaaaaaaaaaaaaaaaaaaaaaaaaaaaaax')",
    "regex-neg-lookahead": "/(?!(a*)*b)a/.test('aaaaaaaaaaaaaaaaaaaaaaaaaaaaaaaa')",
    "regex-after-eval": "eval('1'); new RegExp('(a*)*b').test('aaaaaaaaaaaaaaaaaaaaaaaaaaaaaaaa')",
    "regex-after-Function": "new Function('return 1')(); new RegExp('(a*)*b').test('aaaaaaaaaaaaaaaaaaaaaaaaaaaaaaaa')",
    "regex-in-callback-after-eval": "[1].map(function(){ eval('1'); return new RegExp('(a*)*b').test('aaaaaaaaaaaaaaaaaaaaaaaaaaaaaaaa') })",
    "regex-sticky": "/(a*)*b/y.test('aaaaaaaaaaaaaaaaaaaaaaaaaaaaaaaa')",
    "regex-lookahead-in-loop": "/((?=a)a+)+b/.test('aaaaaaaaaaaaaaaaaaaaaaaaaaaaaac')",
    "regex-lookbehind-in-loop": "/(a+(?<=a))+b/.test('aaaaaaaaaaaaaaaaaaaaaaaaaaaaaac')",
    # searches made of very many SHORT attempts (one per start position / per match): no single attempt reaches the polling interval
    "regex-short-attempts-test": "var s = 'a'.repeat(3000000); /a{20}b/.test(s)",
    "regex-short-attempts-search": "var s = 'ab'.repeat(2000000); s.search(/c/)",
    "regex-short-attempts-split": "var s = 'a'.repeat(3000000); s.split(/a{20}b/).length",
    "regex-short-attempts-replace": "'a'.repeat(3000000).replace(/a/g, 'b').length",
    "regex-short-attempts-replaceAll": "'a'.repeat(3000000).replaceAll(/a/g, 'b').length",
    "regex-short-attempts-match": "'a'.repeat(3000000).match(/a/g).length",
    "regex-short-attempts-split-each": "'a'.repeat(3000000).split(/a/).length",
    "regex-short-attempts-lookahead": "'ab'.repeat(2000000).replace(/(?=b)c/g, '').length",
    "regex-short-attempts-sticky-global": "'a'.repeat(3000000).replace(/a/gy, 'b').length",
    # nested code whose cost is in the front end (parser, compiler): it is part of the evaluation as well
    "regex-none.parse-nested-parens": "eval('('.repeat(4000) + '1' + ')'.repeat(4000))",
    "regex-none.parse-unclosed-parens": "try { eval('('.repeat(4000) + '1') } catch (e) { 1 }",
    "regex-none.parse-nested-parens-Function": "new Function('return ' + '('.repeat(4000) + '1' + ')'.repeat(4000))()",
    "regex-none.parse-long-sum": "eval('1' + '+1'.repeat(200))",
    "regex-none.parse-many-statements": "eval('var q = 1;'.repeat(3000))",
}


# work made of very many SHORT runs of script code, each started by a built-in (a fresh nested VM for eval / Function /
# accessors read by Object.*, a nested run loop for callbacks and conversions): no single run reaches the per-VM polling
# interval, so the deadline must also be polled where such a run starts
FANOUT = {
    "eval-tree": "function f(d){ if(d==0) return 0; for(var i=0;i<10;i++) eval('f('+(d-1)+')'); return 0 } f(9)",
    "indirect-eval-tree": "var e = eval; function f(d){ if(d==0) return 0; for(var i=0;i<10;i++) e('f('+(d-1)+')'); return 0 } f(9)",
    "Function-tree": "function f(d){ if(d==0) return 0; for(var i=0;i<10;i++) new Function('return f('+(d-1)+')')(); return 0 } f(9)",
    "getter-values-tree": "function mk(d){ var o={}; for(var i=0;i<8;i++){ Object.defineProperty(o,'p'+i,{get:function(){ if(d>0) Object.values(mk(d-1)); return 1 },enumerable:true}) } return o } Object.values(mk(9))",
    "getter-entries-tree": "function mk(d){ var o={}; for(var i=0;i<8;i++){ Object.defineProperty(o,'p'+i,{get:function(){ if(d>0) Object.entries(mk(d-1)); return 1 },enumerable:true}) } return o } Object.entries(mk(9))",
    "setter-assign-tree": "function mk(d){ var o={}; for(var i=0;i<8;i++){ Object.defineProperty(o,'p'+i,{set:function(v){ if(d>0) Object.assign(mk(d-1), src) },enumerable:true}) } return o } var src={p0:1,p1:1,p2:1,p3:1,p4:1,p5:1,p6:1,p7:1}; Object.assign(mk(9), src)",
    "forEach-tree": "function f(d){ if(d==0) return 0; [1,2,3,4,5,6,7,8,9,10].forEach(function(){ f(d-1) }); return 0 } f(9)",
    "sort-tree": "function f(d){ if(d==0) return 0; [3,1,2,5,4].sort(function(a,b){ f(d-1); return a-b }); return 0 } f(9)",
    "replace-tree": "function f(d){ if(d==0) return ''; return 'aaaaaaaaaa'.replace(/a/g, function(){ return f(d-1) }) } f(9)",
    "toString-tree": "function mk(d){ return {toString:function(){ if(d>0){ for(var i=0;i<10;i++) ''+mk(d-1) } return '' }} } ''+mk(9)",
    "valueOf-tree": "function mk(d){ return {valueOf:function(){ if(d>0){ for(var i=0;i<10;i++) mk(d-1) * 1 } return 0 }} } mk(9) * 1",
    "getter-tree": "function mk(d){ return {get p(){ if(d>0){ for(var i=0;i<10;i++) mk(d-1).p } return 0 }} } mk(9).p",
    "call-tree": "function f(d){ if(d==0) return 0; for(var i=0;i<10;i++) f.call(null, d-1); return 0 } f(9)",
    "json-reviverless-tree": "function f(d){ if(d==0) return 0; for(var i=0;i<10;i++) JSON.parse('[1,2,3]').map(function(){ f(d-1) }); return 0 } f(9)",
}


def _run_case(src, T, mem):
    import time as _t
    from microjs import Context
    from microjs.errors import TimeLimitError, MemoryLimitError, JSError
    c = Context(time_limit=T, memory_limit=mem)
    t0 = _t.process_time()       # CPU time of this worker: what the evaluation itself spent, however loaded the machine is
    try:
        r = c.eval(src)
        kind = "returned " + repr(r)[:40]
    except TimeLimitError:
        kind = "TimeLimitError"
    except MemoryLimitError:
        kind = "MemoryLimitError"
    except JSError as e:
        kind = "JSError: " + str(e)[:60]
    except BaseException as e:  # noqa
        kind = "HOST " + type(e).__name__ + ": " + str(e)[:60]
    return kind, _t.process_time() - t0


def _case_worker(args):
    import signal
    src, T, mem = args

    def boom(*a):
        raise SystemExit(9)
    signal.signal(signal.SIGPROF, boom)
    signal.signal(signal.SIGALRM, boom)
    signal.setitimer(signal.ITIMER_PROF, 15)      # 15 s of CPU time ...
    signal.alarm(300)                              # ... (and a wall-clock backstop far beyond what load can explain)
    try:
        return _run_case(src, T, mem)
    except SystemExit:
        return "HANG (killed after 15 s of CPU time)", 15.0
    finally:
        signal.setitimer(signal.ITIMER_PROF, 0)
        signal.alarm(0)


@groups.group(id="C01.bounded.placements", prop="C01", kind="B", functions=["microjs.context:Context.eval"])
def c01_bounded(tier="quick", seed=0):
    """every looping construct x every place script code can run x {bare, try/catch, try/finally}: the evaluation
    ends with TimeLimitError within T + overrun (bounded stand-in, also the replay library for refuted obligations)"""
    import multiprocessing as mp
    T = 0.25
    cases = []
    for pn, pt in PLACES.items():
        loops = LOOPS if tier == "thorough" else {"while": LOOPS["while"], "do": LOOPS["do"]}
        for ln, lt in loops.items():
            body = pt.replace("{L}", lt)
            for wn, wrap in (("bare", "{B}"), ("try-catch", "try { {B} } catch(e) { 1 }"), ("try-finally", "try { {B} } finally { 2 }"),
                             ("inner-try", None)):
                if wrap is None:
                    src = pt.replace("{L}", "try { " + lt + " } catch(e) { }")
                else:
                    src = wrap.replace("{B}", body)
                cases.append((f"{pn}.{ln}.{wn}", src))
    for rn, rt in REGEX.items():
        for wn, wrap in (("bare", "{B}"), ("try-catch", "try { {B} } catch(e) { 1 }")):
            cases.append((f"{rn}.{wn}", wrap.replace("{B}", rt)))
    for fn, ft in FANOUT.items():
        for wn, wrap in (("bare", "{B}"), ("try-catch", "try { {B} } catch(e) { 1 }")):
            cases.append((f"fanout-{fn}.{wn}", wrap.replace("{B}", ft)))
    with mp.get_context("fork").Pool(8) as pool:
        res = pool.map(_case_worker, [(src, T, None if i % 2 else 10 ** 7) for i, (_, src) in enumerate(cases)])
    out = []
    bad = []
    for (name, src), (kind, dt) in zip(cases, res):
        finite = name.split(".")[0].startswith("regex")      # may legitimately finish (or fail) before the deadline
        ok = (kind == "TimeLimitError" or (finite and not kind.startswith("HANG") and not kind.startswith("HOST"))) and dt < T + 3.0
        if not ok:
            bad.append((name, src, kind, round(dt, 2)))
    by = {}
    for name, src, kind, dt in bad:
        by.setdefault(name.rsplit(".", 1)[0] if name.split(".")[0].startswith("regex") else name.split(".")[0], []).append((name, src, kind, dt))
    groups_ = sorted({(n.split(".")[0]) for n, _ in cases})
    for g in groups_:
        fails = [b for b in bad if b[0].split(".")[0] == g]
        out.append(ob(f"C01.bounded.placements.{g}", not fails, "B",
                      "ok" if not fails else f"{fails[0][0]}: {fails[0][2]} after {fails[0][3]}s",
                      witness=(fails[0][1] if fails else None), confirmed=True if fails else None,
                      domain=sum(1 for n, _ in cases if n.split(".")[0] == g), key=f"C01.bounded.placements.{g}"))
    return out


def _reentrant_case(name):
    """evaluations that call back into the host, which calls Context.eval / Context.get / Context.set of the same context again"""
    import signal
    import time as _t
    from microjs import Context
    from microjs.errors import TimeLimitError, JSError

    def boom(*a):
        raise SystemExit(9)
    signal.signal(signal.SIGALRM, boom)
    signal.signal(signal.SIGPROF, boom)
    signal.setitimer(signal.ITIMER_PROF, 20)      # CPU time; wall-clock backstop below
    signal.alarm(300)
    T = 0.3
    ctx = Context(time_limit=0 if name == "zero-limit" else T)
    spin = "function spin(ms){ var t = Date.now(); while (Date.now() - t < ms) {} } "
    progs = {
        # after the host's inner eval has returned, nested code of the outer evaluation still runs on the outer deadline
        "inner-eval-then-nested": (lambda: ctx.eval("1"), spin + "function level(n){ if (n == 0) return 'done'; spin(150); py(); return eval('level(' + (n - 1) + ')') } level(40)"),
        "inner-eval-then-Function": (lambda: ctx.eval("1"), spin + "function level(n){ if (n == 0) return 'done'; spin(150); py(); return new Function('return level(' + (n - 1) + ')')() } level(40)"),
        "inner-eval-then-regex": (lambda: ctx.eval("1"), "py(); new RegExp('(a*)*b').test('aaaaaaaaaaaaaaaaaaaaaaaaaaaaaaaaaaaaaaaaaaaa')"),
        "inner-eval-then-getter-values": (lambda: ctx.eval("1"), spin + "function mk(n){ var o = {}; Object.defineProperty(o, 'p', {get: function(){ spin(150); py(); return n ? Object.values(mk(n - 1)) : 0 }, enumerable: true}); return o } Object.values(mk(40))"),
        "inner-get-set-then-nested": (lambda: (ctx.set("k", [1, 2]), ctx.get("k"))[1], spin + "function level(n){ if (n == 0) return 'done'; spin(150); py(); return eval('level(' + (n - 1) + ')') } level(40)"),
        # the inner evaluation is part of the outer one: it cannot outlive the outer deadline by much, nor be swallowed
        "inner-eval-loops": (lambda: ctx.eval("while (true) {}"), "try { py() } catch (e) { } 'swallowed'"),
        "inner-eval-loops-in-callback": (lambda: ctx.eval("while (true) {}"), "[1, 2, 3].map(function () { try { py() } catch (e) { } return 1 }).join()"),
        "inner-eval-many-short": (lambda: ctx.eval("1 + 1"), "while (true) { py() }"),
        "inner-eval-recursion": (lambda: ctx.eval("py()"), "py()"),
        "zero-limit": (lambda: 0, "while (true) {}"),
    }
    host, src = progs[name]
    ctx.set("py", host)
    t0 = _t.process_time()
    try:
        try:
            r = ctx.eval(src)
            kind = "returned " + repr(r)[:40]
        except TimeLimitError:
            kind = "TimeLimitError"
        except JSError as e:
            kind = "JSError: " + str(e)[:70]
        except SystemExit:
            kind = "HANG (killed after 20 s of CPU time)"
        except BaseException as e:  # noqa
            kind = "HOST " + type(e).__name__ + ": " + str(e)[:60]
    finally:
        signal.setitimer(signal.ITIMER_PROF, 0)
        signal.alarm(0)
    return name, src, kind, _t.process_time() - t0


REENTRANT = ["inner-eval-then-nested", "inner-eval-then-Function", "inner-eval-then-regex", "inner-eval-then-getter-values", "inner-get-set-then-nested",
             "inner-eval-loops", "inner-eval-loops-in-callback", "inner-eval-many-short", "inner-eval-recursion", "zero-limit"]


@groups.group(id="C01.bounded.reentrant", prop="C01", kind="B", functions=["microjs.context:Context.eval", "microjs.context:Context._nested_vm", "microjs.vm:VM._check_limits"])
def c01_reentrant(tier="quick", seed=0):
    """host functions that use the context again while an evaluation is running (Context.eval/get/set from inside a
    callable the script calls): the outer evaluation still ends by its own deadline; and time_limit=0 is a limit"""
    import multiprocessing as mp
    with mp.get_context("fork").Pool(5) as pool:
        res = pool.map(_reentrant_case, REENTRANT)
    out = []
    for name, src, kind, dt in res:
        if name == "inner-eval-recursion":
            ok = not kind.startswith("HOST") and not kind.startswith("HANG") and not kind.startswith("returned")   # a JSError (depth guard or deadline), never a host RecursionError
        else:
            ok = kind == "TimeLimitError" and dt < 0.3 + 3.0
        out.append(ob(f"C01.bounded.reentrant.{name}", ok, "B", f"{kind} after {dt:.2f}s (time_limit={'0' if name == 'zero-limit' else '0.3'})",
                      witness=None if ok else f"ctx.set('py', <host function using ctx again>); ctx.eval({src!r})", confirmed=None if ok else True, domain=1))
    return out


@groups.group(id="C01.struct.process-state", prop="C01", kind="K3", functions=["microjs (module-level state)"])
def c01_process_state(tier="quick", seed=0):
    """a deadline belongs to one evaluation: nothing that carries one (a compiled regular expression with its poll
    callback, a VM) can be kept in the process beyond it, because no module-level or class-level container is ever
    written, nothing is stored on a class, and no function memoises (the analysis of C12)"""
    from contracts.C12_context import process_state
    return process_state("C01", tier, seed)


def _history_case(args):
    """the deadline of an evaluation is its own: (a) a pattern text first used where no limit applies is still stopped
    in a limited context; (b) after a timed-out evaluation a later harmless one with the same pattern text, in a new
    context or in the same one, is not stopped by the old deadline"""
    import time as _t
    name, src = args
    from microjs import Context
    from microjs.errors import TimeLimitError
    T = 0.25
    long_subject = "a" * 32
    short = src.replace(long_subject, "a" * 10)
    bad = []
    if short == src:
        return name, ["placement has no subject to shorten"]
    try:
        Context().eval(short)                                   # warm-up without any limit
    except Exception as e:  # noqa
        bad.append(f"warm-up failed: {type(e).__name__}")
    k, dt = _run_case(src, T, None)
    if k != "TimeLimitError" or dt > T + 3.0:
        bad.append(f"after a warm-up in an unlimited context: {k} after {dt:.2f}s (time_limit={T})")
    _t.sleep(T + 0.1)
    k, dt = _run_case(short, 5.0, None)
    if not k.startswith("returned") and not (k == "TimeLimitError" and dt >= 4.5):
        bad.append(f"harmless evaluation in a NEW context after a timed-out one: {k} after {dt:.2f}s (time_limit=5)")
    c = Context(time_limit=1.0)
    t1 = None
    try:
        c.eval("function rx(s) { return " + short.replace("'" + "a" * 10 + "'", "s") + " } rx('" + "a" * 10 + "'); var kept = /(a*)*b/, kept2 = new RegExp('(a*)*b')")
        _t.sleep(1.1)
        t1 = _t.time()
        c.eval("rx('" + "a" * 10 + "'); kept.test('" + "a" * 10 + "'); kept2.exec('" + "a" * 10 + "'); '" + "a" * 10 + "'.match(kept); '" + "a" * 10 + "'.replace(kept2, ''); '" + "a" * 10 + "'.search(kept); '" + "a" * 10 + "'.split(kept2)")
    except TimeLimitError:
        # stopped BEFORE its own deadline: the deadline of the earlier evaluation was applied.  (Stopped after a full
        # second means the machine is overloaded: inconclusive, not a violation.)
        if t1 is not None and _t.time() - t1 < 0.9:
            bad.append(f"second evaluation in the SAME context was stopped {_t.time() - t1:.2f}s after it started (time_limit=1.0): the deadline of the first evaluation was applied")
    except Exception as e:  # noqa
        bad.append(f"same-context history failed: {type(e).__name__}: {str(e)[:60]}")
    return name, bad


@groups.group(id="C01.bounded.history", prop="C01", kind="B", functions=["microjs.context:Context.eval", "microjs.values:JSRegExp"])
def c01_history(tier="quick", seed=0):
    import multiprocessing as mp
    names = ["regex-test", "regex-exec", "regex-ctor", "regex-string-pattern", "regex-match", "regex-replace", "regex-lookahead", "regex-sticky"]
    cases = [(n, REGEX[n]) for n in names]
    with mp.get_context("fork").Pool(8) as pool:
        res = pool.map(_history_case, cases)
    return [ob(f"C01.bounded.history.{n}", not b, "B", "deadline independent of earlier evaluations" if not b else b[0],
               witness=(REGEX[n] if b else None), confirmed=True if b else None, domain=3) for n, b in res]
