"""C20 - RegExp lastIndex protocol and regex-driven string methods.
B: exhaustive histories (length <= 3 quick / 4 thorough) over {exec, test, lastIndex = k, read} x flag sets x patterns
(including ones that match empty) x subjects against an explicit state machine (ECMA-262 22.2.7.2 RegExpBuiltinExec)
whose matcher is Python's `re` on patterns where both dialects coincide; String match/replace/replaceAll/split/search
against the ECMAScript algorithms (22.1.3 / 22.2.6) run over the same matcher, replacement templates by GetSubstitution."""
import itertools, random, re as _re, json, math
from pyvc import groups
from pyvc.groups import ob

PATTERNS = ["a", "a*", "", "b|", "(a)(b)?", "[ab]+", "a(?=b)", "^a", "b$", "\\\\b", "aa", "a.", "(a)a", "[ab][ab]", "a{2}|b", "(a*)b", "(x*)a(b*)"]
PY = {"a": "a", "a*": "a*", "": "", "b|": "b|", "(a)(b)?": "(a)(b)?", "[ab]+": "[ab]+", "a(?=b)": "a(?=b)", "^a": "^a", "b$": "b$", "\\\\b": r"\b",
      "aa": "aa", "a.": "a.", "(a)a": "(a)a", "[ab][ab]": "[ab][ab]", "a{2}|b": "a{2}|b", "(a*)b": "(a*)b", "(x*)a(b*)": "(x*)a(b*)"}
FLAGS = ["", "g", "y", "gy", "gi", "gm"]
SUBJECTS = ["", "a", "ab", "baab", "aXa", "A\na", "xaaay", "aaaa", "ababa"]


def matcher(pat, flags):
    f = 0
    if "i" in flags:
        f |= _re.I
    if "m" in flags:
        f |= _re.M
    return _re.compile(PY[pat], f)


def to_length(v):
    """ToLength(ToIntegerOrInfinity(v)) for the lastIndex values used below"""
    if v is None or v != v:
        return 0
    if v in (float("inf"),):
        return 2 ** 53 - 1
    if v == float("-inf"):
        return 0
    return max(0, min(int(v), 2 ** 53 - 1))


class Model:
    """RegExpBuiltinExec over a regex object state (lastIndex)"""
    def __init__(self, pat, flags):
        self.rx, self.flags, self.lastIndex = matcher(pat, flags), flags, 0

    def exec(self, s):
        g, y = "g" in self.flags, "y" in self.flags
        li = to_length(self.lastIndex) if (g or y) else 0
        if li > len(s):
            if g or y:
                self.lastIndex = 0
            return None
        m = self.rx.match(s, li) if y else self.rx.search(s, li)
        if m is None:
            if g or y:
                self.lastIndex = 0
            return None
        if g or y:
            self.lastIndex = m.end()
        return [m.group(0)] + [m.group(i) for i in range(1, (m.re.groups or 0) + 1)], m.start()


def _hist_chunk(items):
    from microjs import Context
    bad = []
    c = Context(time_limit=10)
    n = 0
    for pat, flags, subj, hist in items:
        n += 1
        mdl = Model(pat, flags)
        want = []
        js = [f"var re = new RegExp({json.dumps(pat.replace(chr(92)*2, chr(92)))}, '{flags}'); var out = [];"]
        for op in hist:
            if op[0] == "exec":
                r = mdl.exec(subj)
                want.append(None if r is None else [r[0], r[1]])
                js.append(f"var m = re.exec({json.dumps(subj)}); out.push(m === null ? null : [[].concat(m).map(function(x){{ return x === undefined ? null : x }}), m.index]);")
            elif op[0] == "test":
                want.append(mdl.exec(subj) is not None)
                js.append(f"out.push(re.test({json.dumps(subj)}));")
            elif op[0] == "set":
                mdl.lastIndex = op[1]
                want.append("set")
                lit = {float("inf"): "Infinity", None: "undefined"}.get(op[1], repr(op[1]))
                js.append(f"re.lastIndex = {lit}; out.push('set');")
            else:
                want.append(mdl.lastIndex)
                js.append("out.push(re.lastIndex);")
        want.append(mdl.lastIndex)
        js.append("out.push(re.lastIndex); out")
        src = "\n".join(js)
        try:
            got = c.eval(src)
        except Exception as e:  # noqa
            got = "ERR " + type(e).__name__ + ": " + str(e)[:60]
        if got != want:
            bad.append((flags, src, repr(got)[:160], repr(want)[:160]))
            if len(bad) > 5:
                break
    return n, bad


@groups.group(id="C20.bounded.histories", prop="C20", kind="B", functions=["microjs.values:JSRegExp.exec", "microjs.values:JSRegExp.test", "microjs.regex.regex:RegExp.exec"])
def c20_histories(tier="quick", seed=0):
    import multiprocessing as mp
    ops = [("exec",), ("test",), ("read",), ("set", 0), ("set", 1), ("set", 2), ("set", 9), ("set", -1), ("set", 1.5), ("set", float("inf")), ("set", None)]
    L = 3 if tier == "quick" else 4
    rng = random.Random(seed)
    items = []
    hists = [h for n in range(1, L + 1) for h in itertools.product(ops, repeat=n)]
    for pat in PATTERNS:
        for flags in FLAGS:
            for subj in SUBJECTS:
                hs = rng.sample(hists, 12 if tier == "quick" else 200)
                for h in hs:
                    items.append((pat, flags, subj, h))
    chunks = [items[i::16] for i in range(16)]
    with mp.get_context("fork").Pool(16) as pool:
        rs = pool.map(_hist_chunk, chunks)
    counts, fails = {}, {}
    for pat, flags, subj, h in items:
        counts[flags or "none"] = counts.get(flags or "none", 0) + 1
    for n, bad in rs:
        for flags, src, got, want in bad:
            fails.setdefault(flags or "none", []).append((src, got, want))
    return [ob(f"C20.bounded.histories.flags-{f}", f not in fails, "B", f"{n} histories" if f not in fails else f"{fails[f][0][0][:140]} ... -> {fails[f][0][1]} expected {fails[f][0][2]}",
               witness=(fails[f][0][0] if f in fails else None), confirmed=True if f in fails else None, domain=n, key=f"C20.bounded.histories.flags-{f}") for f, n in sorted(counts.items())]


# ---- string methods over the abstract matcher ---------------------------------------------------------------------------
def get_substitution(matched, s, pos, caps, repl):
    """22.1.3.19.1 GetSubstitution (no named groups)"""
    out, i, m = [], 0, len(caps)
    while i < len(repl):
        ch = repl[i]
        if ch == "$" and i + 1 < len(repl):
            nx = repl[i + 1]
            if nx == "$":
                out.append("$"); i += 2; continue
            if nx == "&":
                out.append(matched); i += 2; continue
            if nx == "`":
                out.append(s[:pos]); i += 2; continue
            if nx == "'":
                out.append(s[pos + len(matched):]); i += 2; continue
            if nx.isdigit() and nx.isascii():
                d2 = repl[i + 1:i + 3]
                if len(d2) == 2 and d2[1].isdigit() and d2[1].isascii() and 1 <= int(d2) <= m:
                    out.append(caps[int(d2) - 1] or ""); i += 3; continue
                if 1 <= int(nx) <= m:
                    out.append(caps[int(nx) - 1] or ""); i += 2; continue
        out.append(ch); i += 1
    return "".join(out)


def all_matches(rx, s, is_global, sticky=False, start=0):
    """the matches RegExpExec finds: a sticky regex matches at the current position only (and a non-global sticky one
    starts at lastIndex = start)"""
    res, pos = [], (start if sticky and not is_global else 0)
    while pos <= len(s):
        m = rx.match(s, pos) if sticky else rx.search(s, pos)
        if m is None:
            break
        res.append(m)
        if not is_global:
            break
        pos = m.end() if m.end() > m.start() else m.end() + 1
    return res


def spec_replace(rx, flags, s, repl):
    out, last = [], 0
    for m in all_matches(rx, s, "g" in flags, "y" in flags):
        out.append(s[last:m.start()])
        out.append(get_substitution(m.group(0), s, m.start(), list(m.groups()), repl))
        last = m.end()
    return "".join(out) + s[last:]


def spec_match(rx, flags, s):
    if "g" not in flags:
        m = rx.match(s, 0) if "y" in flags else rx.search(s)
        return None if m is None else [m.group(0)] + list(m.groups())
    ms = [m.group(0) for m in all_matches(rx, s, True, "y" in flags)]
    return ms or None


def spec_split(rx, s, limit):
    """22.2.6.14 @@split"""
    lim = 2 ** 32 - 1 if limit is None else limit % 2 ** 32
    if lim == 0:
        return []
    if s == "":
        return [] if rx.match(s) else [s]
    out, p, q = [], 0, 0
    while q < len(s):
        m = rx.match(s, q)
        if m is None or m.end() == p:
            q += 1
            continue
        e = m.end()
        out.append(s[p:q])
        if len(out) == lim:
            return out
        for gi in range(1, (rx.groups or 0) + 1):
            out.append(m.group(gi))
            if len(out) == lim:
                return out
        p = e
        q = p if e > q else q + 1
        q = p
    out.append(s[p:])
    return out


REPLS = ["x", "", "[$&]", "$$", "$1", "$2", "$10", "$01", "$`|$'", "$", "$$$&", "a$1b$1", "$0", "$<n>", "$&$&"]


def _str_chunk(items):
    from microjs import Context
    c = Context(time_limit=10)
    bad = []
    for kind, pat, flags, s, extra in items:
        rx = matcher(pat, flags)
        lit = f"new RegExp({json.dumps(pat.replace(chr(92)*2, chr(92)))}, '{flags}')"
        if kind == "replace":
            want = spec_replace(rx, flags, s, extra)
            src = f"{json.dumps(s)}.replace({lit}, {json.dumps(extra)})"
        elif kind == "replace-fn":
            want = spec_replace(rx, flags, s, "<$&>").replace("<", "<").replace(">", ">")
            src = f"{json.dumps(s)}.replace({lit}, function(m){{ return '<' + m + '>' }})"
        elif kind == "replace-fn-args":
            # the replacer is called with (matched, capture 1..n (undefined when the group did not take part, '' when it
            # matched nothing), position, subject) -- recorded as text
            def rec(m):
                caps = ["U" if g is None else "S:" + g for g in m.groups()]
                return "[" + "|".join([m.group(0)] + caps + [str(m.start()), str(len(s))]) + "]"
            out_, last_ = [], 0
            for m in all_matches(rx, s, "g" in flags, "y" in flags):
                out_.append(s[last_:m.start()]); out_.append(rec(m)); last_ = m.end()
            want = "".join(out_) + s[last_:]
            src = (f"{json.dumps(s)}.replace({lit}, function(){{ var a = []; for (var i = 0; i < arguments.length; i++) {{ var v = arguments[i]; "
                   f"a.push(i === 0 ? v : (i < arguments.length - 2 ? (v === undefined ? 'U' : 'S:' + v) : (i === arguments.length - 1 ? v.length : v))); }} return '[' + a.join('|') + ']' }})")
        elif kind == "match":
            want = spec_match(rx, flags, s)
            src = f"var m = {json.dumps(s)}.match({lit}); m === null ? null : [].concat(m).map(function(x){{ return x === undefined ? null : x }})"
        elif kind == "search":
            m = rx.match(s, 0) if "y" in flags else rx.search(s)
            want = -1 if m is None else m.start()
            src = f"{json.dumps(s)}.search({lit})"
        elif kind == "split":
            want = spec_split(rx, s, extra)
            src = f"{json.dumps(s)}.split({lit}{'' if extra is None else ', ' + str(extra)}).map(function(x){{ return x === undefined ? null : x }})"
        else:  # lastIndex after a global string method must be 0 / preserved
            src = f"var re = {lit}; re.lastIndex = 1; {json.dumps(s)}.{extra}(re{', ' + json.dumps('x') if extra == 'replace' else ''}); re.lastIndex"
            if extra == "search" or not ("g" in flags or "y" in flags):
                want = 1                 # search saves and restores lastIndex; a plain regex ignores it
            elif "g" in flags:
                want = 0                 # a global match/replace runs until it fails, which resets lastIndex
            else:
                m1 = rx.match(s, 1) if 1 <= len(s) else None
                want = m1.end() if m1 is not None else 0      # sticky, not global: one attempt at lastIndex
        try:
            got = c.eval(src)
        except Exception as e:  # noqa
            got = "ERR " + type(e).__name__ + ": " + str(e)[:60]
        if got != want:
            bad.append((kind, src, repr(got)[:150], repr(want)[:150]))
    return len(items), bad


@groups.group(id="C20.bounded.string-methods", prop="C20", kind="B", functions=["microjs.vm:VM._make_string_method.<replace>", "microjs.vm:VM._make_string_method.<split>", "microjs.vm:VM._make_string_method.<match>", "microjs.vm:VM._make_string_method.<search>"])
def c20_string_methods(tier="quick", seed=0):
    import multiprocessing as mp
    items = []
    subj = SUBJECTS + ["aab", "abab", "xaxbx"]
    for pat in PATTERNS:
        for flags in ("", "g", "gi", "y", "gy"):
            for s in subj:
                for r in REPLS:
                    items.append(("replace", pat, flags, s, r))
                items.append(("replace-fn", pat, flags, s, None))
                items.append(("replace-fn-args", pat, flags, s, None))
                items.append(("match", pat, flags, s, None))
                items.append(("search", pat, flags, s, None))
                for lim in (None, 0, 1, 2, 100):
                    items.append(("split", pat, flags, s, lim))
                for meth in ("match", "replace", "search"):
                    items.append(("lastIndex", pat, flags, s, meth))
    chunks = [items[i::16] for i in range(16)]
    with mp.get_context("fork").Pool(16) as pool:
        rs = pool.map(_str_chunk, chunks)
    counts, fails = {}, {}
    for it in items:
        counts[it[0]] = counts.get(it[0], 0) + 1
    for n, bad in rs:
        for kind, src, got, want in bad:
            fails.setdefault(kind, []).append((src, got, want))
    return [ob(f"C20.bounded.string-methods.{k}", k not in fails, "B", f"{n} cases" if k not in fails else f"{len(fails[k])}/{n} differ: {fails[k][0][0][:120]} -> {fails[k][0][1]} expected {fails[k][0][2]}",
               witness=(fails[k][0][0] if k in fails else None), confirmed=True if k in fails else None, domain=n, key=f"C20.bounded.string-methods.{k}") for k, n in sorted(counts.items())]


# =======================================================================================================================
# K1: the lastIndex protocol of the real RegExp objects against RegExpBuiltinExec (ECMA-262 22.2.7.2), with the pattern
# matcher itself abstracted:  match_end(vm, s, i)  is the end of the match the compiled pattern finds when tried at
# position i of s, or -1  (an uninterpreted function: the contracts hold for every pattern).
# =======================================================================================================================
from pyvc.api import *          # noqa: E402
from microjs.values import UNDEFINED, NULL      # noqa: E402
from microjs.regex.vm import MatchResult        # noqa: E402
import specs.es_core as CORE    # noqa: E402


@abstract("match_end")
def match_end(vm, string, pos) -> "int":
    """native stand-in (never used for replays of these contracts: the real matcher runs there)"""
    r = vm._execute(string, pos, False)
    return -1 if r is None else r.index + len(r[0] or "")


@recursive
def spec_first(vm, string, pos) -> "int":
    """the first position >= pos at which the pattern matches; -1 if there is none up to len(string)"""
    if pos > len(string):
        return -1
    if match_end(vm, string, pos) >= 0:
        return pos
    return spec_first(vm, string, pos + 1)


def spec_first__ensures(vm, string, pos, result):
    """lemma (induction on len(string) + 1 - pos): a found position lies in [pos, len(string)] and the pattern matches there"""
    return result == -1 or (pos <= result and result <= len(string) and match_end(vm, string, result) >= 0)


@effectful
def spec_attempt(vm, string, pos, anchored=False):
    """callee contract of RegexVM._execute / RegexVM.match: None, or a MatchResult whose index is pos and whose group 0
    is string[pos:match_end]; the other groups are arbitrary (0 to 2 of them here)"""
    e = match_end(vm, string, pos)
    if e < 0:
        return None
    assume(pos <= e and e <= len(string))
    n = fresh(Int)
    assume(0 <= n and n <= 2)
    groups = [string[pos:e]]
    if n >= 1:
        groups.append(fresh(Str) if fresh(Bool) else None)
    if n >= 2:
        groups.append(fresh(Str) if fresh(Bool) else None)
    return MatchResult(groups, pos, string)


@effectful
def spec_search(vm, string, start=0):
    """callee contract of RegexVM.search (proved below): the attempt at the first matching position"""
    p = spec_first(vm, string, start)
    if p < 0:
        return None
    return spec_attempt(vm, string, p)


def inv_search(self, string, start_pos, pos__next):
    return pos__next >= start_pos and spec_first(self, string, pos__next) == spec_first(self, string, start_pos)


def c_vm_search(vm: Obj("RegexVM"), string: Str, start: IntRange(0, 2 ** 32)):
    """search() returns the match at the first position >= start where the pattern matches, None if there is none"""
    first = spec_first(vm, string, start)
    r = outcome(REAL, vm, string, start)
    check("never-raises", r[0] == "ret")
    res = r[1]
    if first < 0:
        check("no-match-is-None", res is None)
    else:
        check("match-is-found", res is not None)
        if res is not None:
            check("match-is-the-first", res.index == first)


def _native_vm(name):
    def make():
        from microjs.regex.vm import RegexVM
        return getattr(RegexVM, name)
    return make


register(c_vm_search, id="C20.RegexVM.search", prop="C20", target=method("microjs.regex.vm", "RegexVM.search"), native=None,
         summaries={"microjs.regex.vm:RegexVM._execute": spec_attempt},
         invariants={("microjs.regex.vm:RegexVM.search", "range(start_pos, len(string) + 1)"): inv_search})


@effectful
def spec_create_vm(rx):
    return ghost_get("vm", None)


def c_internal_exec(rx: Obj("RegExp"), vm: Obj("RegexVM"), string: Str, last: IntRange(0, 2 ** 53), g: Bool, y: Bool):
    """RegExp.exec of the regex package = RegExpBuiltinExec steps 4-15 for a non-unicode pattern and an integral lastIndex:
    start at lastIndex only when global or sticky; beyond the end: fail and reset; sticky tries that one position; a
    match sets lastIndex to its end, a failure resets it, and without g/y lastIndex is left alone"""
    rx._unicode = False
    rx._global = g
    rx._sticky = y
    rx.lastIndex = last
    ghost_set("vm", vm)
    start = last if (g or y) else 0
    r = outcome(REAL, rx, string)
    check("never-raises", r[0] == "ret")
    res = r[1]
    if start > len(string):
        check("beyond-end.fails", res is None)
        check("beyond-end.resets", rx.lastIndex == 0)
    elif y:
        e = match_end(vm, string, start)
        if e < 0:
            check("sticky.fails-without-scanning", res is None)
            check("sticky.failure-resets", rx.lastIndex == 0)
        else:
            check("sticky.matches-at-lastIndex", res is not None and res.index == start)
            check("sticky.lastIndex-is-match-end", rx.lastIndex == e)
    else:
        p = spec_first(vm, string, start)
        if p < 0:
            check("search.fails", res is None)
            check("search.failure-resets-only-global", rx.lastIndex == (0 if g else last))
        else:
            check("search.finds-first-match", res is not None and res.index == p)
            check("search.lastIndex-is-match-end-only-global", rx.lastIndex == (match_end(vm, string, p) if g else last))


register(c_internal_exec, id="C20.RegExp.exec", prop="C20", target=method("microjs.regex.regex", "RegExp.exec"), native=None,
         summaries={"microjs.regex.regex:RegExp._create_vm": spec_create_vm, "microjs.regex.vm:RegexVM.match": spec_attempt,
                    "microjs.regex.vm:RegexVM.search": spec_search})


# ---- JSRegExp.exec / test: ToLength(lastIndex), write-back only for g / y, the result array ---------------------------
@abstract("pattern_end")
def pattern_end(rx, string, pos) -> "int":
    """end of the match of rx's pattern tried at pos, or -1 (the regex package's exec is proved above to follow it)"""
    vm = rx._create_vm()
    r = vm._execute(string, pos, False)
    return -1 if r is None else r.index + len(r[0] or "")


@recursive
def rx_first(rx, string, pos) -> "int":
    if pos > len(string):
        return -1
    if pattern_end(rx, string, pos) >= 0:
        return pos
    return rx_first(rx, string, pos + 1)


def rx_first__ensures(rx, string, pos, result):
    return result == -1 or (pos <= result and result <= len(string) and pattern_end(rx, string, result) >= 0)


@effectful
def spec_internal_exec(rx, string):
    """callee contract of regex.RegExp.exec (C20.RegExp.exec): RegExpBuiltinExec on rx.lastIndex"""
    g, y = rx._global, rx._sticky
    start = rx.lastIndex if (g or y) else 0
    if start > len(string):
        rx.lastIndex = 0
        return None
    p = start if y else rx_first(rx, string, start)
    e = pattern_end(rx, string, p) if p >= 0 else -1
    if e < 0:
        if g or y:
            rx.lastIndex = 0
        return None
    assume(p <= e and e <= len(string))
    if g or y:
        rx.lastIndex = e
    n = fresh(Int)
    assume(0 <= n and n <= 2)
    groups = [string[p:e]]
    if n >= 1:
        groups.append(fresh(Str) if fresh(Bool) else None)
    if n >= 2:
        groups.append(fresh(Str) if fresh(Bool) else None)
    ghost_set("exec.groups", len(groups))
    ghost_set("exec.g1", groups[1] if n >= 1 else None)
    return MatchResult(groups, p, string)


@effectful
def spec_internal_test(rx, string):
    return spec_internal_exec(rx, string) is not None


def _to_length(v):
    """ToLength of a Number, as the engine's max(0, to_integer(v)) must compute it (ToIntegerOrInfinity with the
    infinities clamped to +-2**53; the conversion of non-numbers is C06's to_integer contract)"""
    if v != v:
        return 0
    if v == INF:
        return 9007199254740992
    if v <= 0:
        return 0
    return math.trunc(v)


def _expected(rx, string, li, g, y):
    """(position of the match or -1, its end, lastIndex afterwards or None when it must not be written)"""
    L = _to_length(li)
    start = L if (g or y) else 0
    if start > len(string):
        return -1, -1, (0 if (g or y) else None)
    p = start if y else rx_first(rx, string, start)
    e = pattern_end(rx, string, p) if p >= 0 else -1
    if e < 0:
        return -1, -1, (0 if (g or y) else None)
    return p, e, (e if (g or y) else None)


def c_js_exec(self: Obj("JSRegExp"), rx: Obj("RegExp"), string: Str, li: Num):
    """RegExp.prototype.exec: starts at ToLength(lastIndex) for global/sticky patterns (0 otherwise), writes lastIndex
    back only for those, returns null or the match array (captures that did not take part are undefined; index, input)"""
    flags = FLAGS          # bound per registration: "", "g", "y", "gy" (other flags do not take part in the protocol)
    g, y = "g" in flags, "y" in flags
    self._internal = rx
    self._flags = flags
    rx._global = g
    rx._sticky = y
    self._properties["lastIndex"] = li
    p, e, new_last = _expected(rx, string, li, g, y)
    r = outcome(REAL, self, string)
    check("never-raises", r[0] == "ret")
    if new_last is None:
        check("lastIndex-untouched-without-g-or-y", same_value(self._properties["lastIndex"], li))
    else:
        check("lastIndex-written-back", same_value(self._properties["lastIndex"], new_last))
    if p < 0:
        check("no-match-is-null", same_ref(r[1], NULL))
    else:
        arr = r[1]
        check("match-is-an-array", isinstance(arr, JSArray))
        if isinstance(arr, JSArray):
            check("match.group0", len(arr._elements) == ghost_get("exec.groups", 0) and arr._elements[0] == string[p:e])
            check("match.index-and-input", same_value(arr._properties["index"], p) and arr._properties["input"] == string)
            if ghost_get("exec.groups", 0) >= 2:
                g1 = ghost_get("exec.g1", None)
                if g1 is None:
                    check("match.unmatched-group-is-undefined", same_ref(arr._elements[1], UNDEFINED))
                else:
                    check("match.group-text", arr._elements[1] == g1)


def c_js_test(self: Obj("JSRegExp"), rx: Obj("RegExp"), string: Str, li: Num):
    """RegExp.prototype.test is exec() !== null with the same lastIndex protocol"""
    flags = FLAGS          # bound per registration: "", "g", "y", "gy" (other flags do not take part in the protocol)
    g, y = "g" in flags, "y" in flags
    self._internal = rx
    self._flags = flags
    rx._global = g
    rx._sticky = y
    self._properties["lastIndex"] = li
    p, e, new_last = _expected(rx, string, li, g, y)
    r = outcome(REAL, self, string)
    check("never-raises", r[0] == "ret")
    check("result-is-whether-exec-matches", r[1] is (p >= 0))
    if new_last is None:
        check("lastIndex-untouched-without-g-or-y", same_value(self._properties["lastIndex"], li))
    else:
        check("lastIndex-written-back", same_value(self._properties["lastIndex"], new_last))


from microjs.values import JSArray      # noqa: E402
JS_SUMM = {"microjs.regex.regex:RegExp.exec": spec_internal_exec, "microjs.regex.regex:RegExp.test": spec_internal_test,
           "microjs.values:to_integer": CORE.ToIntegerClamped}
for _fl in ("", "g", "y", "gy"):
    register(c_js_exec, id=f"C20.JSRegExp.exec.flags-{_fl or 'none'}", prop="C20", target=method("microjs.values", "JSRegExp.exec"), native=None,
             summaries=JS_SUMM, bind={"FLAGS": _fl})
    register(c_js_test, id=f"C20.JSRegExp.test.flags-{_fl or 'none'}", prop="C20", target=method("microjs.values", "JSRegExp.test"), native=None,
             summaries=JS_SUMM, bind={"FLAGS": _fl})


@groups.group(id="C20.struct.process-state", prop="C20", kind="K3", functions=["microjs (module-level state)"])
def c20_process_state(tier="quick", seed=0):
    """lastIndex is the only state of a RegExp object: no cache of regex objects or compiled patterns in the process (the analysis of C12)"""
    from contracts.C12_context import process_state
    return process_state("C20", tier, seed)


@groups.group(id="C20.bounded.literal-sites", prop="C20", kind="B", functions=["microjs.vm:VM._execute_opcode[BUILD_REGEX]"])
def c20_literal_sites(tier="quick", seed=0):
    """a regex literal makes a new RegExp object, with lastIndex 0, every time it is evaluated: the same site in a function
    called twice, in a loop body, in a callback, across evaluations of one context"""
    from microjs import Context
    progs = [
        ("function f(s){ var r = /a/g; return r.test(s) } [f('a'), f('a'), f('a')].join()", "true,true,true"),
        ("function f(){ var r = /a/g; r.exec('aa'); return r.lastIndex } [f(), f()].join()", "1,1"),
        ("var out = []; for (var i = 0; i < 3; i++) { var r = /a/y; out.push(r.test('ab') + ':' + r.lastIndex); } out.join()", "true:1,true:1,true:1"),
        ("function mk(){ return /x/g } var a = mk(), b = mk(); a.lastIndex = 5; (a !== b) + '|' + b.lastIndex", "true|0"),
        ("['aa', 'aa'].map(function (s) { var r = /a/g; r.test(s); return r.lastIndex }).join()", "1,1"),
        ("function g(){ return /a/g.test('a') } [g(), g()].join()", "true,true"),
        ("function h(s){ return s.replace(/a/g, '-') + /a/g.lastIndex } [h('aa'), h('aa')].join()", "--0,--0"),
        ("function k(){ var r = /a/gy; return [r.test('aab'), r.test('aab'), r.test('aab'), r.lastIndex].join(':') } [k(), k()].join()", "true:true:false:0,true:true:false:0"),
    ]
    bad = None
    c = Context(time_limit=10)
    for src, want in progs + [(p[0], p[1]) for p in progs]:      # (each also a second time in the same context)
        try:
            got = c.eval(src)
        except Exception as e:  # noqa
            got = "!" + type(e).__name__ + ": " + str(e)[:60]
        if got != want and bad is None:
            bad = (src, got, want)
    return [ob("C20.bounded.literal-sites", bad is None, "B", f"{2 * len(progs)} programs" if bad is None else f"{bad[0]} -> {bad[1]!r}, expected {bad[2]!r}",
               witness=(bad[0] if bad else None), confirmed=True if bad else None, domain=2 * len(progs))]


# ---- fixed probes (regressions of repaired defects; known deviations are listed in /verif/known_findings.json) ---------------
PROBES_C20 = [
    ("RegExp-from-regexp", "[new RegExp(/a/g).source, new RegExp(/a/g).flags, new RegExp(/a/g, 'i').flags, new RegExp(/a/g) !== /a/g].join()", "a,g,i,true"),
    ("missing-argument", "[/undefined/.test(), /undefined/.exec()[0], 'abc'.match(undefined)[0], 'abc'.search(undefined), 'abc'.match()[0]].join('|')", "true|undefined||0|"),
    ("sticky-string-methods", "['aXbX'.match(/X/y), 'XXaX'.match(/X/gy).join(''), 'aXbX'.replace(/X/y, '-'), 'XXaX'.replace(/X/gy, '-'), 'aXbX'.search(/X/y)].join('|')", "|XX|aXbX|--aX|-1"),
    ("sticky-lastIndex-moves", "var r = /X/y; r.lastIndex = 1; 'aXbX'.replace(r, '-') + r.lastIndex + ('aXbX'.match(r) === null) + r.lastIndex", "a-bX2true0"),
]
groups.register_probes("C20", PROBES_C20)
