"""C16 - String methods follow ECMAScript for every argument shape.
Leaf contracts on the real closures of VM._make_string_method (sidecar; /repo untouched)."""
from pyvc.api import *
from microjs.values import UNDEFINED, NULL
import specs.es_string as ES
import specs.es_core as CORE

SUMM = {"microjs.values:to_number": CORE.ToNumber, "microjs.values:to_string": CORE.ToString,
        "microjs.values:to_integer": CORE.ToIntegerClamped}


def _native(name):
    def make(s):
        from microjs.vm import VM
        return VM()._make_string_method(s, name)
    return make


def leaf(s: Str, args: JSArgs):
    """result (or error class) of the real method == ECMA-262 for every receiver and argument tuple"""
    r = outcome(REAL, *args)
    e = es_outcome(SPEC, s, args)
    check("post", same_outcome(r, e))


LEAVES = {
    "charAt": ES.charAt, "charCodeAt": ES.charCodeAt, "indexOf": ES.indexOf, "lastIndexOf": ES.lastIndexOf,
    "substring": ES.substring, "slice": ES.slice_, "toLowerCase": ES.toLowerCase, "toUpperCase": ES.toUpperCase,
    "trim": ES.trim, "trimStart": ES.trimStart, "trimEnd": ES.trimEnd, "repeat": ES.repeat,
    "startsWith": ES.startsWith, "endsWith": ES.endsWith, "includes": ES.includes, "toString": ES.toString,
}
INNER = {"slice": "slice_fn"}
for _n, _spec in LEAVES.items():
    register(leaf, id=f"C16.leaf.{_n}", prop="C16",
             target=closure("microjs.vm", "VM._make_string_method", INNER.get(_n, _n)),
             env=("s",), native=_native(_n), summaries=SUMM, bind={"SPEC": _spec},
             timeout_ms=(45000 if _n in ("slice", "lastIndexOf", "substring") else 10000),
             quick=(_n != "slice"))      # (slice: the solvers decide its obligation in 40-250 s or not at all, depending on load: thorough tier only)


# ---- bounded: the methods whose pattern is a STRING and that loop over the receiver (split, replace, replaceAll, concat) ----
from pyvc import groups      # noqa: E402
from pyvc.groups import ob   # noqa: E402


def _subst(template, matched, pos, subject):
    """22.1.3.19.1 GetSubstitution with no captures and no named groups: $$ $& $` $' are replaced, $n and $< stay as written"""
    out, i = [], 0
    while i < len(template):
        c = template[i]
        if c == "$" and i + 1 < len(template):
            d = template[i + 1]
            if d == "$":
                out.append("$"); i += 2; continue
            if d == "&":
                out.append(matched); i += 2; continue
            if d == "`":
                out.append(subject[:pos]); i += 2; continue
            if d == "'":
                out.append(subject[pos + len(matched):]); i += 2; continue
        out.append(c)
        i += 1
    return "".join(out)


def _spec_replace(subject, search, repl, all_):
    """22.1.3.19 / 22.1.3.20 with a string searchValue; repl is a template string or None for the recording function"""
    positions = []
    adv = max(1, len(search))
    p = subject.find(search, 0)
    while p != -1:
        positions.append(p)
        if not all_:
            break
        p = subject.find(search, p + adv) if p + adv <= len(subject) else -1
    out, end = [], 0
    for p in positions:
        out.append(subject[end:p])
        out.append(_subst(repl, search, p, subject) if repl is not None else f"<{search}@{p}/{len(subject)}>")
        end = p + len(search)
    out.append(subject[end:])
    return "".join(out)


def _spec_split(subject, sep, limit):
    """22.1.3.23 with a string separator (None = undefined); limit already a Python number or None"""
    import math
    if limit is None:
        lim = 2 ** 32 - 1
    else:
        lim = 0 if (limit != limit or limit in (math.inf, -math.inf)) else int(math.copysign(math.floor(abs(limit)), limit)) % 2 ** 32
    if lim == 0:
        return []
    if sep is None:
        return [subject]
    if sep == "":
        return list(subject)[:lim]
    return subject.split(sep)[:lim]


def _strpat_chunk(items):
    import json
    from microjs import Context
    c = Context(time_limit=10)
    bad = []
    for kind, src, want in items:
        try:
            got = c.eval(src)
        except Exception as e:  # noqa
            got = "ERR " + type(e).__name__ + ": " + str(e)[:60]
        if got != want:
            bad.append((kind, src, repr(got)[:120], repr(want)[:120]))
    return len(items), bad


@groups.group(id="C16.bounded.string-patterns", prop="C16", kind="B", functions=["microjs.vm:VM._make_string_method.<split>", "microjs.vm:VM._make_string_method.<replace>",
                                                                                  "microjs.vm:VM._make_string_method.<replaceAll>", "microjs.vm:VM._make_string_method.<concat>"])
def c16_string_patterns(tier="quick", seed=0):
    import json, multiprocessing as mp
    J = json.dumps
    recv = ["", "a", "abc", "aaa", "aaaa", "abab", "a.b.c", "$&x", "xx$1xx", "null1undefined", "a\nb", "\u00e9a\u00e9"]
    search = ["", "a", "b", "ab", "aa", ".", "abc", "x", "$", "$1", "\u00e9"]
    odd = [("1", "1"), ("null", "null"), ("undefined", "undefined"), ("true", "true"), ("1.5", "1.5"), ("-0", "0"), ("NaN", "NaN")]      # (primitive arguments; object arguments are outside the engine's documented conversions)
    repls = ["x", "", "[$&]", "$$", "$1", "$`|$'", "$", "$$$&", "$&$&", "$<n>", "$0", "a$"]
    items = []
    for s in recv:
        for q in search:
            for r in repls:
                items.append(("replace", f"{J(s)}.replace({J(q)}, {J(r)})", _spec_replace(s, q, r, False)))
                items.append(("replaceAll", f"{J(s)}.replaceAll({J(q)}, {J(r)})", _spec_replaceAll(s, q, r)))
            fn = "function (m, p, whole) { return '<' + m + '@' + p + '/' + whole.length + '>'; }"
            items.append(("replace-fn", f"{J(s)}.replace({J(q)}, {fn})", _spec_replace(s, q, None, False)))
            items.append(("replaceAll-fn", f"{J(s)}.replaceAll({J(q)}, {fn})", _spec_replace(s, q, None, True)))
            items.append(("replaceAll-fn-calls", f"var n = 0; {J(s)}.replaceAll({J(q)}, function () {{ n++; return ''; }}); n", len([1 for _ in _occurrences(s, q)])))
            for lim_js, lim in (("", None), (", undefined", None), (", 0", 0), (", 1", 1), (", 2", 2), (", -1", -1), (", 2.5", 2.5), (", '2'", 2), (", NaN", float("nan")), (", 4294967297", 4294967297), (", Infinity", float("inf"))):
                items.append(("split", f"{J(s)}.split({J(q)}{lim_js})", _spec_split(s, q, lim)))
        items.append(("split", f"{J(s)}.split()", [s]))
        items.append(("split", f"{J(s)}.split(undefined, 0)", []))
        for js_, txt in odd:
            items.append(("coerced-pattern", f"{J(s)}.replace({js_}, 'R')", _spec_replace(s, txt, "R", False)))
            items.append(("coerced-pattern", f"{J(s)}.replaceAll({js_}, 'R')", _spec_replace(s, txt, "R", True)))
            if js_ != "undefined":
                items.append(("coerced-pattern", f"{J(s)}.split({js_})", _spec_split(s, txt, None)))
            items.append(("concat", f"{J(s)}.concat({js_}, 'z', {js_})", s + txt + "z" + txt))
        items.append(("concat", f"{J(s)}.concat()", s))
        # missing arguments are undefined: the search text is "undefined", so is the replacement
        items.append(("missing-arguments", f"{J(s)}.replace()", _spec_replace(s, "undefined", "undefined", False)))
        items.append(("missing-arguments", f"{J(s)}.replaceAll()", _spec_replace(s, "undefined", "undefined", True)))
        items.append(("missing-arguments", f"{J(s)}.replace('a')", _spec_replace(s, "a", "undefined", False)))
        items.append(("missing-arguments", f"{J(s)}.replaceAll('a')", _spec_replace(s, "a", "undefined", True)))
        items.append(("missing-arguments", f"{J(s)}.replaceAll(undefined, '-')", _spec_replace(s, "undefined", "-", True)))
        items.append(("missing-arguments", f"{J(s)}.replace(undefined, '-')", _spec_replace(s, "undefined", "-", False)))
        items.append(("missing-arguments", f"{J(s)}.search()", 0))
        items.append(("missing-arguments", f"{J(s)}.match()[0] + '|' + {J(s)}.match().index", "|0"))
        items.append(("missing-arguments", f"{J(s)}.match(undefined).length", 1))
    chunks = [items[i::16] for i in range(16)]
    with mp.get_context("fork").Pool(16) as pool:
        rs = pool.map(_strpat_chunk, chunks)
    counts, fails = {}, {}
    for it in items:
        counts[it[0]] = counts.get(it[0], 0) + 1
    for n, bad in rs:
        for kind, src, got, want in bad:
            fails.setdefault(kind, []).append((src, got, want))
    return [ob(f"C16.bounded.string-patterns.{k}", k not in fails, "B", f"{n} cases" if k not in fails else f"{len(fails[k])}/{n} differ: {fails[k][0][0][:120]} -> {fails[k][0][1]} expected {fails[k][0][2]}",
               witness=(fails[k][0][0] if k in fails else None), confirmed=True if k in fails else None, domain=n) for k, n in sorted(counts.items())]


def _occurrences(subject, search):
    adv = max(1, len(search))
    p = subject.find(search, 0)
    while p != -1:
        yield p
        p = subject.find(search, p + adv) if p + adv <= len(subject) else -1


def _spec_replaceAll(subject, search, repl):
    return _spec_replace(subject, search, repl, True)


@groups.group(id="C16.trim-set", prop="C16", kind="K4", functions=["microjs.values:JS_WHITESPACE", "microjs.vm:VM._make_string_method.<trim>"])
def c16_trim_set(tier="quick", seed=0):
    """exhaustion over every BMP code point c: trim / trimStart / trimEnd strip c exactly when c is an ECMAScript WhiteSpace
    or LineTerminator (22.1.3.32 TrimString) -- through the real methods"""
    from microjs import Context
    from specs.es_core import ES_WHITESPACE
    c = Context()
    got = c.eval("var o = []; for (var cp = 0; cp < 65536; cp++) { if (cp >= 0xD800 && cp <= 0xDFFF) continue; var ch = String.fromCharCode(cp); var s = ch + 'x' + ch; "
                 "o.push((s.trim() === 'x' ? 1 : 0) + (s.trimStart() === 'x' + ch ? 2 : 0) + (s.trimEnd() === ch + 'x' ? 4 : 0) + (s.trim() === s ? 8 : 0)); } o")
    cps = [cp for cp in range(65536) if not (0xD800 <= cp <= 0xDFFF)]
    bad = None
    for cp, g in zip(cps, got):
        want = 7 if chr(cp) in ES_WHITESPACE else 8
        if g != want and bad is None:
            bad = (cp, g, want)
    return [ob("C16.trim-set", bad is None, "K4", f"{len(cps)} code points x 3 methods" if bad is None else f"U+{bad[0]:04X}: flags {bad[1]}, expected {bad[2]} (1 trim, 2 trimStart, 4 trimEnd strip it; 8 left alone)",
               witness=(f"(String.fromCharCode({bad[0]}) + 'x' + String.fromCharCode({bad[0]})).trim()" if bad else None), confirmed=True if bad else None, domain=len(cps) * 3)]


@groups.group(id="C16.bounded.index-keys", prop="C16", kind="B", functions=["microjs.vm:VM._get_property", "microjs.values:_is_array_index"])
def c16_index_keys(tier="quick", seed=0):
    """the index accessors of a string: only canonical index strings (and numbers whose ToString is one) address characters;
    "01", " 1", "+1", "1.0", non-ASCII digits ... are ordinary (absent) property names (the string rows of the grid of C17)"""
    from contracts.C17_arrays import c17_index_keys
    out = []
    for o in c17_index_keys(tier, seed):
        if o["id"].endswith(".string"):
            o = dict(o)
            o["id"] = o["id"].replace("C17.", "C16.", 1)
            o["finding_key"] = o["id"]
            out.append(o)
    return out
