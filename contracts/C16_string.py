"""C16 - String methods follow ECMAScript for every argument shape.
Leaf contracts on the real closures of VM._make_string_method (sidecar; /repo untouched)."""
from pyvc.api import *
from microjs.values import UNDEFINED, NULL
import specs.es_string as ES
import specs.es_core as CORE

SUMM = {"microjs.values:to_number": CORE.ToNumber, "microjs.values:to_string": CORE.ToString,
        "microjs.values:to_integer": CORE.ToIntegerClamped}


def _native(name):
    def make(s):
        from microjs.vm import VM
        return VM()._make_string_method(s, name)
    return make


def leaf(s: Str, args: JSArgs):
    """result (or error class) of the real method == ECMA-262 for every receiver and argument tuple"""
    r = outcome(REAL, *args)
    e = es_outcome(SPEC, s, args)
    check("post", same_outcome(r, e))


LEAVES = {
    "charAt": ES.charAt, "charCodeAt": ES.charCodeAt, "indexOf": ES.indexOf, "lastIndexOf": ES.lastIndexOf,
    "substring": ES.substring, "slice": ES.slice_, "toLowerCase": ES.toLowerCase, "toUpperCase": ES.toUpperCase,
    "trim": ES.trim, "trimStart": ES.trimStart, "trimEnd": ES.trimEnd, "repeat": ES.repeat,
    "startsWith": ES.startsWith, "endsWith": ES.endsWith, "includes": ES.includes, "toString": ES.toString,
}
INNER = {"slice": "slice_fn"}
for _n, _spec in LEAVES.items():
    register(leaf, id=f"C16.leaf.{_n}", prop="C16",
             target=closure("microjs.vm", "VM._make_string_method", INNER.get(_n, _n)),
             env=("s",), native=_native(_n), summaries=SUMM, bind={"SPEC": _spec},
             timeout_ms=(45000 if _n in ("slice", "lastIndexOf", "substring") else 10000))
