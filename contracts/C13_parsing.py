"""C13 - parsing respects the grammar: precedence, layout, rejection.
X: every ordered pair of binary operators, minimally parenthesised, evaluates like the tree ECMAScript's precedence and
associativity prescribe (the engine's own evaluation of the fully parenthesised form is the oracle for the value).
B: trivia / redundant-parenthesis insertion, literal spellings, rejection of unbalanced / unterminated / invalid-target sources."""
import itertools, random, json
from pyvc import groups
from pyvc.groups import ob

# ECMA-262 13.6-13.13 (higher binds tighter); ** is right-associative
PREC = {"**": 13, "*": 12, "/": 12, "%": 12, "+": 11, "-": 11, "<<": 10, ">>": 10, ">>>": 10, "<": 9, "<=": 9, ">": 9, ">=": 9, "instanceof": 9, "in": 9,
        "==": 8, "!=": 8, "===": 8, "!==": 8, "&": 7, "^": 6, "|": 5, "&&": 4, "||": 3}
OPS = [o for o in PREC if o not in ("instanceof", "in")]


@groups.group(id="C13.precedence", prop="C13", kind="K4", functions=["microjs.parser:PRECEDENCE", "microjs.parser:Parser._parse_binary_expression"])
def c13_precedence(tier="quick", seed=0):
    from microjs import Context
    c = Context(time_limit=20)
    vals = [("7", "3", "2"), ("2", "3", "2"), ("1", "0", "5"), ("9", "4", "4")]
    bad = None
    n = 0
    prog = ["var out = [];"]
    cases = []
    for o1, o2 in itertools.product(OPS, repeat=2):
        left = PREC[o1] > PREC[o2] or (PREC[o1] == PREC[o2] and o1 != "**")
        for a, b, d in vals:
            flat = f"{a} {o1} {b} {o2} {d}"
            tree = f"(({a} {o1} {b}) {o2} {d})" if left else f"({a} {o1} ({b} {o2} {d}))"
            other = f"({a} {o1} ({b} {o2} {d}))" if left else f"(({a} {o1} {b}) {o2} {d})"
            cases.append((o1, o2, flat, tree, other))
            prog.append(f"out.push([{flat}, {tree}, (({flat})), {other}]);")
    # the same flat expressions with operands in redundant parentheses / element accesses (the parser resumes a binary
    # expression after such a primary through a second code path)
    wraps = [lambda x: f"({x})", lambda x: f"(({x}))", lambda x: f"[{x}][0]", lambda x: f"[[{x}]][0][0]"]
    for o1, o2 in itertools.product(OPS, repeat=2):
        left = PREC[o1] > PREC[o2] or (PREC[o1] == PREC[o2] and o1 != "**")
        a, b, d = vals[(len(o1) + len(o2)) % len(vals)]
        tree = f"(({a} {o1} {b}) {o2} {d})" if left else f"({a} {o1} ({b} {o2} {d}))"
        other = f"({a} {o1} ({b} {o2} {d}))" if left else f"(({a} {o1} {b}) {o2} {d})"
        forms = []
        for w in wraps:
            forms += [f"({w(a)} {o1} {b} {o2} {d})", f"[{w(a)} {o1} {b} {o2} {d}][0]", f"{w(a)} {o1} {w(b)} {o2} {w(d)}", f"(({a} {o1} {w(b)} {o2} {d}))"]
        for fm in forms:
            cases.append((o1, o2, fm, tree, other))
            prog.append(f"out.push([{fm}, {tree}, (({fm})), {other}]);")
    tail = "out.map(function(r){ return r.map(function(v){ return typeof v + ':' + v }) })"
    got = []
    body = prog[1:]
    for i in range(0, len(body), 60):
        got += Context(time_limit=20).eval("\n".join(["var out = [];"] + body[i:i + 60] + [tail]))
    distinguishing = 0
    for (o1, o2, flat, tree, other), (f, t, p, oth) in zip(cases, got):
        n += 1
        if t != oth:
            distinguishing += 1
        if (f != t or p != t) and bad is None:
            bad = (flat, f, tree, t)
    from microjs.parser import PRECEDENCE
    tbl = all((PRECEDENCE[a] > PRECEDENCE[b]) == (PREC[a] > PREC[b]) and (PRECEDENCE[a] == PRECEDENCE[b]) == (PREC[a] == PREC[b]) for a in PREC for b in PREC if a in PRECEDENCE and b in PRECEDENCE)
    return [ob("C13.precedence.pairs", bad is None, "K4", f"{n} (op1, op2, operands) cases, {distinguishing} of them distinguish the two trees" if bad is None else f"{bad[0]} = {bad[1]} but {bad[2]} = {bad[3]}",
               witness=(bad[0] if bad else None), confirmed=True if bad else None, domain=n),
            ob("C13.precedence.table-order", tbl and set(PREC) <= set(PRECEDENCE), "K4", "parser.PRECEDENCE orders the binary operators like ECMA-262", domain=len(PREC) ** 2)]


REJECT = ["(1", "[1, 2", "{ var a = 1;", "f(1, 2", "'abc", '"abc', "'abc\n'", "/* never closed", "var s = 'x' /* open", "1 = 2", "x + y = 3", "x++ = 2", "++1", "(a, b) = 1", "f() = 1", "1++",
          "var a = /abc", "if (x) { ", "function f( { }", "a ? b", "a ? b : ", "var 1a = 2", "x = = 2", "for (;;", "({a:1", "[1,,", "try { } ", "switch (x) { case }", "a b c )", "`unterminated",
          # a regular expression literal ends on its own line (what follows on later lines is other code, also when it contains a slash)
          "var r = /ab+c;\nvar half = 10 / 2;\nr", "var r = /ab+c\n/.test('x')", "f(/a\n/)", "var r = /[a\n]/", "x = /a\\\nb/", "x = /a\rb/", "x = /a\u2028b/", "x = /a\u2029/", "x = /a\\\r/",
          # ECMA-262 13.6: a unary operator may not stand directly before ** (neither grouping is meant)
          "-2 ** 2", "!1 ** 2", "typeof 1 ** 2", "2 ** -2 ** 2", "void 0 ** 1", "+1 ** 2", "~1 ** 2", "var a = 1; delete a ** 2", "var a = 1; -a ** 2", "- -2 ** 2",
          # a number does not start with a zero followed by a digit (legacy octal: an error in strict code, and never decimal)
          "010", "08", "00", "09.5", "var n = 017", "[0, 01]", "x = 1 + 007",
          # statements on one line are separated by a semicolon (automatic semicolon insertion needs a line break, a brace or the end)
          "1 2", "var a = 1 var b = 2", "'it''s'", "var x = 5 x", "if (1) 2 else 3", "var a = 1; a++ a", "f() g()", "x = 1 y = 2", "return 1 2", "var o = {a: 1} var p = 2", "break lbl x", "throw 1 2",
          # nothing is called or indexed on a postfix update
          "var a = 0; a++[a]", "var a = 0; a++(a)", "var a = 0; a++.x", "var a = 0; a-- [0]",
          # no line break between throw and its value
          "throw\n1", "try { throw\n new Error('x') } catch (e) { }", "function f(){ throw /* a\n b */ 1 }",
          # elements of an array literal are separated by commas
          "[[1] 5]", "[1 2]", "[[1] [2] 3]", "[1, [2] 3]", "[[1], [2] 'x']", "[{} 1]", "[[[1]] 2]"]
def _invalid_targets():
    """assignment / update expressions whose target is not a reference, under 0-3 redundant parentheses and inside the
    places an expression can stand (ECMA-262 13.15.1 / 13.4.1 early errors: AssignmentTargetType must be simple)"""
    targets = ["1", "x + y", "x++", "f()", "x, 2", "x == 5", "-x", "'s'", "null", "typeof x", "x = 1", "x ? y : z", "!x", "x && y", "new f", "function () {}", "x.y + 1", "++x"]
    out = []
    for t in targets:
        for d in range(0, 4):
            if d == 0 and t in ("x, 2", "x ? y : z", "x = 1", "function () {}"):
                continue            # (without parentheses these group differently and are valid or a different error)
            tt = "(" * d + t + ")" * d
            forms = [f"{tt} = 3", f"{tt} += 3", f"{tt} >>>= 1", f"{tt}++", f"++{tt}", f"--{tt}"]
            if d == 0:
                forms = forms[:3]      # (x + y++ and ++x + y are valid: the update binds to one operand)
            for fm in forms:
                for ctx in ("{E};", "var r = ({E});", "var r = (({E}));", "[[{E}]];", "f({E});", "var r = [1, [2, {E}]];", "if ({E}) { }", "var o = {k: {E}};", "x = y = {E};", "(function () { return {E}; })();"):
                    out.append("var x = 1, y = 2, z = 3; function f() { return {p: 1}; } " + ctx.replace("{E}", fm))
    return out


ACCEPT_SAME = [("1+2*3", " 1 +\t2 /*c*/ * // d\n 3 "), ("var a=[1,2,3];a[1]", "var a = [ 1 , 2 , 3 ] ;\n a [ 1 ]"), ("(function(x){return x*2})(4)", "( function ( x ) { return x * 2 } ) ( 4 )"),
               ("'a'+\"b\"", "(('a')) + ((\"b\"))"), ("0x1F+0b11+0o17+1e2+.5", "31 + 3 + 15 + 100 + 0.5"), ("'\\x41\\u0042\\n\\'\\\"'", "\"AB\\n'\\\"\""), ("1.50e+1", "15"), ("0o10 + 1", "9"),
               ("var x=5;x>3?'y':'n'", "var x = 5 ; ( ( x ) > ( 3 ) ) ? ( 'y' ) : ( 'n' )"), ("var o={a:{b:[1,{c:2}]}};o.a.b[1].c", "var o = { a : { b : [ 1 , { c : 2 } ] } } ; ( ( ( o . a ) . b ) [ 1 ] ) . c"),
               ("var i=0,s=0;for(;i<3;i++){s+=i}s", "var i = 0 , s = 0 ;\nfor ( ; i < 3 ; i ++ ) { s += i }\ns"), ("2**3**2", "2 ** (3 ** 2)"), ("(-2)**2", "4"), ("-(2**2)", "-4"), ("2**-2", "0.25"), ("var a=2;++a**2", "9"), ("var a=2;a++**2+a", "7"),
               ("var b=2;b**=3;b", "8"), ("var b=2,c=3;b**=c**=2;[b,c].join()", "'512,9'"), ("var o={x:2};o.x**=3;o.x", "8"),
               # the consequent and the alternate of ?: are assignment expressions
               ("var y=0;var r=false?1:y=7;[r,y].join()", "'7,7'"), ("var y=0;var r=true?y=3:4;[r,y].join()", "'3,3'"), ("var y=0,z=0;true?y=1:z=2;[y,z].join()", "'1,0'"), ("var f=0?null:x=>x*2;f(4)", "8"),
               ("var f=1?x=>x+1:null;f(4)", "5"), ("var y=1;var r=0?1:0?2:y+=5;r", "6"), ("var a=0?1:2,b=3;b", "3"),
               # a line break before ++ / -- ends the statement: the operator belongs to what follows
               ("var a=1,b=5;a\n++b;[a,b].join()", "'1,6'"), ("var a=1,b=5;a\n--b;[a,b].join()", "'1,4'"), ("var x;x=1\n++x\nx", "2"), ("var a=1;a++\na", "2"), ("var a=1;a ++;a", "2"),
               ("var a=1,b=5;a/* c\n */++b;[a,b].join()", "'1,6'"), ("var a=0;a++\n(a)", "1"), ("var a=[7];var i=0;i++\n[a][0][0]", "7"),
               # `in` between ? and : of a conditional in a for header
               ("var o={a:1},i;for(i=true?'a' in o:0;false;);i", "true"), ("var o={a:1},n=0;for(var i=(0?1:'a' in o)?0:5;i<2;i++)n++;n", "2"),
               # an elision is an element (it reads as undefined)
               ("[1,,2].length", "3"), ("[,].length", "1"), ("[1,,].length", "2"), ("[,,1,,].length", "4"), ("[1,,2][1]===undefined", "true"), ("[[1],,[2]].length", "3"), ("[1,].length", "1"),
               ("String([1,,3][2])", "'3'"),
               ("/\\d+/.test('12')", "(/\\d+/.test('12'))"), ("/'/.test(\"'\")", "(/'/.test(\"'\"))"), ("/[/]/.test('/')", "[/[/]/.test('/')][0]"), ("/#@/.test('#@')", "(((/#@/).test('#@')))"),
               ("/\\//.test('/')", "!(!(/\\//.test('/')))"), ("'a/b'.split(/\\//).length", "('a/b'.split((/\\//)).length)"), ("/\"/.test('\"')", "(/\"/.test('\"'))"),
               ("var f = function(r){ return r.source }; f(/a'b/)", "var f = function(r){ return r.source }; (f((/a'b/)))"), ("/\\)/.test(')')", "(/\\)/.test(')'))"), ("/[(]/.test('(')", "((/[(]/).test('('))"),
               ("1 + 2", "1 /**/ + /***/ 2"), ("1 + 2", "1 /** doc **/ + 2 /* * / */"), ("1 + 2", "/*/ */ 1 + 2 /* // */"), ("1 + 2", "1 + // /* \n 2"), ("1 + 2", "1 /* \n // \n */ + 2"), ("3 * 4", "3 /****/ * /** * **/ 4"),
               # an arrow function's body is an assignment expression: a comma after it belongs to the enclosing list
               ("(function(){ return arguments.length })(x => x, 5)", "2"), ("[x => x + 1, 7].length", "2"), ("(x => x, 9)", "9"), ("var a = x => x, b = 2; b", "2"),
               ("[(a, b) => a, 7, 8].length", "3"), ("({f: x => x, g: 2}).g", "2"), ("(function(){ return arguments.length })(() => 1, () => 2, 3)", "3"),
               ("[1].map(x => x * 2, 0)[0]", "2"), ("var f = x => y => x + y, k = 5; f(1)(2) + k", "8"), ("(x => (x, 9))(1)", "9"), ("true ? x => x : 0, 4", "4"),
               ("typeof typeof 1", "typeof (typeof 1)"), ("!!'a'", "! ( ! 'a' )"), ("1 - -1", "1 - (-1)"), ("var a=1;a+++1", "var a = 1; (a++) + 1"), ("[[1].length,[2,3].length]", "[ [ 1 ] . length , [ 2 , 3 ] . length ]")]


@groups.group(id="C13.bounded", prop="C13", kind="B", functions=["microjs.lexer:Lexer", "microjs.parser:Parser"])
def c13_bounded(tier="quick", seed=0):
    from microjs import Context
    from microjs.errors import JSSyntaxError, JSError
    out = []
    notrej = []
    for src in REJECT + _invalid_targets():
        try:
            r = Context(time_limit=20).eval(src)
            notrej.append((src, f"accepted, evaluated to {r!r}"))
        except JSSyntaxError:
            pass
        except JSError as e:
            notrej.append((src, f"{type(e).__name__}: {str(e)[:60]} (not a JSSyntaxError)"))
        except Exception as e:  # noqa
            notrej.append((src, f"host {type(e).__name__}: {str(e)[:60]}"))
    for src, why in notrej:
        import hashlib
        short = src.split("} ", 1)[1] if src.startswith("var x = 1, y = 2, z = 3;") else src
        oid = "C13.bounded.reject." + "".join(ch if ch.isalnum() else "_" for ch in short)[:40] + "." + hashlib.sha1(src.encode()).hexdigest()[:6]
        out.append(ob(oid, False, "B", f"{src!r}: {why}", witness=src, confirmed=True, domain=1, key=oid))
    out.append(ob("C13.bounded.reject.rest", True, "B", f"{len(REJECT) + len(_invalid_targets()) - len(notrej)} malformed sources rejected with JSSyntaxError", domain=len(REJECT) + len(_invalid_targets()) - len(notrej)))
    for i, (a, b) in enumerate(ACCEPT_SAME):
        try:
            ra, rb = Context(time_limit=20).eval(a), Context(time_limit=20).eval(b)
            ok, det = ra == rb, f"{a!r} -> {ra!r}; {b!r} -> {rb!r}"
        except Exception as e:  # noqa
            ok, det = False, f"{a!r} / {b!r}: {type(e).__name__}: {str(e)[:80]}"
        oid = f"C13.bounded.layout.{i:02d}"
        out.append(ob(oid, ok, "B", det[:200], witness=(a if not ok else None), confirmed=True if not ok else None, domain=1, key=oid))
    # trivia insertion between the tokens of corpus-like programs (token boundaries from the real lexer)
    from microjs.lexer import Lexer
    from microjs.tokens import TokenType
    rng = random.Random(seed)
    progs = ["var a = 1, b = 2; function f(x, y) { if (x > y) { return x - y } else { return y - x } } f(a, b) + f(b, a) * 3",
             "var o = {k: [1, 2, {z: 'q'}], f: function(n) { return n ? n * this.f(n - 1) : 1 }}; o.f(5) + o.k[2].z",
             "var s = 0; for (var i = 0; i < 5; i++) { switch (i % 3) { case 0: s += 1; break; default: s += 10 } } s",
             "var t = 'x'; try { null.p } catch (e) { t = e.name } finally { t += '!' } t + /a+b/.test('aab') + (1 < 2 ? 'y' : 'n')"]
    bad = None
    n = 0
    for p in progs:
        base = Context(time_limit=20).eval(p)
        toks = []
        lx = Lexer(p)
        while True:
            tk = lx.next_token()
            if tk.type == TokenType.EOF:
                break
            toks.append(tk)
        lines = p.split("\n")
        offs = [sum(len(l) + 1 for l in lines[:tk.line - 1]) + tk.column - 1 for tk in toks]
        if any("/a+b/" in p and p[o] == "/" for o in offs) and False:
            pass
        for trial in range(6 if tier == "quick" else 60):
            pieces, last = [], 0
            for tk, o in zip(toks, offs):
                pieces.append(p[last:o])
                if o > 0 and not (p[last:o].strip() == "" and last == o and False):
                    prev = p[:o].rstrip()
                    restricted = prev.endswith(("return", "break", "continue", "throw")) or p[o:o + 2] in ("++", "--")
                    if not restricted and not _inside_regex(p, o):
                        pieces.append(rng.choice(["", " ", "\n", "\t", "/*c*/", " // c\n", "  ", "/**/", "/** d **/", "/* ' \" */", " // ' /* \n"]))
                last = o
            pieces.append(p[last:])
            q = "".join(pieces)
            n += 1
            try:
                r = Context(time_limit=20).eval(q)
            except Exception as e:  # noqa
                r = type(e).__name__ + ": " + str(e)[:60]
            if r != base and bad is None:
                bad = (q, r, base)
    # block comments with every body over {*, /, a, space, newline} up to length 4 (those not containing the terminator)
    cbad = None
    cn = 0
    cc = Context(time_limit=10)
    for ln in range(0, 5):
        for body in itertools.product("*/a \n", repeat=ln):
            body = "".join(body)
            if "*/" in body or ("*" + "/") in (body + "*")[-2:] and body.endswith("*") and False:
                continue
            src = f"1 /*{body}*/ + 2"
            if "*/" in f"/*{body}*/"[:-2][2:] + "":
                continue
            cn += 1
            try:
                r = cc.eval(src)
            except Exception as e:  # noqa
                r = type(e).__name__
            if r != 3 and cbad is None:
                cbad = (src, r)
    out.append(ob("C13.bounded.block-comments", cbad is None, "B", f"{cn} comment bodies are skipped" if cbad is None else f"{cbad[0]!r} evaluates to {cbad[1]!r}",
                  witness=(cbad[0] if cbad else None), confirmed=True if cbad else None, domain=cn))
    out.append(ob("C13.bounded.trivia-insertion", bad is None, "B", f"{n} re-rendered programs" if bad is None else f"result {bad[1]!r} instead of {bad[2]!r}", witness=(bad[0] if bad else None),
                  confirmed=True if bad else None, domain=n))
    return out


def _inside_regex(p, o):
    i = p.find("/a+b/")
    return i >= 0 and i < o < i + 5


# ---- bounded: every spelling of a numeric literal denotes the double ECMAScript assigns to it ---------------------------------
@groups.group(id="C13.bounded.numeric-literals", prop="C13", kind="B", functions=["microjs.lexer:Lexer._read_number"])
def c13_numeric_literals(tier="quick", seed=0):
    """integer literals of 1 to 23 digits around the precision boundaries, their fraction / exponent / hexadecimal / octal /
    binary spellings and very long literals (up to 5000 digits): each evaluates to the correctly rounded double, is
    strictly equal to every other spelling of the same number and to Number() of its text"""
    import random
    from microjs import Context
    import specs.es_core as CORE_
    r = random.Random(seed)
    ints = set()
    for k in range(1, 24):
        ints.update([int("9" * k), 10 ** (k - 1), 10 ** (k - 1) + 1, int("5" * k)])
    for d in range(-3, 4):
        for m in (2 ** 53, 2 ** 53 * 2, 2 ** 63, 2 ** 64, 2 ** 31, 2 ** 32, 10 ** 15, 10 ** 16, 10 ** 17, 10 ** 21, 10 ** 22):
            ints.add(m + d)
    for _ in range(200 if tier == "quick" else 5000):
        ints.add(int("".join(r.choice("0123456789") for _ in range(r.randint(14, 22))).lstrip("0") or "0"))
    c = Context(time_limit=60)
    bad = None
    n = 0
    for v in sorted(ints):
        t = str(v)
        want = CORE_.ToString(float(v))
        forms = [t, t + ".0", t + ".", t + "e0", t + "E+0", t[:-1] + "." + t[-1] + "e1" if len(t) > 1 else t, "0x" + format(v, "x"), "0X" + format(v, "X"), "0o" + format(v, "o"), "0b" + format(v, "b")]
        src = "[" + ", ".join(f"String({f})" for f in forms) + ", " + " && ".join(f"({forms[0]}) === ({f})" for f in forms[1:]) + f", ({t}) === Number('{t}'), ({t}) % 2" + "]"
        n += 1
        try:
            got = c.eval(src)
        except Exception as e:  # noqa
            got = "!" + type(e).__name__ + ": " + str(e)[:60]
            c = Context(time_limit=60)
        exp = [want] * len(forms) + [True, True, float(v) % 2]
        if got != exp and bad is None:
            bad = (src, f"{got!r}"[:200], f"{exp!r}"[:120])
    for digits in (300, 310, 1000, 4300, 4301, 5000):
        for t, want in (("1" * digits, "Infinity" if digits > 308 else None), ("0." + "0" * digits + "1", None), ("1" * digits + ".5e-" + str(digits), None), ("0" * digits + "7", "7")):
            n += 1
            try:
                got = c.eval(f"String({t})")
            except Exception as e:  # noqa
                got = "!" + type(e).__name__ + ": " + str(e)[:60]
                c = Context(time_limit=60)
            w = want if want is not None else CORE_.ToString(float(t))
            if t.startswith("0") and not t.startswith("0.") and len(t) > 1:
                continue        # (a leading zero is a legacy octal form: not judged)
            if got != w and bad is None:
                bad = (f"String({t[:30]}...<{len(t)} characters>)", got, w)
    return [ob("C13.bounded.numeric-literals", bad is None, "B", f"{n} numbers x 10 spellings" if bad is None else f"{bad[0][:200]} -> {bad[1]}, expected {bad[2]}",
               witness=(bad[0] if bad else None), confirmed=True if bad else None, domain=n)]


# ---- bounded: token positions are exact whatever trivia precedes them ---------------------------------------------------
def _layouts(seed, n):
    """(source, [(line, column) of each token]) for token sequences glued with random trivia: spaces, tabs, newlines,
    line comments, block comments on one line and over several lines (positions computed here, independently)"""
    import random
    r = random.Random(seed)
    toks = ["foo", "bar", "=", "12", "'str'", "(", ")", "+", "x1", "{", "}", ";", "0x1F", "===", "a.b", "[", "]", "=>", "typeof", "1.5e3", "\"q\""]      # (regex literals are lexed on the parser's request: not here)
    trivia = [" ", "  ", "\t", "\n", "\n\n", " \n ", "/* c */", "/**/", "/* a\n b */", "/* x\n\n   yy\n*/", "// line\n", "//\n", "/* * / */", " /* a\n */ ", "\t/*\n*/\t", "/* é😀\n é */"]
    for _ in range(n):
        src, pos, line, col = "", [], 1, 1

        def put(text):
            nonlocal src, line, col
            src += text
            for ch in text:
                if ch == "\n":
                    line, col = line + 1, 1
                else:
                    col += 1
        for _k in range(r.randint(1, 7)):
            for _t in range(r.randint(0, 3)):
                put(r.choice(trivia))
            if src and not src[-1].isspace() and not src.endswith("*/"):
                put(" ")
            tk = r.choice(toks)
            pos.append((line, col, tk))
            put(tk)
        yield src, pos


@groups.group(id="C13.bounded.positions", prop="C13", kind="B", functions=["microjs.lexer:Lexer.next_token", "microjs.lexer:Lexer._skip_whitespace", "microjs.lexer:Lexer._advance"])
def c13_positions(tier="quick", seed=0):
    """every token carries the line and column at which it starts, whatever white space and comments (also comments
    spanning lines) precede it; a character the lexer rejects is reported at its own position; a throw statement reports
    the position of its keyword"""
    from microjs.lexer import Lexer
    from microjs import Context
    from microjs.errors import JSSyntaxError
    n = 1500 if tier == "quick" else 20000
    bad = {"token": None, "syntax-error": None, "throw": None}
    cnt = {"token": 0, "syntax-error": 0, "throw": 0}
    for src, pos in _layouts(seed, n):
        try:
            got = [(t.line, t.column) for t in Lexer(src).tokenize() if t.type.name != "EOF"]
        except Exception as e:  # noqa
            got = "!" + type(e).__name__ + ": " + str(e)[:60]
        # a.b is three tokens (a . b)
        want = []
        for ln, cl, tk in pos:
            if tk == "a.b":
                want += [(ln, cl), (ln, cl + 1), (ln, cl + 2)]
            else:
                want.append((ln, cl))
        cnt["token"] += 1
        if got != want and bad["token"] is None:
            bad["token"] = (src, f"token positions {got}, expected {want}")
        # the same trivia in front of a character that is no token
        lead = src[:src.index(pos[0][2])] if pos else ""
        ln, cl = pos[0][0], pos[0][1]
        cnt["syntax-error"] += 1
        try:
            Context(time_limit=10).eval(lead + "@")
            res = "accepted"
        except JSSyntaxError as e:
            res = (e.line, e.column)
        except Exception as e:  # noqa
            res = "!" + type(e).__name__
        if res != (ln, cl) and bad["syntax-error"] is None:
            bad["syntax-error"] = (lead + "@", f"JSSyntaxError at {res}, the character is at {(ln, cl)}")
        cnt["throw"] += 1
        # the throw statement at top level and inside every kind of function body (each function has its own position table)
        wrappers = [("var r; try {", " } catch (e) { r = [e.lineNumber, e.columnNumber] } r"),
                    ("function f() {", " } var r; try { f() } catch (e) { r = [e.lineNumber, e.columnNumber] } r"),
                    ("var f = () => {", " }; var r; try { f() } catch (e) { r = [e.lineNumber, e.columnNumber] } r"),
                    ("var o = {m: function () {", " }}; var r; try { o.m() } catch (e) { r = [e.lineNumber, e.columnNumber] } r"),
                    ("function out() { function f() {", " } f() } var r; try { out() } catch (e) { r = [e.lineNumber, e.columnNumber] } r"),
                    ("var r; try { [1].forEach(function () {", " }) } catch (e) { r = [e.lineNumber, e.columnNumber] } r"),
                    ("function unused() { throw new Error('u') } var r; try {", " } catch (e) { r = [e.lineNumber, e.columnNumber] } r")]
        pre, post = wrappers[cnt["throw"] % len(wrappers)]
        tsrc = pre + lead + "throw new Error('x')" + post
        try:
            res = Context(time_limit=10).eval(tsrc)
        except Exception as e:  # noqa
            res = "!" + type(e).__name__
        wl, wc = (ln, cl + len(pre)) if ln == 1 else (ln, cl)
        if res != [wl, wc] and bad["throw"] is None:
            bad["throw"] = (tsrc, f"location {res}, the throw keyword is at {[wl, wc]}")
        # ... followed by another throw statement (the location is this statement's, not the next one's), and a runtime error
        # (reported where the failing expression starts, not at a throw statement compiled earlier)
        for kind, stmt in (("throw-then-throw", "if (1) throw new Error('a'); throw new Error('b')"), ("runtime-error", "null.x; 1"),
                           ("runtime-error-after-throw", "null.x; throw new Error('later')")):
            if kind == "throw-then-throw":
                want = [wl, wc + 7]
            else:
                want = [wl, wc]
            prefix = "function early() { throw new Error('early') } " if kind != "throw-then-throw" else ""
            t2 = prefix + pre + lead + stmt + post
            if prefix and ln == 1:
                want = [want[0], want[1] + len(prefix)]
            try:
                res = Context(time_limit=10).eval(t2)
            except Exception as e:  # noqa
                res = "!" + type(e).__name__
            if res != want and bad["throw"] is None:
                bad["throw"] = (t2, f"{kind}: location {res}, the failing statement is at {want}")
    # ... and after real tokens: the parser looks ahead (arrow functions, regular expression literals) and must put the lexer's
    # line and column back exactly; the offending character comes after an expression prefix laid out over several lines
    import random as _rnd
    r2 = _rnd.Random(seed + 11)
    prefixes = [["x"], ["x", "+"], ["(", "x"], ["x", "=", "y", "+"], ["f", "(", "a", ","], ["[", "1", ","], ["x", "+", "y", "*"], ["(", "a", ",", "b", ")", "+"], ["a", "?", "b", ":"],
                ["typeof", "x", "+"], ["x", "=", "(", "y", ")", "+"], ["o", ".", "p", "+"], ["a", "=>", "a", "+"], ["(", "a", ")", "=>", "a", "+"], ["x", "/", "y", "/"], ["a", "[", "0", "]", "+"]]
    triv2 = [" ", "\n", "\n\n", " \n ", "/* c */", "/* a\n b */", "// line\n", "\t", "  "]
    for _ in range(n // 2):
        toks = r2.choice(prefixes)
        src2, line2, col2 = "", 1, 1
        for tk in toks + ["@"]:
            gap = "".join(r2.choice(triv2) for _k in range(r2.randint(0, 3)))
            if src2 and not gap and (src2[-1].isalnum() and tk[0].isalnum()):
                gap = " "
            if src2.endswith("/") and (gap.startswith("/") or (not gap and tk.startswith("/"))):
                gap = " " + gap            # (a slash followed by a comment opener would read as a comment)
            for ch in gap + ("" if tk == "@" else tk):
                src2 += ch
                if ch == "\n":
                    line2, col2 = line2 + 1, 1
                else:
                    col2 += 1
        src2 += "@"
        cnt["syntax-error"] += 1
        try:
            Context(time_limit=10).eval(src2)
            res = "accepted"
        except JSSyntaxError as e:
            res = (e.line, e.column)
        except Exception as e:  # noqa
            res = "!" + type(e).__name__
        # (a restricted position may turn the line break into a statement end: then an earlier token is the offender; what is
        # checked is that a reported '@' is reported where it is, and that no position lies beyond the text)
        nlines = src2.count("\n") + 1
        ok2 = res == (line2, col2) or (isinstance(res, tuple) and res[0] is not None and 1 <= res[0] <= nlines and res < (line2, col2))
        if not ok2 and bad["syntax-error"] is None:
            bad["syntax-error"] = (src2, f"JSSyntaxError at {res}; the offending character '@' is at {(line2, col2)} (the text has {nlines} lines)")
    # the other line terminators (CR, CR LF, LS, PS) in the trivia: the reported place is the character's under one of the two
    # sensible conventions -- only LF starts a line (the lexer's own), or every LineTerminator does with CR LF as one -- never a
    # line the text does not have
    import random
    r = random.Random(seed + 7)
    triv = [" ", "\t", "\n", "\r\n", "\r", "\u2028", "\u2029", "/* c */", "/* a\r\n b */", "// line\r\n", "// l\r", "/* x\u2028y */", "\r\n\r\n", " \n "]
    for _ in range(n // 3):
        lead = "".join(r.choice(triv) for _k in range(r.randint(1, 8)))
        if lead.rstrip(" \t").endswith("\r") or "// l\r" in lead and False:
            pass
        la, ca, lb, cb = 1, 1, 1, 1
        i = 0
        while i < len(lead):
            ch = lead[i]
            if ch == "\n":
                la, ca = la + 1, 1
            else:
                ca += 1
            if ch == "\r" and lead[i + 1:i + 2] == "\n":
                pass                                  # (counted with the LF that follows)
            elif ch in "\n\r\u2028\u2029":
                lb, cb = lb + 1, 1
            else:
                cb += 1
            i += 1
        cnt["syntax-error"] += 1
        try:
            Context(time_limit=10).eval(lead + "@")
            res = "accepted"
        except JSSyntaxError as e:
            res = (e.line, e.column)
        except Exception as e:  # noqa
            res = "!" + type(e).__name__
        if res not in ((la, ca), (lb, cb)) and bad["syntax-error"] is None:
            bad["syntax-error"] = (lead + "@", f"JSSyntaxError at {res}; the character is at {(la, ca)} (lines end at LF) or {(lb, cb)} (lines end at every LineTerminator)")
    return [ob(f"C13.bounded.positions.{k}", b is None, "B", f"{cnt[k]} layouts" if b is None else b[1], witness=(b[0] if b else None), confirmed=True if b else None, domain=cnt[k])
            for k, b in bad.items()]


# ---- K4: string escapes, decided over all code units -----------------------------------------------------------------------
@groups.group(id="C13.escapes", prop="C13", kind="K4", functions=["microjs.lexer:Lexer._read_string"])
def c13_escapes(tier="quick", seed=0):
    """ECMA-262 12.9.4: for EVERY BMP character c the literal '\\c' denotes -- the SingleEscapeCharacter table for
    b f n r t v ' " \\; NUL for 0; nothing for a line terminator (LineContinuation); c itself otherwise -- and every
    \\xHH (256) and \\uHHHH (65536) escape denotes that code unit, in both quote styles (exhaustive through the real lexer)"""
    from microjs.lexer import Lexer
    single = {"b": 8, "f": 12, "n": 10, "r": 13, "t": 9, "v": 11, "'": 39, '"': 34, "\\": 92, "0": 0}
    special = set("xu123456789")
    out = []

    def strings(src):
        return [t.value for t in Lexer(src).tokenize() if t.type.name == "STRING"]
    bad = None
    n = 0
    for q in ("'", '"'):
        chars = [chr(c) for c in range(0x10000) if chr(c) not in special and not 0xD800 <= c <= 0xDFFF]
        for i in range(0, len(chars), 1000):
            part = chars[i:i + 1000]
            try:
                got = strings("\n".join(q + "\\" + ch + "z" + q for ch in part))
            except Exception as e:  # noqa
                bad = bad or (f"{q}\\<U+{ord(part[0]):04X}..>{q}", f"{type(e).__name__}: {str(e)[:80]}")
                continue
            if len(got) != len(part):
                bad = bad or (f"{q}\\<U+{ord(part[0]):04X}..>{q}", f"{len(got)} string tokens for {len(part)} literals")
                continue
            for ch, g in zip(part, got):
                n += 1
                if ch in single:
                    want = chr(single[ch]) + "z"
                elif ch in "\n\r\u2028\u2029":
                    want = "z"
                else:
                    want = ch + "z"
                if g != want and bad is None:
                    bad = (f"{q}\\{ch}z{q} (U+{ord(ch):04X})", f"value {g!r}, ECMAScript {want!r}")
    out.append(ob("C13.escapes.single-character", bad is None, "K4", f"{n} (character, quote) cases" if bad is None else f"{bad[0]}: {bad[1]}",
                  witness=(bad[0] if bad else None), confirmed=True if bad else None, domain=n))
    bad = None
    n = 0
    for q in ("'", '"'):
        for kind, rng_ in (("x", range(256)), ("u", range(0x10000)), ("u{", range(0x10000))):
            cps = [c for c in rng_]
            lit = {"x": lambda c: f"\\x{c:02X}", "u": lambda c: f"\\u{c:04x}", "u{": lambda c: "\\u{" + f"{c:X}" + "}"}[kind]
            for i in range(0, len(cps), 1000):
                part = cps[i:i + 1000]
                try:
                    got = strings("\n".join(q + lit(c) + q for c in part))
                except Exception as e:  # noqa
                    bad = bad or (f"{q}{lit(part[0])}{q}...", f"{type(e).__name__}: {str(e)[:80]}")
                    continue
                for c, g in zip(part, got):
                    n += 1
                    if g != chr(c) and bad is None:
                        bad = (f"{q}{lit(c)}{q}", f"value {g!r}, ECMAScript {chr(c)!r}")
    out.append(ob("C13.escapes.hex-and-unicode", bad is None, "K4", f"{n} escapes (code points above U+FFFF are not judged: the engine documents strings as code-point sequences)" if bad is None else f"{bad[0]}: {bad[1]}",
                  witness=(bad[0] if bad else None), confirmed=True if bad else None, domain=n))
    return out


# =======================================================================================================================
# K1: the lexer's cursor and trivia skipping, for every source text and every position
# =======================================================================================================================
from pyvc.api import *      # noqa: E402


def _place(lx, src, pos, line, col):
    lx.source = src
    lx.length = len(src)
    lx.pos = pos
    lx.line = line
    lx.column = col


def c_lexer_advance(lx: Obj("Lexer"), src: Str, pos: IntRange(0, 2 ** 31), line: IntRange(1, 2 ** 31), col: IntRange(1, 2 ** 31)):
    """_advance consumes exactly one character (none at the end of the text) and keeps line/column in step: a line feed
    starts the next line at column 1, anything else moves one column"""
    assume(pos <= len(src))
    _place(lx, src, pos, line, col)
    r = outcome(REAL, lx)
    check("never-raises", r[0] == "ret")
    if pos >= len(src):
        check("at-end.returns-empty", r[1] == "")
        check("at-end.cursor-stays", lx.pos == pos and lx.line == line and lx.column == col)
    else:
        check("returns-the-character", r[1] == src[pos])
        check("moves-one-character", lx.pos == pos + 1)
        if src[pos] == "\n":
            check("line-feed-starts-a-line", lx.line == line + 1 and lx.column == 1)
        else:
            check("same-line-next-column", lx.line == line and lx.column == col + 1)
    check("text-untouched", lx.source == src and lx.length == len(src))


def c_lexer_peek(lx: Obj("Lexer"), src: Str, pos: IntRange(0, 2 ** 31), off: IntRange(0, 8)):
    """_current/_peek read without consuming, and read "" beyond the end instead of failing"""
    assume(pos <= len(src))
    _place(lx, src, pos, 1, 1)
    r = outcome(REAL, lx, off)
    check("never-raises", r[0] == "ret")
    check("reads-the-character-or-empty", r[1] == (src[pos + off] if pos + off < len(src) else ""))
    check("cursor-stays", lx.pos == pos and lx.source == src)


# ECMA-262 12.2 WhiteSpace and 12.3 LineTerminator (written out here, not taken from the engine)
ES_TRIVIA_CHARS = "\t\n\x0b\x0c\r \xa0\u1680\u2000\u2001\u2002\u2003\u2004\u2005\u2006\u2007\u2008\u2009\u200a\u2028\u2029\u202f\u205f\u3000\ufeff"


@recursive
def spec_eol(s, i) -> "int":
    """first index >= i holding a LineTerminator (LF, CR, LS, PS); len(s) if there is none (measure: len(s) - i)"""
    if i < 0 or i >= len(s):
        return len(s)
    if s[i] == "\n" or s[i] == "\r" or s[i] == "\u2028" or s[i] == "\u2029":
        return i
    return spec_eol(s, i + 1)


def spec_eol__ensures(s, i, result):
    return i < 0 or i > len(s) or (i <= result and result <= len(s))


@recursive
def spec_close(s, i) -> "int":
    """first index >= i where "*/" starts; -1 if there is none (measure: len(s) - i)"""
    if i < 0 or i >= len(s):
        return -1
    if s[i] == "*" and i + 1 < len(s) and s[i + 1] == "/":
        return i
    return spec_close(s, i + 1)


def spec_close__ensures(s, i, result):
    return result == -1 or (i <= result and result + 1 < len(s))


@recursive
def spec_trivia_end(s, i) -> "int":
    """where skipping white space and comments from i stops (ECMA-262 12.2-12.4: WhiteSpace, LineTerminator,
    SingleLineComment, MultiLineComment); -1 when a block comment is not closed (measure: len(s) - i)"""
    if i < 0 or i >= len(s):
        return i
    if s[i] in ES_TRIVIA_CHARS:
        return spec_trivia_end(s, i + 1)
    if s[i] == "/" and i + 1 < len(s) and s[i + 1] == "/":
        return spec_trivia_end(s, spec_eol(s, i + 2))
    if s[i] == "/" and i + 1 < len(s) and s[i + 1] == "*":
        j = spec_close(s, i + 2)
        if j < 0:
            return -1
        return spec_trivia_end(s, j + 2)
    return i


def _cursor_ok(self, src, pos0):
    return self.source == src and self.length == len(src) and pos0 <= self.pos and self.pos <= self.length


@writes("pos", "line", "column")
def inv_skip_outer(self):
    pos0 = ghost_get("pos0", None)
    src = ghost_get("src", None)
    if not _cursor_ok(self, src, pos0):
        return False
    return spec_trivia_end(src, self.pos) == spec_trivia_end(src, pos0)


@writes("pos", "line", "column")
def inv_skip_line_comment(self):
    pos0 = ghost_get("pos0", None)
    src = ghost_get("src", None)
    if not _cursor_ok(self, src, pos0):
        return False
    return spec_trivia_end(src, spec_eol(src, self.pos)) == spec_trivia_end(src, pos0)


@writes("pos", "line", "column")
def inv_skip_block_comment(self):
    pos0 = ghost_get("pos0", None)
    src = ghost_get("src", None)
    if not _cursor_ok(self, src, pos0):
        return False
    j = spec_close(src, self.pos)
    return (j == -1 and spec_trivia_end(src, pos0) == -1) or (j >= 0 and spec_trivia_end(src, j + 2) == spec_trivia_end(src, pos0))


def c_lexer_skip(lx: Obj("Lexer"), src: Str, pos: IntRange(0, 2 ** 31), line: IntRange(1, 2 ** 31), col: IntRange(1, 2 ** 31)):
    """_skip_whitespace, for every text and start position: it stops exactly where the white space / comment run that
    starts there ends (so trivia of any length and mix between two tokens is skipped entirely and nothing of the next
    token is), and an unclosed block comment is a JSSyntaxError -- never silently the rest of the program"""
    assume(pos <= len(src))
    _place(lx, src, pos, line, col)
    ghost_set("pos0", pos)
    ghost_set("src", src)
    end = spec_trivia_end(src, pos)
    r = outcome(REAL, lx)
    if end == -1:
        check("unclosed-comment-is-a-SyntaxError", exc_in(r, ("JSSyntaxError",)))
    else:
        check("returns", r[0] == "ret")
        check("stops-where-the-trivia-ends", lx.pos == end)
    check("text-untouched", lx.source == src and lx.length == len(src))


def _native_lexer(name):
    def make():
        from microjs.lexer import Lexer
        return getattr(Lexer, name)
    return make


_SKIP = "microjs.lexer:Lexer._skip_whitespace"
register(c_lexer_advance, id="C13.Lexer._advance", prop="C13", target=method("microjs.lexer", "Lexer._advance"), native=_native_lexer("_advance"))
register(c_lexer_peek, id="C13.Lexer._peek", prop="C13", target=method("microjs.lexer", "Lexer._peek"), native=_native_lexer("_peek"))
register(c_lexer_skip, id="C13.Lexer._skip_whitespace", prop="C13", target=method("microjs.lexer", "Lexer._skip_whitespace"), native=_native_lexer("_skip_whitespace"),
         invariants={(_SKIP, 0): inv_skip_outer, (_SKIP, 1): inv_skip_line_comment, (_SKIP, 2): inv_skip_block_comment}, prune_ms=1500, quick=False)


# ---- fixed probes (known deviations are listed in /verif/known_findings.json and reported as KNOWN-FINDING) ------------------
PROBES_C13 = [('raw-line-terminator-in-string', 'var r; try { eval("\'a\\rb\'"); r = \'accepted\' } catch (e) { r = e.name } r', 'SyntaxError')]
groups.register_probes("C13", PROBES_C13)


PROBES_C13 += [
    ("trailing-dot-literal", "[5., 1.e3, 1.e+2, 5..toString(), [1., 2.].length].join()", "5,1000,100,5,2"),
    ("vertical-tab-form-feed-between-tokens", "1\x0b+\x0c2", 3),
    ("nbsp-and-bom-between-tokens", "1\xa0+\ufeff2", 3),
    ("line-separator-between-tokens", "1\u2028+\u20292", 3),
    ("line-comment-ends-at-cr", "var x = 1 // c\r x = 2\n x", 2),
    ("line-comment-ends-at-ls", "var x = 1 // c\u2028 x = 2\n x", 2),
    ("line-continuation", "'a\\\nb'.length", 2),
    ("regex-literal-flags-are-all-identifier-characters", "var r; try { r = typeof /a/x } catch (e) { r = e.name } r", "object"),
]
