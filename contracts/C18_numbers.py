"""C18 - numbers print, parse and round as IEEE doubles the ECMAScript way.
X (exhaustion): Number -> String over every shape (digit count x decimal exponent x sign) of the shortest
representation; B: toFixed/toExponential/toPrecision/toString(radix) against exact-rational spec functions,
parseInt/parseFloat/Number() grids, Math special-value table and never-raises grid."""
import math, random
import specs.es_core as CORE
from pyvc import groups
from pyvc.groups import ob


@groups.group(id="C18.tostring-shapes", prop="C18", kind="K4", functions=["microjs.values:to_string", "microjs.values:_double_to_string"])
def c18_shapes(tier="quick", seed=0):
    """A-IEEE: repr(x) are the shortest round-trip digits D and exponent n; Number::toString is a function of (sign, D, n).
    Every (len(D), n) shape is enumerated with several digit contents and the real to_string compared with the spec."""
    from microjs.values import to_string
    from specs.es_core import number_to_string, shortest_digits
    r = random.Random(seed)
    bad = None
    shapes = 0
    cases = 0
    for k in range(1, 18):
        for n in range(-323, 310):
            conts = ["1" * k, "9" * k, "1" + "0" * (k - 2) + "3" if k > 1 else "7", "".join(r.choice("123456789") for _ in range(k))]
            hit = False
            for d in conts:
                try:
                    x = float("0." + d + "e" + str(n))
                except (OverflowError, ValueError):
                    continue
                if x == 0 or math.isinf(x):
                    continue
                dd, nn = shortest_digits(x)
                if len(dd) != k or nn != n:
                    continue          # this digit content does not realise the shape (not shortest)
                hit = True
                for v in (x, -x):
                    cases += 1
                    got, want = to_string(v), number_to_string(v)
                    if got != want and bad is None:
                        bad = (v, got, want)
            shapes += hit
    out = [ob("C18.tostring-shapes.all", bad is None, "K4", f"{shapes} (digit-count, exponent) shapes realised, {cases} doubles" if bad is None else f"String({bad[0]!r}) = {bad[1]!r}, ECMAScript {bad[2]!r}",
              witness=(f"String({bad[0]!r})" if bad else None), confirmed=True if bad else None, domain=shapes)]
    specials = {float("nan"): "NaN", float("inf"): "Infinity", float("-inf"): "-Infinity", 0.0: "0", -0.0: "0", 1e21: "1e+21", 1e-7: "1e-7", 123456789012345680000.0: "123456789012345680000",
                0.000001: "0.000001", 5e-324: "5e-324", 2.0 ** 53: "9007199254740992", 100: "100", -5: "-5", 10 ** 21: "1e+21", 10 ** 20: "100000000000000000000", True: "true"}
    wrong = [(k, to_string(k), v) for k, v in specials.items() if to_string(k) != v]
    out.append(ob("C18.tostring-shapes.special-values", not wrong, "K4", f"{len(specials)} special values" if not wrong else f"{wrong[0]}", domain=len(specials)))
    return out


GRID = [0.0, -0.0, 1.0, -1.0, 0.5, 1.5, 2.5, -2.5, 0.05, 1.005, 1.45, 8.345, 0.000001, 1e-7, 123.456, 1e21, 1e20, 999.9995, 0.1, 0.2, 0.3, 1 / 3, 2 / 3, 1e-10, 123456789.0,
        5e-324, 1.7976931348623157e308, 2.0 ** 53, 2.0 ** 53 + 2, 4.35, 10.235, 1.255, 25.0, 0.00001, 99.99, 9.995, 0.615, 1000000.0, 12345.6789, float("nan"), float("inf"), float("-inf"),
        -1.5, -0.000001, 1e15, 1e16, 1e17, 123456789012345.0, 0.045, 5e-7, 4.5, 5.5, 0.125, 0.375]


def _fmt_chunk(args):
    kind, items = args
    from microjs import Context
    import specs.es_number as N
    c = Context(time_limit=10)
    bad = []
    for x, p in items:
        lit = "NaN" if x != x else ("Infinity" if x == math.inf else ("(-Infinity)" if x == -math.inf else ("(-0)" if (x == 0 and math.copysign(1, x) < 0) else "(" + repr(x) + ")")))
        arg = "" if p is None else str(p)
        src = f"var r; try {{ r = {lit}.{kind}({arg}) }} catch (e) {{ r = 'ERR:' + e.name }} r"
        try:
            if kind == "toFixed":
                want = N.to_fixed(x, 0 if p is None else p)
            elif kind == "toExponential":
                want = N.to_exponential(x, p)
            elif kind == "toPrecision":
                want = N.to_precision(x, p)
            else:
                # radix 10 (and no argument) is Number::toString itself: exponent notation from 1e21 on
                want = CORE.number_to_string(x) if p in (None, 10) else N.to_string_radix_int(int(x), p)
        except N.RangeErr:
            want = "ERR:RangeError"
        try:
            got = c.eval(src)
        except Exception as e:  # noqa
            got = "HOST:" + type(e).__name__
        if got != want:
            bad.append((src, got, want, x, p))
    return kind, len(items), bad


def classify(x, p, kind):
    """region of the (value, digits) space; used as the stable key of obligations / known findings"""
    if x != x or x in (math.inf, -math.inf):
        return "nonfinite"
    if p is not None and (p < 0 or p > 100):
        return "range"
    from fractions import Fraction
    if kind == "toFixed":
        q = Fraction(x) * 10 ** (p or 0)
        return "exact" if q.denominator in (1, 2) else "inexact"
    return "general"


@groups.group(id="C18.bounded.format", prop="C18", kind="B", functions=["microjs.vm:VM._make_number_method"])
def c18_format(tier="quick", seed=0):
    import multiprocessing as mp
    jobs = []
    digs = [None, 0, 1, 2, 3, 5, 10, 20, 21, 100, 101, -1]
    items = {"toFixed": [], "toExponential": [], "toPrecision": [], "toString": []}
    for x in GRID:
        for p in digs:
            items["toFixed"].append((x, p))
            items["toExponential"].append((x, p))
            if p != 0:
                items["toPrecision"].append((x, p))
    for x in [0, 1, -1, 255, 256, -255, 2 ** 31, 2 ** 32 - 1, 2 ** 53, 35, 36, 1e21, 123456789]:
        for radix in [2, 3, 8, 10, 16, 32, 36, 1, 37, 0]:
            items["toString"].append((float(x), radix))
    for k, its in items.items():
        for i in range(4):
            jobs.append((k, its[i::4]))
    with mp.get_context("fork").Pool(16) as pool:
        res = pool.map(_fmt_chunk, jobs)
    out = []
    agg = {}
    for kind, n, bad in res:
        for (x, p) in [it for k2, its in items.items() if k2 == kind for it in its][:0]:
            pass
    counts = {}
    for kind, its in items.items():
        for x, p in its:
            key = (kind, classify(x, p, kind))
            counts[key] = counts.get(key, 0) + 1
    fails = {}
    for kind, n, bad in res:
        for src, got, want, x, p in bad:
            key = (kind, classify(x, p, kind))
            fails.setdefault(key, []).append((src, got, want))
    for key, n in sorted(counts.items()):
        b = fails.get(key)
        oid = f"C18.bounded.format.{key[0]}.{key[1]}"
        out.append(ob(oid, not b, "B", f"{n} cases" if not b else f"{len(b)}/{n} differ, e.g. {b[0][0][23:60]} -> {b[0][1]!r}, ECMAScript {b[0][2]!r}",
                      witness=(b[0][0] if b else None), confirmed=True if b else None, domain=n, key=oid))
    return out


PARSE_STRS = ["", " ", "12", " 12 ", "-12", "+12", "12px", "px12", "0x1F", "0X1f", "-0x1F", "0x", "1e3", "1e", "1.5", ".5", "5.", "-.5", "+.5e1", "1_000", "Infinity", "-Infinity", "+Infinity",
              "infinity", "inf", "nan", "NaN", "0b11", "0o17", "010", "08", "1e400", "-1e400", "1e-400", "9007199254740993", "123456789012345678901234567890", "\t\n 7", "\xa07", "﻿7",
              "\x0b7\x0c", "7\x00", "٣", "１２", "1,5", "1 2", "--1", "+-1", "1e+", "1e+5x", "0.0000001", "-0", "0", "z", "Z9", "10", "ff", "FF", "7.9", "-7.9", "1e21", "  -0x10", "0e0", ".e1", "1.e1"]


@groups.group(id="C18.bounded.parse", prop="C18", kind="B", functions=["microjs.context:Context._global_parseint", "microjs.context:Context._global_parsefloat", "microjs.values:_string_to_number"])
def c18_parse(tier="quick", seed=0):
    from microjs import Context
    import specs.es_number as N
    from specs.es_core import StringToNumber
    from pyvc.api import same_value
    import json
    c = Context(time_limit=10)
    out = []

    def run(name, mk_src, spec, inputs):
        bad = None
        n = 0
        for inp in inputs:
            n += 1
            src = mk_src(inp)
            try:
                got = c.eval(src)
            except Exception as e:  # noqa
                got = "HOST:" + type(e).__name__
            want = spec(inp)
            if not (isinstance(got, (int, float)) and not isinstance(got, bool) and same_value(got, want)) and bad is None:
                bad = (src, got, want)
        out.append(ob(f"C18.bounded.parse.{name}", bad is None, "B", f"{n} inputs" if bad is None else f"{bad[0]} -> {bad[1]!r}, ECMAScript {bad[2]!r}",
                      witness=(bad[0] if bad else None), confirmed=True if bad else None, domain=n))
    js = lambda s: json.dumps(s, ensure_ascii=False).replace(" ", "\\u2028")
    run("Number", lambda s: f"Number({js(s)})", lambda s: StringToNumber(s), PARSE_STRS)
    run("unary-plus", lambda s: f"+{js(s)}", lambda s: StringToNumber(s), PARSE_STRS)
    run("parseFloat", lambda s: f"parseFloat({js(s)})", N.parse_float, PARSE_STRS)
    run("Number.parseFloat", lambda s: f"Number.parseFloat({js(s)})", N.parse_float, PARSE_STRS)
    radices = [None, 0, 2, 8, 10, 16, 36, 37, 1, -1, 2 ** 32 + 16, 16.9]
    pairs = [(s, r) for s in PARSE_STRS for r in radices]
    run("parseInt", lambda sr: f"parseInt({js(sr[0])}{'' if sr[1] is None else ', ' + repr(sr[1])})", lambda sr: N.parse_int(sr[0], sr[1] if sr[1] is not None else 0), pairs)
    run("Number.parseInt", lambda sr: f"Number.parseInt({js(sr[0])}{'' if sr[1] is None else ', ' + repr(sr[1])})", lambda sr: N.parse_int(sr[0], sr[1] if sr[1] is not None else 0), pairs)
    return out


NANV, INF = float("nan"), float("inf")
MATH_TABLE = {   # ECMA-262 21.3.2.x special values
    "abs": [((NANV,), NANV), ((-0.0,), 0.0), ((-INF,), INF), ((-5,), 5)],
    "floor": [((NANV,), NANV), ((-0.0,), -0.0), ((INF,), INF), ((-INF,), -INF), ((0.5,), 0.0), ((-0.5,), -1), ((1e300,), 1e300)],
    "ceil": [((NANV,), NANV), ((-0.0,), -0.0), ((INF,), INF), ((-0.5,), -0.0), ((0.5,), 1), ((1e300,), 1e300)],
    "round": [((NANV,), NANV), ((-0.0,), -0.0), ((INF,), INF), ((-INF,), -INF), ((0.5,), 1), ((-0.5,), -0.0), ((2.5,), 3), ((-2.5,), -2), ((0.49999999999999994,), 0.0), ((1e300,), 1e300)],
    "trunc": [((NANV,), NANV), ((-0.0,), -0.0), ((INF,), INF), ((-0.9,), -0.0), ((1e300,), 1e300)],
    "sign": [((NANV,), NANV), ((-0.0,), -0.0), ((0.0,), 0.0), ((-3,), -1), ((INF,), 1)],
    "sqrt": [((NANV,), NANV), ((-1,), NANV), ((-0.0,), -0.0), ((INF,), INF), ((4,), 2)],
    "cbrt": [((NANV,), NANV), ((-0.0,), -0.0), ((INF,), INF), ((-INF,), -INF), ((-8,), -2), ((27,), 3)],
    "min": [((), INF), ((1, NANV), NANV), ((0.0, -0.0), -0.0), ((1, 2), 1), ((NANV, 1), NANV)],
    "max": [((), -INF), ((1, NANV), NANV), ((0.0, -0.0), 0.0), ((1, 2), 2)],
    "pow": [((2, NANV), NANV), ((NANV, 0), 1), ((1, INF), NANV), ((0.0, -1), INF), ((-0.0, -1), -INF), ((-8, 1 / 3), NANV), ((2, 10), 1024), ((10, 400), INF)],
    "exp": [((NANV,), NANV), ((INF,), INF), ((-INF,), 0.0), ((0,), 1), ((1000,), INF), ((-1000,), 0.0)],
    "expm1": [((NANV,), NANV), ((INF,), INF), ((-INF,), -1), ((-0.0,), -0.0), ((1000,), INF)],
    "log": [((NANV,), NANV), ((-1,), NANV), ((0.0,), -INF), ((-0.0,), -INF), ((1,), 0.0), ((INF,), INF)],
    "log2": [((NANV,), NANV), ((-1,), NANV), ((0.0,), -INF), ((1,), 0.0), ((8,), 3), ((INF,), INF)],
    "log10": [((NANV,), NANV), ((-1,), NANV), ((0.0,), -INF), ((1000,), 3), ((INF,), INF)],
    "log1p": [((NANV,), NANV), ((-2,), NANV), ((-1,), -INF), ((-0.0,), -0.0), ((INF,), INF)],
    "sin": [((NANV,), NANV), ((INF,), NANV), ((-INF,), NANV), ((-0.0,), -0.0)],
    "cos": [((NANV,), NANV), ((INF,), NANV), ((0,), 1)],
    "tan": [((NANV,), NANV), ((INF,), NANV), ((-0.0,), -0.0)],
    "asin": [((NANV,), NANV), ((2,), NANV), ((-2,), NANV), ((-0.0,), -0.0)],
    "acos": [((NANV,), NANV), ((2,), NANV), ((1,), 0.0)],
    "atan": [((NANV,), NANV), ((-0.0,), -0.0), ((INF,), math.pi / 2)],
    "atan2": [((NANV, 1), NANV), ((0.0, -0.0), math.pi), ((-0.0, -0.0), -math.pi), ((1, INF), 0.0), ((INF, INF), math.pi / 4)],
    "hypot": [((), 0.0), ((3, 4), 5), ((INF, NANV), INF), ((NANV, 1), NANV)],
    "fround": [((NANV,), NANV), ((INF,), INF), ((1e40,), INF), ((-1e40,), -INF), ((5.5,), 5.5), ((-0.0,), -0.0), ((1.1,), 1.100000023841858)],
    "imul": [((2, 3), 6), ((0xFFFFFFFF, 5), -5), ((NANV, 5), 0), ((INF, 5), 0), ((2 ** 32 + 3, 3), 9)],
    "clz32": [((0,), 32), ((1,), 31), ((NANV,), 32), ((INF,), 32), ((-1,), 0), ((2 ** 32,), 32), ((0.5,), 32)],
}


@groups.group(id="C18.bounded.math", prop="C18", kind="B", functions=["microjs.context:Context._create_math_object"])
def c18_math(tier="quick", seed=0):
    from microjs import Context
    from pyvc.api import same_value
    c = Context(time_limit=10)
    out = []

    def lit(v):
        if v != v:
            return "NaN"
        if v == INF:
            return "Infinity"
        if v == -INF:
            return "-Infinity"
        if v == 0 and math.copysign(1, v) < 0:
            return "-0"
        return repr(v)
    adversarial = [NANV, 0.0, -0.0, INF, -INF, 1, -1, 0.5, -0.5, 2 ** 31, 2 ** 53, 1e300, -1e300, 5e-324, 1000, -1000, 710, 1e21]
    for fn, table in MATH_TABLE.items():
        bad = None
        n = 0
        for args, want in table:
            n += 1
            src = f"Math.{fn}({', '.join(lit(a) for a in args)})"
            try:
                got = c.eval(src)
            except Exception as e:  # noqa
                got = "HOST:" + type(e).__name__
            ok = isinstance(got, (int, float)) and not isinstance(got, bool) and (same_value(got, want) or (want == want and abs(got - want) <= 1e-15 * max(1, abs(want)) and (want != 0 or math.copysign(1, got) == math.copysign(1, want))))
            if not ok and bad is None:
                bad = (src, got, want)
        # never raises: adversarial grid (1 and 2 arguments, plus missing / undefined / string / object)
        for a in adversarial:
            for b in (None, NANV, -0.0, INF, 2, -3, 0.5):
                n += 1
                src = f"Math.{fn}({lit(a)}" + ("" if b is None else ", " + lit(b)) + ")"
                try:
                    got = c.eval(src)
                    ok = isinstance(got, (int, float)) and not isinstance(got, bool)
                except Exception as e:  # noqa
                    got, ok = "HOST:" + type(e).__name__, False
                if not ok and bad is None:
                    bad = (src, got, "a Number")
        for src in (f"Math.{fn}()", f"Math.{fn}(undefined)", f"Math.{fn}('x')", f"Math.{fn}(null, '3')", f"Math.{fn}('1e400')"):
            n += 1
            try:
                got = c.eval(src)
                ok = isinstance(got, (int, float)) and not isinstance(got, bool)
            except Exception as e:  # noqa
                got, ok = "HOST:" + type(e).__name__, False
            if not ok and bad is None:
                bad = (src, got, "a Number")
        oid = f"C18.bounded.math.{fn}"
        out.append(ob(oid, bad is None, "B", f"{n} calls" if bad is None else f"{bad[0]} -> {bad[1]!r}, ECMAScript {bad[2]!r}", witness=(bad[0] if bad else None), confirmed=True if bad else None, domain=n, key=oid))
    return out


@groups.group(id="C18.whitespace", prop="C18", kind="K4", functions=["microjs.values:JS_WHITESPACE", "microjs.values:_string_to_number", "microjs.values:parse_int", "microjs.values:parse_float"])
def c18_whitespace(tier="quick", seed=0):
    """exhaustion over every BMP code point c: Number(c + '42' + c), parseInt(c + '42'), parseFloat(c + '4.5') treat c
    as strippable white space exactly when c is an ECMAScript WhiteSpace or LineTerminator (11.2, 11.3)"""
    from microjs import Context
    from specs.es_core import ES_WHITESPACE
    c = Context()          # (a finite loop; no wall-clock limit, so that the verdict does not depend on the load of the machine)
    src = ("var bad = []; for (var cp = 0; cp < 65536; cp++) { if (cp >= 0xD800 && cp <= 0xDFFF) continue; var ch = String.fromCharCode(cp);"
           " var a = Number(ch + '42' + ch) === 42, b = parseInt(ch + '42') === 42, d = parseFloat(ch + '4.5') === 4.5, e = Number(ch) === 0;"
           " bad.push((a ? 1 : 0) + (b ? 2 : 0) + (d ? 4 : 0) + (e ? 8 : 0)); } bad")
    got = c.eval(src)
    cps = [cp for cp in range(65536) if not (0xD800 <= cp <= 0xDFFF)]
    out = []
    names = {1: "Number", 2: "parseInt", 4: "parseFloat", 8: "Number-of-lone-whitespace"}
    import specs.es_number as N
    from specs.es_core import StringToNumber
    spec = {1: lambda ch: StringToNumber(ch + "42" + ch) == 42, 2: lambda ch: N.parse_int(ch + "42", 0) == 42,
            4: lambda ch: N.parse_float(ch + "4.5") == 4.5, 8: lambda ch: StringToNumber(ch) == 0}
    for bit, nm in names.items():
        bad = None
        for cp, g in zip(cps, got):
            want = bool(spec[bit](chr(cp)))
            if want != (chr(cp) in ES_WHITESPACE) and chr(cp) not in "+-0.":
                raise AssertionError(f"spec functions disagree with the WhiteSpace table at U+{cp:04X}")
            if bool(g & bit) != want and bad is None:
                bad = (cp, bool(g & bit), want)
        out.append(ob(f"C18.whitespace.{nm}", bad is None, "K4", f"{len(cps)} code points" if bad is None else f"U+{bad[0]:04X}: engine treats it as {'white space' if bad[1] else 'not white space'}, ECMAScript the opposite",
                      witness=(f"{nm}(String.fromCharCode(0x{bad[0]:x}) + '42')" if bad else None), confirmed=True if bad else None, domain=len(cps)))
    return out


@groups.group(id="C18.bounded.math-pow", prop="C18", kind="B", functions=["microjs.vm:js_pow", "microjs.context:Context._create_math_object"])
def c18_math_pow(tier="quick", seed=0):
    """Math.pow (and **) over the special-value grid against Number::exponentiate (the grid and the specification function of C06)"""
    from contracts.C06_ops import c06_exponentiation
    out = []
    for o in c06_exponentiation(tier, seed):
        o = dict(o)
        o["id"] = o["id"].replace("C06.bounded.exponentiation", "C18.bounded.math-pow")
        o["finding_key"] = o["id"]
        out.append(o)
    return out


# ---- fixed probes (regressions of repaired defects; known deviations are listed in /verif/known_findings.json) ---------------
PROBES_C18 = [
    ("parseInt-very-long", "[parseInt('1'.repeat(5000)), parseInt('-' + '9'.repeat(400)), parseInt('0'.repeat(5000) + '12'), parseInt('f'.repeat(2000), 16), parseInt('1'.repeat(1024), 2)].join()", "Infinity,-Infinity,12,Infinity,Infinity"),
    ("long-radix-string", "[+('0x' + 'f'.repeat(300)), Number('0b' + '1'.repeat(1100)), ('0x' + 'f'.repeat(300)) | 0].join()", "Infinity,Infinity,0"),
    ("cbrt", "[Math.cbrt(27), Math.cbrt(1e300), Math.cbrt(-8), 1 / Math.cbrt(-0), Math.cbrt(1e-300)].join()", "3,1e+100,-2,-Infinity,1e-100"),
]
groups.register_probes("C18", PROBES_C18)


# ---- bounded: roots within one ulp, decided exactly ------------------------------------------------------------------------
@groups.group(id="C18.bounded.roots", prop="C18", kind="B", functions=["microjs.context:Context._create_math_object.<cbrt_fn>", "microjs.context:Context._create_math_object.<sqrt_fn>"])
def c18_roots(tier="quick", seed=0):
    """Math.cbrt and Math.sqrt over doubles of every magnitude (random mantissas x random exponents, exact cubes and squares and
    their neighbours, the inputs on which host libraries are known to be off): the result r is within one ulp of the real
    root, decided in exact rational arithmetic ((r - ulp)^k <= x <= (r + ulp)^k), and exact for exact powers"""
    import math, random
    from fractions import Fraction
    from microjs import Context
    r_ = random.Random(seed)
    xs = [198.65319756135546, 3.4883538209925444e298, 1e-5, 2.0, 3.0, 10.0, 0.1, 1e300, 1e-300, 5e-324, 1.7976931348623157e308, 2.2250738585072014e-308, 7.0, 1 / 3, 0.7, 123456789.0]
    for k in range(1, 60):
        xs += [float(k ** 3), float(k ** 3) + math.ulp(float(k ** 3)), float(k ** 2), math.nextafter(float(k ** 2), 0.0), float(k) ** -3, 10.0 ** k, 10.0 ** -k, 2.0 ** (3 * k), 2.0 ** (3 * k + 1)]
    for _ in range(1500 if tier == "quick" else 40000):
        xs.append(math.ldexp(r_.random() + 0.5, r_.randrange(-1073, 1023)))
    c = Context(time_limit=120)
    out = []
    for fn, k in (("cbrt", 3), ("sqrt", 2)):
        bad = None
        n = 0
        for i in range(0, len(xs), 500):
            part = xs[i:i + 500]
            vals = part + ([-x for x in part] if fn == "cbrt" else [])
            c.set("xs", vals)
            got = c.eval(f"xs.map(function (x) {{ return Math.{fn}(x) }})")
            for x, r in zip(vals, got):
                n += 1
                if isinstance(r, bool) or not isinstance(r, (int, float)) or r != r or r in (math.inf, -math.inf):
                    bad = bad or (x, r, "not a finite number")
                    continue
                r = float(r)
                ax, ar = abs(x), abs(r)
                if (r < 0) != (x < 0) and x != 0:
                    bad = bad or (x, r, "wrong sign")
                    continue
                u = math.ulp(ar)
                lo, hi = Fraction(ar) - Fraction(u), Fraction(ar) + Fraction(u)
                ok = (lo ** k if lo > 0 else 0) <= Fraction(ax) <= hi ** k
                root = round(ax ** (1.0 / k))
                exact = [t for t in (root - 1, root, root + 1) if t >= 0 and float(t) ** k == ax and t ** k == int(ax)] if ax == int(ax) and ax < 2 ** 53 else []
                if exact and ar != float(exact[0]):
                    ok = False
                if not ok and bad is None:
                    bad = (x, r, f"more than one ulp from the real root" if not exact else f"the exact root is {exact[0]}")
        out.append(ob(f"C18.bounded.roots.{fn}", bad is None, "B", f"{n} arguments" if bad is None else f"Math.{fn}({bad[0]!r}) = {bad[1]!r}: {bad[2]}",
                      witness=(f"Math.{fn}({bad[0]!r})" if bad else None), confirmed=True if bad else None, domain=n))
    return out


# ---- bounded: every Math function within one ulp of the real function, against 60-digit arithmetic ---------------------------
def _ulp_chunk(job):
    import math, random
    import mpmath
    from microjs import Context
    fn, seed, count = job
    mpmath.mp.dps = 60
    r_ = random.Random(seed)
    ref = {"sin": mpmath.sin, "cos": mpmath.cos, "tan": mpmath.tan, "asin": mpmath.asin, "acos": mpmath.acos, "atan": mpmath.atan, "exp": mpmath.exp, "expm1": mpmath.expm1,
           "log": mpmath.log, "log1p": mpmath.log1p, "log2": lambda x: mpmath.log(x, 2), "log10": mpmath.log10, "sqrt": mpmath.sqrt, "cbrt": (lambda x: mpmath.sign(x) * mpmath.cbrt(abs(x))),
           "atan2": mpmath.atan2, "pow": mpmath.power, "hypot": mpmath.hypot}

    def arg(kind):
        if kind == "any":
            return math.ldexp(r_.random() + 0.5, r_.randrange(-60, 60)) * r_.choice((1, -1))
        if kind == "wide":
            return math.ldexp(r_.random() + 0.5, r_.randrange(-1000, 1000)) * r_.choice((1, -1))
        if kind == "unit":
            return r_.choice((r_.uniform(-1, 1), math.ldexp(r_.random(), r_.randrange(-60, 0)) * r_.choice((1, -1)), 1 - math.ldexp(r_.random(), -r_.randrange(1, 50))))
        if kind == "pos":
            return math.ldexp(r_.random() + 0.5, r_.randrange(-1000, 1000))
        if kind == "exp":
            return r_.choice((r_.uniform(-745, 709), math.ldexp(r_.random(), r_.randrange(-60, 0)) * r_.choice((1, -1))))
        if kind == "gt-1":
            return r_.choice((r_.uniform(-1, 10), -1 + math.ldexp(r_.random(), -r_.randrange(1, 50)), math.ldexp(r_.random(), r_.randrange(-60, 0)) * r_.choice((1, -1)), math.ldexp(r_.random() + 0.5, r_.randrange(0, 1000))))
        raise KeyError(kind)
    domains = {"sin": ("any",), "cos": ("any",), "tan": ("any",), "asin": ("unit",), "acos": ("unit",), "atan": ("wide",), "exp": ("exp",), "expm1": ("exp",), "log": ("pos",), "log1p": ("gt-1",),
               "log2": ("pos",), "log10": ("pos",), "sqrt": ("pos",), "cbrt": ("wide",), "atan2": ("wide", "wide"), "hypot": ("wide", "wide"), "pow": ("pos", "any")}
    args = [tuple(arg(k) for k in domains[fn]) for _ in range(count)]
    if fn == "pow":
        args = [(math.ldexp(r_.random() + 0.5, r_.randrange(-8, 8)), r_.uniform(-40, 40)) for _ in range(count)]
    c = Context(time_limit=120)
    c.set("xs", [list(a) for a in args])
    got = c.eval(f"xs.map(function (a) {{ return Math.{fn}.apply(null, a) }})")
    bad, worst = None, 0.0
    for a, g in zip(args, got):
        want = ref[fn](*[mpmath.mpf(x) for x in a])
        if isinstance(g, bool) or not isinstance(g, (int, float)) or g != g:
            bad = bad or (a, g, "not a number")
            continue
        w = float(want)
        if w in (math.inf, -math.inf) or w == 0 or abs(w) < 2.3e-308:
            continue                                   # (overflow / underflow edges are judged by the special-value table)
        if g in (math.inf, -math.inf):
            bad = bad or (a, g, f"real value {w!r}")
            continue
        err = abs(mpmath.mpf(float(g)) - want) / mpmath.mpf(math.ulp(w))
        worst = max(worst, float(err))
        if err > 1 and bad is None:
            bad = (a, g, f"{float(err):.2f} ulp from the real value {w!r}")
    return fn, len(args), bad, worst


@groups.group(id="C18.bounded.math-ulp", prop="C18", kind="B", functions=["microjs.context:Context._create_math_object"])
def c18_math_ulp(tier="quick", seed=0):
    """'within one ulp elsewhere': sin cos tan asin acos atan atan2 exp expm1 log log1p log2 log10 sqrt cbrt hypot pow on random
    arguments over their whole domains (all magnitudes, near the domain edges), against mpmath at 60 digits"""
    import multiprocessing as mp
    fns = ["sin", "cos", "tan", "asin", "acos", "atan", "exp", "expm1", "log", "log1p", "log2", "log10", "sqrt", "cbrt", "atan2", "hypot", "pow"]
    count = 1500 if tier == "quick" else 30000
    with mp.get_context("fork").Pool(16) as pool:
        res = pool.map(_ulp_chunk, [(f, seed * 31 + i, count) for i, f in enumerate(fns)])
    return [ob(f"C18.bounded.math-ulp.{fn}", bad is None, "B", f"{n} arguments, largest error {worst:.2f} ulp" if bad is None else f"Math.{fn}{tuple(bad[0])!r} = {bad[1]!r}: {bad[2]}",
               witness=(f"Math.{fn}({', '.join(repr(x) for x in bad[0])})" if bad else None), confirmed=True if bad else None, domain=n) for fn, n, bad, worst in res]
