"""C06 - operators and conversions on primitive values follow ECMAScript.
Contracts on values.to_* / VM._to_int32 ... and on the per-opcode slices of VM._execute_opcode."""
from pyvc.api import *
from pyvc import groups
from pyvc.groups import ob
from microjs.values import UNDEFINED, NULL
import specs.es_core as CORE
import specs.es_ops as OPS

SUMM = {"microjs.values:_string_to_number": CORE.StringToNumber}
SAFE = 9007199254740992


def _fn(modname, name):
    def make():
        import importlib
        return getattr(importlib.import_module(modname), name)
    return make


def _vm_method(name):
    def make():
        from microjs.vm import VM
        return getattr(VM, name)
    return make


def safe(v):
    """representation invariant of script numbers held as Python int: a safe integer"""
    return not is_number(v) or isinstance(v, float) or (v <= SAFE and v >= -SAFE)


# ---- conversions --------------------------------------------------------------------------
def conv(v: JSPrim):
    """real conversion == ECMA-262 abstract operation on every primitive"""
    assume(safe(v))
    r = outcome(REAL, v)
    e = es_outcome(SPEC, v)
    check("post", same_outcome(r, e))


def conv_nofloat(v: JSPrim):
    """as conv, floats excluded (Number::toString of a double is decided by exhaustion in C18)"""
    assume(safe(v))
    assume(not isinstance(v, float))
    r = outcome(REAL, v)
    e = es_outcome(SPEC, v)
    check("post", same_outcome(r, e))


def conv_method(self: Obj("VM"), v: JSPrim):
    assume(safe(v))
    r = outcome(REAL, self, v)
    e = es_outcome(SPEC, v)
    check("post", same_outcome(r, e))
    if r[0] == "ret":
        check("int-result", isinstance(r[1], int))


register(conv, id="C06.conv.to_number", prop="C06", target=function("microjs.values", "to_number"),
         native=_fn("microjs.values", "to_number"), summaries=SUMM, bind={"SPEC": CORE.ToNumber})
register(conv, id="C06.conv.to_integer", prop="C06", target=function("microjs.values", "to_integer"),
         native=_fn("microjs.values", "to_integer"), summaries=SUMM, bind={"SPEC": CORE.ToIntegerClamped})
register(conv, id="C06.conv.to_boolean", prop="C06", target=function("microjs.values", "to_boolean"),
         native=_fn("microjs.values", "to_boolean"), summaries=SUMM, bind={"SPEC": CORE.ToBoolean})
register(conv, id="C06.conv.js_typeof", prop="C06", target=function("microjs.values", "js_typeof"),
         native=_fn("microjs.values", "js_typeof"), summaries=SUMM, bind={"SPEC": CORE.typeof})
register(conv_nofloat, id="C06.conv.to_string", prop="C06", target=function("microjs.values", "to_string"),
         native=_fn("microjs.values", "to_string"), summaries=SUMM, bind={"SPEC": CORE.ToString})
register(conv_method, id="C06.conv._to_int32", prop="C06", target=method("microjs.vm", "VM._to_int32"),
         native=_vm_method("_to_int32"), summaries=SUMM, bind={"SPEC": CORE.ToInt32})
register(conv_method, id="C06.conv._to_uint32", prop="C06", target=method("microjs.vm", "VM._to_uint32"),
         native=_vm_method("_to_uint32"), summaries=SUMM, bind={"SPEC": CORE.ToUint32})


# ---- opcode slices --------------------------------------------------------------------------
OSUMM = {"microjs.values:to_number": CORE.ToNumber, "microjs.values:to_string": CORE.ToString,
         "microjs.values:to_boolean": CORE.ToBoolean, "microjs.values:js_typeof": CORE.typeof,
         "microjs.vm:VM._to_int32": None, "microjs.vm:VM._to_uint32": None}
def ToInt32_m(self, v):
    return CORE.ToInt32(v)


def ToUint32_m(self, v):
    return CORE.ToUint32(v)


OSUMM = {k: v for k, v in OSUMM.items() if v is not None}
OSUMM["microjs.vm:VM._to_int32"] = ToInt32_m
OSUMM["microjs.vm:VM._to_uint32"] = ToUint32_m


def binop(self: Obj("VM"), frame: Obj("CallFrame"), base: ValList, a: JSPrim, b: JSPrim):
    """one binary opcode: pops exactly its two operands, pushes the ECMA-262 result, leaves the rest alone"""
    assume(safe(a) and safe(b))
    self.stack = base + [a, b]
    n = len(base)
    o = outcome(REAL, self, OP, None, frame)
    e = es_outcome(SPEC, a, b)
    check("no-host-error", o[0] == "ret" or exc_in(o, ("JSTypeError", "JSReferenceError", "JSRangeError")))
    if e[0] == "ret":
        check("completes", o[0] == "ret")
        if o[0] == "ret":
            check("depth", len(self.stack) == n + 1)
            if len(self.stack) == n + 1:
                check("frame", self.stack[:n] == base)
                check("value", same_value(self.stack[n], e[1]))
    else:
        check("error-class", same_outcome(o, e))


def unop(self: Obj("VM"), frame: Obj("CallFrame"), base: ValList, a: JSPrim):
    assume(safe(a))
    self.stack = base + [a]
    n = len(base)
    o = outcome(REAL, self, OP, None, frame)
    e = es_outcome(SPEC, a)
    check("no-host-error", o[0] == "ret" or exc_in(o, ("JSTypeError", "JSReferenceError", "JSRangeError")))
    if e[0] == "ret":
        check("completes", o[0] == "ret")
        if o[0] == "ret":
            check("depth", len(self.stack) == n + 1)
            if len(self.stack) == n + 1:
                check("frame", self.stack[:n] == base)
                check("value", same_value(self.stack[n], e[1]))
    else:
        check("error-class", same_outcome(o, e))


def _opnative():
    from microjs.vm import VM
    return VM._execute_opcode


from microjs.opcodes import OpCode  # noqa: E402
BINOPS = {"ADD": OPS.op_add, "SUB": OPS.op_sub, "MUL": OPS.op_mul, "DIV": OPS.op_div, "MOD": OPS.op_mod,
          "BAND": OPS.op_band, "BOR": OPS.op_bor, "BXOR": OPS.op_bxor, "SHL": OPS.op_shl, "SHR": OPS.op_shr,
          "USHR": OPS.op_ushr, "LT": OPS.op_lt, "LE": OPS.op_le, "GT": OPS.op_gt, "GE": OPS.op_ge,
          "EQ": OPS.op_eq, "NE": OPS.op_ne, "SEQ": OPS.op_seq, "SNE": OPS.op_sne}
UNOPS = {"NEG": OPS.op_neg, "POS": OPS.op_pos, "NOT": OPS.op_not, "BNOT": OPS.op_bnot, "TYPEOF": OPS.op_typeof,
         "INC": OPS.op_inc, "DEC": OPS.op_dec}
QUICK_OPS = {"SEQ", "SNE", "POS", "NOT", "TYPEOF"}      # the rest: symbolic run in the thorough tier only
for _n, _spec in BINOPS.items():
    register(binop, id=f"C06.op.{_n}", prop="C06", target=opcode(_n), native=_opnative, summaries=OSUMM,
             bind={"SPEC": _spec, "OP": OpCode[_n]}, quick=_n in QUICK_OPS)
for _n, _spec in UNOPS.items():
    register(unop, id=f"C06.op.{_n}", prop="C06", target=opcode(_n), native=_opnative, summaries=OSUMM,
             bind={"SPEC": _spec, "OP": OpCode[_n]}, quick=_n in QUICK_OPS)


# ---- the helpers behind the binary opcodes, as direct function contracts (no heap) -------------
def helper2(self: Obj("VM"), a: JSPrim, b: JSPrim):
    assume(safe(a) and safe(b))
    r = outcome(REAL, self, a, b)
    e = es_outcome(SPEC, a, b)
    check("post", same_outcome(r, e))


def compare_uses(self: Obj("VM"), a: JSPrim, b: JSPrim):
    """the four relational opcodes are defined from _compare exactly as VM._execute_opcode uses it
    (the wiring itself is checked by the opcode slices / the bounded grid)"""
    assume(safe(a) and safe(b))
    check("LT", (REAL(self, a, b) < 0) == OPS.op_lt(a, b))
    check("LE", (REAL(self, a, b) <= 0) == OPS.op_le(a, b))
    check("GT", (REAL(self, b, a) < 0) == OPS.op_gt(a, b))
    check("GE", (REAL(self, b, a) <= 0) == OPS.op_ge(a, b))


def fn2(x: Num, y: Num):
    assume(safe(x) and safe(y))
    r = outcome(REAL, x, y)
    e = es_outcome(SPEC, x, y)
    check("post", same_outcome(r, e))


def never_raises2(x: Num, y: Num):
    assume(safe(x) and safe(y))
    r = outcome(REAL, x, y)
    check("no-exception", r[0] == "ret")
    if r[0] == "ret":
        check("number", is_number(r[1]))


register(helper2, id="C06.helper._strict_equals", prop="C06", target=method("microjs.vm", "VM._strict_equals"),
         native=_vm_method("_strict_equals"), summaries=OSUMM, bind={"SPEC": OPS.strict_equals})
register(helper2, id="C06.helper._abstract_equals", prop="C06", target=method("microjs.vm", "VM._abstract_equals"),
         native=_vm_method("_abstract_equals"), summaries=OSUMM, bind={"SPEC": OPS.loose_equals})
register(helper2, id="C06.helper._add", prop="C06", target=method("microjs.vm", "VM._add"),
         native=_vm_method("_add"), summaries=OSUMM, bind={"SPEC": OPS.op_add}, quick=False)
register(compare_uses, id="C06.helper._compare", prop="C06", target=method("microjs.vm", "VM._compare"),
         native=_vm_method("_compare"), summaries=OSUMM)
register(fn2, id="C06.helper.js_mod", prop="C06", target=function("microjs.vm", "js_mod"),
         native=_fn("microjs.vm", "js_mod"), bind={"SPEC": OPS.num_rem}, quick=False)
register(never_raises2, id="C06.helper.js_pow", prop="C06", target=function("microjs.vm", "js_pow"),
         native=_fn("microjs.vm", "js_pow"), quick=False)


# ---- bounded: assignment and update expressions on every kind of target ------------------------------------------------
def _assign_chunk(cases):
    from microjs import Context
    bad = []
    for cid, src, exp in cases:
        try:
            got = Context(time_limit=5).eval(src)
        except BaseException as e:  # noqa
            got = f"!{type(e).__name__}: {e}"[:120]
        if got != exp:
            bad.append((cid, src, got, exp))
    return len(cases), bad


@groups.group(id="C06.bounded.assignment", prop="C06", kind="B", functions=["microjs.compiler:Compiler._compile_expression"])
def c06_assignment(tier="quick", seed=0):
    """value of the expression, stored value and the value seen through a closure for =, the 11 compound operators
    and prefix/postfix ++/-- on globals, locals, captured locals, parameters, variables of enclosing functions,
    catch parameters, members and elements, over primitive operands (expected values from the spec operators)"""
    import multiprocessing as mp
    import specs.gen_bindings as GB
    values = None if tier == "thorough" else ["5", "'5'", "true", "null", "undefined", "-0"]
    cs = list(GB.cases(values=values))
    chunks = [cs[i::16] for i in range(16)]
    with mp.get_context("fork").Pool(16) as pool:
        rs = pool.map(_assign_chunk, chunks)
    by = {}
    for cid, src, exp in cs:
        by.setdefault(cid.split("/")[0], [0, None])[0] += 1
    for n, bad in rs:
        for cid, src, got, exp in bad:
            e = by[cid.split("/")[0]]
            if e[1] is None:
                e[1] = (cid, src, got, exp)
    return [ob(f"C06.bounded.assignment.{k}", b is None, "B", f"{n} (form, operand) cases" if b is None else f"{b[0]}: engine {b[2]!r} expected {b[3]!r}",
               witness=(b[1] if b else None), confirmed=True if b else None, domain=n) for k, (n, b) in by.items()]


# ---- bounded: the callee contract the proofs above assume for _string_to_number, around the precision boundaries --------
def _strnum_chunk(strs):
    from microjs import Context
    import specs.es_core as CORE_
    import specs.es_ops as OPS_
    bad = []
    c = Context(time_limit=20)
    for t in strs:
        x = CORE_.StringToNumber(t)
        exp = "|".join(CORE_.ToString(v) for v in (x, OPS_.num_rem(x, 2), OPS_.op_add(OPS_.op_sub(x, 1), 2), OPS_.op_neg(x) if hasattr(OPS_, "op_neg") else -x,
                                                     OPS_.op_mul(x, 1), OPS_.op_sub(x, 0), OPS_.op_div(x, 1), x,
                                                     # the sign of a zero shows only through division
                                                     OPS_.op_div(1, x), OPS_.op_div(1, OPS_.op_mul(x, 1)), OPS_.op_div(1, OPS_.num_rem(x, 5)), OPS_.op_div(1, OPS_.op_neg(x) if hasattr(OPS_, "op_neg") else -x)))
        import json as _j
        q = _j.dumps(t)
        src = (f"var s = {q}; [String(+s), String((+s) % 2), String((+s) - 1 + 2), String(-(+s)), String(s * 1), String(s - 0), String(s / 1), String(Number(s)), String(1 / +s), String(1 / (s * 1)), String(1 / (s % 5)), String(1 / -s)].join('|')"
               f" + '|' + (s == +s) + (+s === Number(s)) + ((+s) + 0 === +s)")
        try:
            got = c.eval(src)
        except BaseException as e:  # noqa
            got = f"!{type(e).__name__}: {e}"[:100]
            c = Context(time_limit=20)
        if got != exp + "|truetruetrue" and not (x != x and got == exp + "|falsefalsefalse"):
            bad.append((t, src, got, exp))
    return len(strs), bad


@groups.group(id="C06.bounded.string-to-number", prop="C06", kind="B", functions=["microjs.values:_string_to_number"])
def c06_strnum(tier="quick", seed=0):
    """numeric strings as operands: the number is the correctly rounded double of the decimal text and behaves like one
    (no exact-integer representation leaks through %, +, -, unary minus, String)"""
    import multiprocessing as mp, random
    r = random.Random(seed)
    base = set()
    for k in range(1, 24):
        base.update(["9" * k, "1" + "0" * (k - 1), "1" + "0" * (k - 1) + "1", "5" * k, "0" * 3 + "7" * k])
    for d in range(-6, 7):
        for m in (2 ** 53, 2 ** 53 * 2, 2 ** 53 * 4 + 2, 2 ** 63, 2 ** 64, 2 ** 31, 2 ** 32, 10 ** 15, 10 ** 16, 10 ** 17, 10 ** 21, 10 ** 22):
            base.add(str(m + d))
    for _ in range(300 if tier == "quick" else 6000):
        base.add("".join(r.choice("0123456789") for _ in range(r.randint(14, 22))).lstrip("0") or "0")
    strs = []
    for t in sorted(base):
        strs += [t, "-" + t, "+" + t, " " + t + "\n", t + ".0", t + ".5", t + "e0", t[:-1] + "." + t[-1] + "e1", "0x" + hex(int(t))[2:] if len(t) < 18 else t + "e-1"]
    strs += ["9007199254740993", "9007199254740995", "9999999999999999", "0.1", "1e309", "-1e309", "1e-400", "4.35", "0.000001", "123456789012345680000", "1e21", "1e+21", ".5", "5.", "", " ", "0x", "1e", "--1", "Infinity", "-Infinity", "infinity",
             "-0", "+0", "0", "-0.0", "-00", " -0 ", "-0e5", "-.0", "-0.", "-0x0", "-0e-400", "-1e-400", "+1e-400", "-5", "5", "-10", "-2.5", "\t-0\n", "-0000000000000000", "-000000000000000000000"]
    chunks = [strs[i::16] for i in range(16)]
    with mp.get_context("fork").Pool(16) as pool:
        rs = pool.map(_strnum_chunk, chunks)
    bad = [b for _, bs in rs for b in bs]
    return [ob("C06.bounded.string-to-number", not bad, "B", f"{len(strs)} numeric strings through 15 observations" if not bad else f"{bad[0][0]!r}: engine {bad[0][2]!r} expected {bad[0][3]!r}",
               witness=(bad[0][1] if bad else None), confirmed=True if bad else None, domain=len(strs))]


# ---- bounded: exponentiation over the special-value grid (both spellings) ------------------------------------------------
@groups.group(id="C06.bounded.exponentiation", prop="C06", kind="B", functions=["microjs.vm:js_pow"])
def c06_exponentiation(tier="quick", seed=0):
    """a ** b and Math.pow(a, b) for every pair of a grid of special and ordinary values, against Number::exponentiate:
    exact where the specification is (NaN, zeros with sign, infinities, unit bases with infinite exponents, exact integer
    powers), within one ulp where it allows an approximation"""
    import math
    from microjs import Context
    vals = ["NaN", "0", "-0", "1", "-1", "Infinity", "-Infinity", "0.5", "-0.5", "2", "-2", "3", "-3", "1/3", "0.1", "1.7976931348623157e308", "5e-324", "9007199254740992", "-8", "4", "9",
            "1e-10", "1.0000000000000002", "0.9999999999999999", "-1.0000000000000002", "1e3", "-1e3", "1023", "1024", "-1074", "true", "'2'", "null"]
    pyv = {"NaN": math.nan, "Infinity": math.inf, "-Infinity": -math.inf, "1/3": 1 / 3, "true": 1.0, "'2'": 2.0, "null": 0.0, "-0": -0.0}
    num = lambda t: pyv[t] if t in pyv else float(t)
    c = Context(time_limit=60)
    bad = None
    n = 0

    def close(got, want, exact):
        if isinstance(got, bool) or not isinstance(got, (int, float)):
            return False
        g = float(got)
        if want != want:
            return g != g
        if g != g:
            return False
        if want == 0 or g == 0:
            return g == want and math.copysign(1, g) == math.copysign(1, want)
        if exact or want in (math.inf, -math.inf) or g in (math.inf, -math.inf):
            return g == want
        return abs(g - want) <= 2 * math.ulp(want)
    for a in vals:
        for b in vals:
            want, exact = OPS.num_exponentiate(num(a), num(b))
            for form in (f"({a}) ** ({b})", f"Math.pow({a}, {b})", f"var p = {a}; var q = {b}; p ** q"):
                n += 1
                try:
                    got = c.eval(form)
                except Exception as e:  # noqa
                    got = "!" + type(e).__name__
                if not close(got, want, exact) and bad is None:
                    bad = (form, got, want)
    return [ob("C06.bounded.exponentiation", bad is None, "B", f"{n} (base, exponent, spelling) cases" if bad is None else f"{bad[0]} = {bad[1]!r}, ECMAScript {bad[2]!r}",
               witness=(bad[0] if bad else None), confirmed=True if bad else None, domain=n)]
