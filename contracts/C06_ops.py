"""C06 - operators and conversions on primitive values follow ECMAScript.
Contracts on values.to_* / VM._to_int32 ... and on the per-opcode slices of VM._execute_opcode."""
from pyvc.api import *
from microjs.values import UNDEFINED, NULL
import specs.es_core as CORE
import specs.es_ops as OPS

SUMM = {"microjs.values:_string_to_number": CORE.StringToNumber}
SAFE = 9007199254740992


def _fn(modname, name):
    def make():
        import importlib
        return getattr(importlib.import_module(modname), name)
    return make


def _vm_method(name):
    def make():
        from microjs.vm import VM
        return getattr(VM, name)
    return make


def safe(v):
    """representation invariant of script numbers held as Python int: a safe integer"""
    return not is_number(v) or isinstance(v, float) or (v <= SAFE and v >= -SAFE)


# ---- conversions --------------------------------------------------------------------------
def conv(v: JSPrim):
    """real conversion == ECMA-262 abstract operation on every primitive"""
    assume(safe(v))
    r = outcome(REAL, v)
    e = es_outcome(SPEC, v)
    check("post", same_outcome(r, e))


def conv_nofloat(v: JSPrim):
    """as conv, floats excluded (Number::toString of a double is decided by exhaustion in C18)"""
    assume(safe(v))
    assume(not isinstance(v, float))
    r = outcome(REAL, v)
    e = es_outcome(SPEC, v)
    check("post", same_outcome(r, e))


def conv_method(self: Obj("VM"), v: JSPrim):
    assume(safe(v))
    r = outcome(REAL, self, v)
    e = es_outcome(SPEC, v)
    check("post", same_outcome(r, e))
    if r[0] == "ret":
        check("int-result", isinstance(r[1], int))


register(conv, id="C06.conv.to_number", prop="C06", target=function("microjs.values", "to_number"),
         native=_fn("microjs.values", "to_number"), summaries=SUMM, bind={"SPEC": CORE.ToNumber})
register(conv, id="C06.conv.to_integer", prop="C06", target=function("microjs.values", "to_integer"),
         native=_fn("microjs.values", "to_integer"), summaries=SUMM, bind={"SPEC": CORE.ToIntegerClamped})
register(conv, id="C06.conv.to_boolean", prop="C06", target=function("microjs.values", "to_boolean"),
         native=_fn("microjs.values", "to_boolean"), summaries=SUMM, bind={"SPEC": CORE.ToBoolean})
register(conv, id="C06.conv.js_typeof", prop="C06", target=function("microjs.values", "js_typeof"),
         native=_fn("microjs.values", "js_typeof"), summaries=SUMM, bind={"SPEC": CORE.typeof})
register(conv_nofloat, id="C06.conv.to_string", prop="C06", target=function("microjs.values", "to_string"),
         native=_fn("microjs.values", "to_string"), summaries=SUMM, bind={"SPEC": CORE.ToString})
register(conv_method, id="C06.conv._to_int32", prop="C06", target=method("microjs.vm", "VM._to_int32"),
         native=_vm_method("_to_int32"), summaries=SUMM, bind={"SPEC": CORE.ToInt32})
register(conv_method, id="C06.conv._to_uint32", prop="C06", target=method("microjs.vm", "VM._to_uint32"),
         native=_vm_method("_to_uint32"), summaries=SUMM, bind={"SPEC": CORE.ToUint32})


# ---- opcode slices --------------------------------------------------------------------------
OSUMM = {"microjs.values:to_number": CORE.ToNumber, "microjs.values:to_string": CORE.ToString,
         "microjs.values:to_boolean": CORE.ToBoolean, "microjs.values:js_typeof": CORE.typeof,
         "microjs.vm:VM._to_int32": None, "microjs.vm:VM._to_uint32": None}
def ToInt32_m(self, v):
    return CORE.ToInt32(v)


def ToUint32_m(self, v):
    return CORE.ToUint32(v)


OSUMM = {k: v for k, v in OSUMM.items() if v is not None}
OSUMM["microjs.vm:VM._to_int32"] = ToInt32_m
OSUMM["microjs.vm:VM._to_uint32"] = ToUint32_m


def binop(self: Obj("VM"), frame: Obj("CallFrame"), base: ValList, a: JSPrim, b: JSPrim):
    """one binary opcode: pops exactly its two operands, pushes the ECMA-262 result, leaves the rest alone"""
    assume(safe(a) and safe(b))
    self.stack = base + [a, b]
    n = len(base)
    o = outcome(REAL, self, OP, None, frame)
    e = es_outcome(SPEC, a, b)
    check("no-host-error", o[0] == "ret" or exc_in(o, ("JSTypeError", "JSReferenceError", "JSRangeError")))
    if e[0] == "ret":
        check("completes", o[0] == "ret")
        if o[0] == "ret":
            check("depth", len(self.stack) == n + 1)
            if len(self.stack) == n + 1:
                check("frame", self.stack[:n] == base)
                check("value", same_value(self.stack[n], e[1]))
    else:
        check("error-class", same_outcome(o, e))


def unop(self: Obj("VM"), frame: Obj("CallFrame"), base: ValList, a: JSPrim):
    assume(safe(a))
    self.stack = base + [a]
    n = len(base)
    o = outcome(REAL, self, OP, None, frame)
    e = es_outcome(SPEC, a)
    check("no-host-error", o[0] == "ret" or exc_in(o, ("JSTypeError", "JSReferenceError", "JSRangeError")))
    if e[0] == "ret":
        check("completes", o[0] == "ret")
        if o[0] == "ret":
            check("depth", len(self.stack) == n + 1)
            if len(self.stack) == n + 1:
                check("frame", self.stack[:n] == base)
                check("value", same_value(self.stack[n], e[1]))
    else:
        check("error-class", same_outcome(o, e))


def _opnative():
    from microjs.vm import VM
    return VM._execute_opcode


from microjs.opcodes import OpCode  # noqa: E402
BINOPS = {"ADD": OPS.op_add, "SUB": OPS.op_sub, "MUL": OPS.op_mul, "DIV": OPS.op_div, "MOD": OPS.op_mod,
          "BAND": OPS.op_band, "BOR": OPS.op_bor, "BXOR": OPS.op_bxor, "SHL": OPS.op_shl, "SHR": OPS.op_shr,
          "USHR": OPS.op_ushr, "LT": OPS.op_lt, "LE": OPS.op_le, "GT": OPS.op_gt, "GE": OPS.op_ge,
          "EQ": OPS.op_eq, "NE": OPS.op_ne, "SEQ": OPS.op_seq, "SNE": OPS.op_sne}
UNOPS = {"NEG": OPS.op_neg, "POS": OPS.op_pos, "NOT": OPS.op_not, "BNOT": OPS.op_bnot, "TYPEOF": OPS.op_typeof,
         "INC": OPS.op_inc, "DEC": OPS.op_dec}
QUICK_OPS = {"SEQ", "SNE", "POS", "NOT", "TYPEOF"}      # the rest: symbolic run in the thorough tier only
for _n, _spec in BINOPS.items():
    register(binop, id=f"C06.op.{_n}", prop="C06", target=opcode(_n), native=_opnative, summaries=OSUMM,
             bind={"SPEC": _spec, "OP": OpCode[_n]}, quick=_n in QUICK_OPS)
for _n, _spec in UNOPS.items():
    register(unop, id=f"C06.op.{_n}", prop="C06", target=opcode(_n), native=_opnative, summaries=OSUMM,
             bind={"SPEC": _spec, "OP": OpCode[_n]}, quick=_n in QUICK_OPS)


# ---- the helpers behind the binary opcodes, as direct function contracts (no heap) -------------
def helper2(self: Obj("VM"), a: JSPrim, b: JSPrim):
    assume(safe(a) and safe(b))
    r = outcome(REAL, self, a, b)
    e = es_outcome(SPEC, a, b)
    check("post", same_outcome(r, e))


def compare_uses(self: Obj("VM"), a: JSPrim, b: JSPrim):
    """the four relational opcodes are defined from _compare exactly as VM._execute_opcode uses it
    (the wiring itself is checked by the opcode slices / the bounded grid)"""
    assume(safe(a) and safe(b))
    check("LT", (REAL(self, a, b) < 0) == OPS.op_lt(a, b))
    check("LE", (REAL(self, a, b) <= 0) == OPS.op_le(a, b))
    check("GT", (REAL(self, b, a) < 0) == OPS.op_gt(a, b))
    check("GE", (REAL(self, b, a) <= 0) == OPS.op_ge(a, b))


def fn2(x: Num, y: Num):
    assume(safe(x) and safe(y))
    r = outcome(REAL, x, y)
    e = es_outcome(SPEC, x, y)
    check("post", same_outcome(r, e))


def never_raises2(x: Num, y: Num):
    assume(safe(x) and safe(y))
    r = outcome(REAL, x, y)
    check("no-exception", r[0] == "ret")
    if r[0] == "ret":
        check("number", is_number(r[1]))


register(helper2, id="C06.helper._strict_equals", prop="C06", target=method("microjs.vm", "VM._strict_equals"),
         native=_vm_method("_strict_equals"), summaries=OSUMM, bind={"SPEC": OPS.strict_equals})
register(helper2, id="C06.helper._abstract_equals", prop="C06", target=method("microjs.vm", "VM._abstract_equals"),
         native=_vm_method("_abstract_equals"), summaries=OSUMM, bind={"SPEC": OPS.loose_equals})
register(helper2, id="C06.helper._add", prop="C06", target=method("microjs.vm", "VM._add"),
         native=_vm_method("_add"), summaries=OSUMM, bind={"SPEC": OPS.op_add}, quick=False)
register(compare_uses, id="C06.helper._compare", prop="C06", target=method("microjs.vm", "VM._compare"),
         native=_vm_method("_compare"), summaries=OSUMM)
register(fn2, id="C06.helper.js_mod", prop="C06", target=function("microjs.vm", "js_mod"),
         native=_fn("microjs.vm", "js_mod"), bind={"SPEC": OPS.num_rem}, quick=False)
register(never_raises2, id="C06.helper.js_pow", prop="C06", target=function("microjs.vm", "js_pow"),
         native=_fn("microjs.vm", "js_pow"), quick=False)
