"""C02 - memory limit stops runaway stack growth and never stops bounded scripts.
Part 1: VM._check_limits memory clause (K1), script-to-script calls do not recurse in the host (K3), native
nesting is bounded by an explicit check (K3), recursion shapes end in MemoryLimitError (B).
Part 2 (no residue): K5 compile schemes (contracts/C05_control.py registers C02.schemes) + run-time residue
monitor over the loop skeletons (B)."""
from pyvc import structural as _S_
from pyvc.api import *
from pyvc import groups
from pyvc.groups import ob
import contracts.C01_time as C01
import contracts.C05_control  # noqa: registers C02.schemes

register(C01.check_limits, id="C02.check_limits", prop="C02", target=method("microjs.vm", "VM._check_limits"),
         native=C01._vm_method("_check_limits"), grid={"Flt": [0.0, 1.0, 1e6]})


@groups.group(id="C02.struct", prop="C02", kind="K3", functions=["microjs.vm:VM._invoke_js_function", "microjs.vm:VM._call_callback"])
def c02_struct(tier="quick", seed=0):
    from pyvc import structural as S
    import ast
    out = []
    inv = S.fn("microjs.vm", "VM._invoke_js_function")
    called = S.called_names(inv)
    out.append(ob("C02.struct.invoke-no-host-recursion", not (called & {"_execute", "_execute_opcode", "_call_callback", "_run_callback", "run"}), "K3",
                  f"_invoke_js_function calls {sorted(called & {'_execute', '_execute_opcode', '_call_callback', '_run_callback', 'run', 'append'})}: it only pushes a frame"))
    pushes = [c for c in S.calls_to(inv, "append") if "call_stack" in _S_.unparse(c.func)]
    out.append(ob("C02.struct.invoke-pushes-one-frame", len(pushes) == 1, "K3", f"{len(pushes)} call_stack.append in _invoke_js_function"))
    # every nested run loop (host recursion) is entered only through a function that passes the explicit
    # native-depth check: `chain` = the nested dispatcher(s) and their unguarded wrappers; every call site of a
    # chain member (and every call of _execute other than VM.run) lies in a chain member or in a guard point
    allf = {}
    for mod in ("microjs.vm", "microjs.context"):
        for f in ast.walk(S.source().modules[mod].tree):
            if isinstance(f, ast.FunctionDef):
                allf.setdefault(f.name, []).append(f)
    guards = {n for n, fs in allf.items() if any("_enter_native" in S.called_names(f) for f in fs)}
    chain = {f.name for f in S.dispatchers() if f.name != "_execute"}
    changed = True
    while changed:
        changed = False
        for n, fs in allf.items():
            if n in chain or n in guards:
                continue
            if any(S.called_names(f) & chain for f in fs):
                chain.add(n)
                changed = True
    # wrappers that are themselves entry points (called from natives as vm.X) must be guards: a chain member that
    # is called from outside chain/guards is an unguarded entry
    unguarded = []
    for n, fs in allf.items():
        if n in chain or n in guards:
            continue
        for f in fs:
            cn = S.called_names(f)
            if cn & chain:
                unguarded.append(f"{n} -> {sorted(cn & chain)}")
            if "_execute" in cn and n != "run":
                unguarded.append(f"{n} -> _execute")
    public_chain = [n for n in chain if not n.startswith("_run_")]
    out.append(ob("C02.struct.native-depth-guard", not unguarded and guards and not public_chain, "K3",
                  f"nested run loop chain {sorted(chain)}, guard points {sorted(guards)}; unguarded entries: {unguarded}; chain members reachable as entry points: {public_chain}",
                  witness="function f(){ return [1].map(f) } f()"))
    # every function of the context that obtains a nested VM and lets it call back into script code makes that VM the
    # current one while it runs (otherwise code started from inside it sees the outer VM's depth again and the
    # guard never fires).  The Function constructor only evaluates a function expression in its VM.
    ctx_tree = S.module("microjs.context")
    users, not_current = [], []
    for f in ast.walk(ctx_tree):
        if isinstance(f, ast.FunctionDef) and f.name != "_nested_vm":
            inner = [g for g in ast.walk(f) if isinstance(g, ast.FunctionDef) and g is not f]
            own = [n for n in ast.walk(f) if not any(n in list(ast.walk(g)) for g in inner)]
            if any(isinstance(n, ast.Call) and isinstance(n.func, ast.Attribute) and n.func.attr == "_nested_vm" for n in own):
                users.append(f.name)
                sets = any(isinstance(n, ast.Assign) and isinstance(n.targets[0], ast.Attribute) and n.targets[0].attr == "_current_vm"
                           and isinstance(n.value, ast.Name) and n.value.id == "vm" for n in own)
                only_runs_expression = f.name == "function_constructor_fn" or all(
                    not (isinstance(n, ast.Call) and isinstance(n.func, ast.Attribute) and isinstance(n.func.value, ast.Name) and n.func.value.id == "vm"
                         and n.func.attr != "run") for n in own) and "anonymous" in _S_.unparse(f)
                if not sets and not only_runs_expression:
                    not_current.append(f.name)
    out.append(ob("C02.struct.nested-vm-made-current", len(users) >= 3 and not not_current, "K3",
                  f"functions obtaining a nested VM: {users}; not making it current while script code may run in it: {not_current}",
                  witness="var o={get x(){ return Object.values(o) }}; o.x"))
    try:
        en = S.fn("microjs.vm", "VM._enter_native")
        src = _S_.unparse(en)
        ok = "raise MemoryLimitError" in src and "self.native_depth >= self.MAX_NATIVE_DEPTH" in src
    except KeyError:
        ok = False
    out.append(ob("C02.struct.enter-native-raises", ok, "K3", "_enter_native raises MemoryLimitError at MAX_NATIVE_DEPTH"))
    from microjs.vm import VM
    md = getattr(VM, "MAX_NATIVE_DEPTH", None)
    out.append(ob("C02.struct.native-depth-band", isinstance(md, int) and 8 <= md <= 64, "K3", f"MAX_NATIVE_DEPTH = {md} (band 8..64: each level costs <= 12 host frames)"))
    # frame state discarded on return; operands dropped on throw
    d = _S_.unparse(S.fn("microjs.vm", "VM._discard_frame_state"))
    out.append(ob("C02.struct.return-discards", "del self.stack[frame.bp:]" in d.replace(" :", ":") and "self.exception_handlers.pop()" in d, "K3",
                  "RETURN truncates the operand stack to the frame base and drops the frame's handlers"))
    t = _S_.unparse(S.fn("microjs.vm", "VM._throw"))
    out.append(ob("C02.struct.throw-truncates", "del self.stack[stack_depth:]" in t, "K3", "_throw truncates the operand stack to the depth recorded at TRY_START"))
    ops = _S_.unparse(S.fn("microjs.vm", "VM._execute_opcode"))
    out.append(ob("C02.struct.return-calls-discard", ops.count("self._discard_frame_state(popped_frame)") == 2, "K3", "both RETURN opcodes call _discard_frame_state"))
    return out


RECURSION = {
    "self": "function f(){ return f() } f()", "mutual": "function a(){return b()} function b(){return a()} a()",
    "operands": "function f(){ return 1+f() } f()", "new": "function F(){ return new F() } new F()",
    "map": "function f(){ return [1].map(f) } f()", "forEach": "function f(){ [1].forEach(f) } f()",
    "filter": "function f(){ return [1].filter(f) } f()", "reduce": "function f(){ return [1,2].reduce(f) } f()",
    "sort": "function f(a,b){ return [2,1].sort(f) } f()", "find": "function f(){ return [1].find(f) } f()",
    "some": "function f(){ return [1].some(f) } f()", "every": "function f(){ return [1].every(f) } f()",
    "getter": "var o={get x(){ return this.x }}; o.x", "setter": "var o={set x(v){ this.x = v }}; o.x = 1",
    "valueOf": "var o={valueOf:function(){ return o+1 }}; o+1", "toString": "var o={toString:function(){ return ''+o }}; ''+o",
    "call": "function f(){ return f.call(null) } f()", "apply": "function f(){ return f.apply(null,[]) } f()",
    "bind": "function f(){ return f.bind(null)() } f()", "eval": "function f(){ return eval('f()') } f()",
    "Function": "function f(){ return new Function('return f()')() } f()",
    "replace-fn": "function f(){ return 'a'.replace('a', 'b') + [1].map(f) } f()",
    # script code re-entered through built-ins that read or write properties of script objects, through further
    # callback-taking built-ins, and through the remaining ways of starting a function
    "getter-values": "var o={get x(){ return Object.values(o) }}; o.x",
    "getter-entries": "var o={get x(){ return Object.entries(o) }}; o.x",
    "getter-assign": "var o={get x(){ return Object.assign({}, o) }}; o.x",
    "getter-keys-map": "var o={get x(){ return Object.keys(o).map(function(k){ return o[k] }) }}; o.x",
    "getter-forin": "var o={get x(){ var s=''; for (var k in o) s += o[k]; return s }}; o.x",
    "setter-assign": "var o={set x(v){ Object.assign(o, {x: 1}) }}; o.x = 1",
    "setter-defineProperty": "var o={}; Object.defineProperty(o, 'x', {set: function(v){ o.x = v }}); o.x = 1",
    "getter-defineProperty": "var o={}; Object.defineProperty(o, 'x', {get: function(){ return o.x }}); o.x",
    "replace-string-fn": "function f(){ return 'a'.replace('a', f) } f()",
    "replace-regex-fn": "function f(){ return 'a'.replace(/a/, f) } f()",
    "replaceAll-fn": "function f(){ return 'a'.replaceAll('a', f) } f()",
    "reduceRight": "function f(){ return [1,2].reduceRight(f) } f()",
    "findIndex": "function f(){ return [1].findIndex(f) } f()",
    "bound-method": "var o={m:function(){ return o.m.bind(o)() }}; o.m()",
    "ctor-getter": "function F(){ return new F().x } F.prototype={get x(){ return new F() }}; new F()",
    "named-fn-expr": "var f = function g(){ return [1].map(g) }; f()",
    "arrow": "var f = () => [1].map(f); f()",
    "eval-indirect": "var e = eval; function f(){ return e('f()') } f()",
    "in-catch": "function f(){ try { throw 1 } catch(e) { return f() } } f()",
    "in-finally": "function f(){ try { } finally { return f() } } f()",
    # the stop is not the script's to catch: every level tries to swallow it (try/catch, a finally that returns), in plain
    # calls and inside code run by built-ins
    "swallow-plain": "function f(){ try { f() } catch (e) { } return 1 } f()",
    "swallow-finally-return": "function f(){ try { f() } finally { return 1 } } f()",
    "swallow-callback": "function f(){ try { [1].forEach(f) } catch (e) { } return 1 } [1].forEach(f)",
    "swallow-map-sort": "function f(){ try { [2, 1].sort(function(){ return [1].map(f).length }) } catch (e) { } return 1 } f()",
    "swallow-getter": "var o={get x(){ try { return o.x } catch (e) { return 0 } }}; o.x",
    "swallow-getter-values": "var o={get x(){ try { return Object.values(o) } catch (e) { return 0 } }}; o.x",
    "swallow-eval": "function f(){ try { eval('f()') } catch (e) { } return 1 } f()",
    "swallow-Function": "function f(){ try { new Function('return f()')() } catch (e) { } return 1 } f()",
    "swallow-toString": "var o={toString:function(){ try { return '' + o } catch (e) { return '' } }}; '' + o",
    "swallow-valueOf": "var o={valueOf:function(){ try { return o * 1 } catch (e) { return 0 } }}; o * 1",
    "swallow-toJSON": "var o={toJSON:function(){ try { return JSON.stringify(o) } catch (e) { return 0 } }}; JSON.stringify(o)",
    "swallow-replace": "function f(){ try { return 'a'.replace(/a/, f) } catch (e) { return '' } } f()",
    "swallow-call-apply": "function f(){ try { f.call(null); f.apply(null, []) } catch (e) { } return 1 } f()",
    "swallow-constructor": "function F(){ try { new F() } catch (e) { } } new F()",
    "swallow-setter-assign": "var o={set x(v){ try { Object.assign(o, {x: 1}) } catch (e) { } }}; o.x = 1",
}


def _rec_case(args):
    import time
    name, src, M = args
    from microjs import Context
    from microjs.errors import MemoryLimitError, TimeLimitError, JSError
    t0 = time.process_time()      # CPU time: "in time proportional to M" must not depend on the load of the machine
    try:
        r = Context(memory_limit=M, time_limit=120).eval(src)
        kind = "returned " + repr(r)[:30]
    except MemoryLimitError:
        kind = "MemoryLimitError"
    except TimeLimitError:
        kind = "TimeLimitError"
    except JSError as e:
        kind = "JSError " + str(e)[:50]
    except BaseException as e:  # noqa
        kind = "HOST " + type(e).__name__
    return name, M, kind, time.process_time() - t0


@groups.group(id="C02.bounded.recursion", prop="C02", kind="B", functions=["microjs.context:Context.eval"])
def c02_recursion(tier="quick", seed=0):
    import multiprocessing as mp
    Ms = [2000, 100000, 3000000] if tier == "quick" else [1000, 2000, 20000, 100000, 1000000, 3000000, 10 ** 7]
    cases = [(n, s, M) for n, s in RECURSION.items() for M in Ms]
    with mp.get_context("fork").Pool(8) as pool:
        res = pool.map(_rec_case, cases)
    out = []
    for n in RECURSION:
        # "in time proportional to M": ten seconds of CPU time, or six microseconds per byte of the limit (a level of a recursion
        # through eval / Function compiles its code again: about 150 microseconds per 200-byte frame)
        bad = [(M, k, dt) for (nn, M, k, dt) in res if nn == n and (k != "MemoryLimitError" or dt > max(10.0, M * 6e-6))]
        out.append(ob(f"C02.bounded.recursion.{n}", not bad, "B", "ok" if not bad else f"M={bad[0][0]}: {bad[0][1]} after {bad[0][2]:.1f}s",
                      witness=(RECURSION[n] if bad else None), confirmed=True if bad else None, domain=len(Ms)))
    return out


def _residue_chunk(progs):
    """each loop skeleton as the body of 1500 iterations under a memory limit that fits one iteration"""
    import specs.es_control as SK
    from microjs import Context
    from microjs.errors import MemoryLimitError
    from microjs.vm import VM
    import signal

    def boom(*a):
        raise TimeoutError("no result after 60 s of CPU time")
    signal.signal(signal.SIGPROF, boom)
    bad = []
    n = 0
    for combo, leaf, prog in progs:
        body = SK.js(prog)
        src = (SK.PRELUDE.replace("log.push(t);", "").replace("log.push('sw');", "").replace("log.push(t + counts[t]);", "").replace("log.push('T' + t);", "")
               + "function P(){ " + body + " return 'end' }\nvar i; for (i = 0; i < 1500; i++) { counts = {}; try { P() } catch (e) { } }\ni")
        n += 1
        leftovers = []
        orig = VM.run

        def run(self, compiled, _o=orig, _l=leftovers):
            r = _o(self, compiled)
            _l.append((len(self.stack), len(self.exception_handlers), len(self.call_stack)))
            return r
        VM.run = run
        signal.setitimer(signal.ITIMER_PROF, 60)      # CPU-time watchdog instead of a wall-clock time_limit
        try:
            r = Context(memory_limit=6000).eval(src)
            if r != 1500:
                bad.append((combo, leaf, src, f"returned {r!r}"))
            elif leftovers and leftovers[-1] != (0, 0, 0):
                bad.append((combo, leaf, src, f"residue after run: (stack, handlers, frames) = {leftovers[-1]}"))
        except MemoryLimitError:
            bad.append((combo, leaf, src, "MemoryLimitError after bounded iterations"))
        except Exception as e:  # noqa
            bad.append((combo, leaf, src, f"{type(e).__name__}: {str(e)[:80]}"))
        finally:
            signal.setitimer(signal.ITIMER_PROF, 0)
            VM.run = orig
    return n, bad


@groups.group(id="C02.bounded.residue", prop="C02", kind="B", functions=["microjs.context:Context.eval"])
def c02_residue(tier="quick", seed=0):
    import multiprocessing as mp
    import specs.es_control as SK
    from contracts.C05_control import _valid_labels
    depth = 1 if tier == "quick" else 2
    progs = [(c, l, p) for d in range(1, depth + 1) for (c, l, p) in SK.skeletons(d) if _valid_labels(c, l)]
    chunks = [progs[i::16] for i in range(16)]
    with mp.get_context("fork").Pool(16) as pool:
        rs = pool.map(_residue_chunk, chunks)
    bad = [b for r in rs for b in r[1]]
    by = {}
    for c, l, p in progs:
        by.setdefault(c[0], [0, None])[0] += 1
    for c, l, src, why in bad:
        if by[c[0]][1] is None:
            by[c[0]][1] = (src, why)
    return [ob(f"C02.bounded.residue.{k}", b is None, "B", f"{n} skeletons x 1500 iterations under memory_limit=6000" if b is None else b[1],
               witness=(b[0] if b else None), confirmed=True if b else None, domain=n) for k, (n, b) in sorted(by.items())]


# =======================================================================================================================
# K1: what a returning frame leaves behind, for every operand stack, handler stack and call depth
# =======================================================================================================================
from pyvc.api import *      # noqa: E402


def inv_discard(self, depth):
    """the handler stack is a prefix of what it was, and every record above it belonged to a frame that has been left
    (stated for the arbitrary index `i` of the contract: a universally quantified fact)"""
    hs0 = ghost_get("hs0", None)
    i = ghost_get("i", None)
    n = len(self.exception_handlers)
    if not heap_unchanged(loop_entry(), (self.exception_handlers, "list.items")):
        return False
    if not (n <= len(hs0) and same_elements(self.exception_handlers, hs0[:n])):
        return False
    return not (n <= i and i < len(hs0)) or hs0[i][0] >= depth


inv_discard = writes("list.items")(inv_discard)


def c_discard_frame_state(vm: Obj("VM"), frame: Obj("CallFrame"), stack: ValList, hs: ValList, frames: ValList, bp: IntRange(0, 2 ** 20), i: IntRange(0, 2 ** 20)):
    """_discard_frame_state(frame), called when `frame` has just been popped: the operand stack is cut back to the frame's
    base -- nothing the frame pushed (for-in / for-of iterators, switch discriminants, pending operands) reaches the
    caller -- and the handler records are dropped from the top exactly while they belong to frames at or above the new
    call depth (for every index i: dropped records are such records, and the record left on top is not); the call stack
    itself and every other object are untouched"""
    assume(not same_ref(stack, hs) and not same_ref(stack, frames) and not same_ref(hs, frames))
    elems_are(hs, "tuple-of-3-int")
    frame.bp = bp
    vm.stack = stack
    vm.exception_handlers = hs
    vm.call_stack = frames
    stack0, hs0, frames0 = stack[:], hs[:], frames[:]
    elems_are(hs0, "tuple-of-3-int")
    ghost_set("hs0", hs0)
    ghost_set("i", i)
    depth = len(frames)
    snap = heap_snapshot()
    r = outcome(REAL, vm, frame)
    check("never-raises", r[0] == "ret")
    check("operands-cut-to-the-frame-base", same_elements(vm.stack, stack0[:bp]))
    k = len(vm.exception_handlers)
    check("handlers-are-a-prefix", k <= len(hs0) and same_elements(vm.exception_handlers, hs0[:k]))
    check("dropped-records-belong-to-left-frames", not (k <= i and i < len(hs0)) or hs0[i][0] >= depth)
    check("record-left-on-top-belongs-to-a-live-frame", k == 0 or (k <= len(hs0) and hs0[k - 1][0] < depth))
    check("call-stack-untouched", same_elements(vm.call_stack, frames0))
    check("frame.nothing-else", heap_unchanged(snap, (stack, "list.items"), (hs, "list.items")))


def _native_discard():
    from microjs.vm import VM
    return VM._discard_frame_state


register(c_discard_frame_state, id="C02.VM._discard_frame_state", prop="C02", target=method("microjs.vm", "VM._discard_frame_state"), native=_native_discard,
         invariants={("microjs.vm:VM._discard_frame_state", 0): inv_discard}, prim_args=False)


# ---- K1: the nesting guard of script code run by built-ins (what keeps callback-mediated recursion off the host's stack) ----
def c_enter_native(vm: Obj("VM"), depth: IntRange(0, 10 ** 9)):
    """VM._enter_native: one more level of script code running inside a built-in is counted, or -- at the guard -- refused
    with MemoryLimitError and not counted; nothing else changes.  (Context._nested_vm, proved in C01, hands the count on
    to the VM of nested code; every caller undoes the count in a finally: K3 C02.struct.native-depth-guard)"""
    vm.native_depth = depth
    limit = vm.MAX_NATIVE_DEPTH
    snap = heap_snapshot()
    o = outcome(REAL, vm)
    if depth >= limit:
        check("refused-at-the-guard", exc_in(o, ("MemoryLimitError",)))
        check("not-counted-when-refused", vm.native_depth == depth)
    else:
        check("returns-below-the-guard", o[0] == "ret")
        check("counts-one-level", vm.native_depth == depth + 1)
    check("the-guard-is-a-small-constant", 1 <= limit and limit <= 200)
    check("nothing-else-changes", heap_unchanged(snap, (vm, "native_depth")))


def _native_enter():
    from microjs.vm import VM
    return VM._enter_native


register(c_enter_native, id="C02.VM._enter_native", prop="C02", target=method("microjs.vm", "VM._enter_native"), native=_native_enter)
register(C01.c_nested_vm, id="C02.Context._nested_vm", prop="C02", target=method("microjs.context", "Context._nested_vm"), native=C01._ctx_method("_nested_vm"),
         grid={"Flt": [0.0, 1.0, 1e6]})
