"""C15 - evaluation is deterministic and independent of host hash randomisation.
K3: every iteration over a set in the compiler feeds name-keyed tables only; no hidden inputs (time, random, id,
hash, object reprs) outside Math.random/Date.now/limit checks.  B: generated closure-heavy programs with a known
result (Python twin) under 16 hash seeds and in shuffled batch orders."""
from pyvc import structural as _S_
from pyvc import groups
from pyvc.groups import ob


@groups.group(id="C15.struct", prop="C15", kind="K3", functions=["microjs.compiler:Compiler", "microjs.vm:VM._execute_opcode[MAKE_CLOSURE]"])
def c15_struct(tier="quick", seed=0):
    from pyvc import structural as S
    import ast
    out = []
    comp = S.source().modules["microjs.compiler"].tree
    # 1. inventory of set-order consumers in the compiler: list(<set>) and `for x in <set>` where <set> is one of the
    #    scope-analysis sets; each may only feed the name tables (locals / _cell_vars / _free_vars)
    set_names = {"captured", "required_free", "local_vars_set", "free_vars", "var_set", "locals_set", "nested_free", "inner_captured", "params", "local_vars", "nested_locals", "nested_params"}
    consumers = []
    for f in ast.walk(comp):
        if not isinstance(f, ast.FunctionDef):
            continue
        for n in ast.walk(f):
            if isinstance(n, ast.Call) and getattr(n.func, "id", "") in ("list", "tuple", "sorted", "enumerate", "next", "iter") and n.args and isinstance(n.args[0], ast.Name) and n.args[0].id in set_names:
                consumers.append((f.name, n.lineno, _S_.unparse(n)))
            if isinstance(n, ast.For) and isinstance(n.iter, ast.Name) and n.iter.id in set_names:
                consumers.append((f.name, n.lineno, "for " + _S_.unparse(n.target) + " in " + n.iter.id))
            if isinstance(n, ast.Call) and isinstance(n.func, ast.Attribute) and n.func.attr == "pop" and isinstance(n.func.value, ast.Name) and n.func.value.id in set_names:
                consumers.append((f.name, n.lineno, _S_.unparse(n)))
    # the only order-sensitive uses allowed are those that feed another SET (membership only); whatever numbers slots
    # (locals, cell and free variable tables) must go through sorted(): slot numbers reach the script through the
    # "operand N does not fit" refusal and decide which variable trips a size limit
    allowed_forms = ("for var in nested_free",)
    bad = [c for c in consumers if c[2] not in allowed_forms and not c[2].startswith("sorted(")]
    out.append(ob("C15.struct.set-order-consumers", not bad and len(consumers) >= 4, "K3",
                  f"set-order consumers: {[(c[0], c[2]) for c in consumers]}; neither sorted() nor feeding a set: {bad}",
                  witness="a function with 300 used locals: the refusal names a different operand under each PYTHONHASHSEED"))
    feeds_set = True
    for f in ast.walk(comp):
        if isinstance(f, ast.FunctionDef):
            for n in ast.walk(f):
                if isinstance(n, ast.For) and isinstance(n.iter, ast.Name) and n.iter.id == "nested_free":
                    calls = [c for c in ast.walk(n) if isinstance(c, ast.Call)]
                    stores = [c for c in ast.walk(n) if isinstance(c, (ast.Assign, ast.AugAssign))]
                    feeds_set = feeds_set and not stores and all(isinstance(c.func, ast.Attribute) and c.func.attr in ("add", "_is_in_outer_scope") for c in calls)
    out.append(ob("C15.struct.set-order-consumers.loops-feed-sets", feeds_set, "K3", "the loops over nested_free only add to another set"))
    # 1b. the same question for every module, by inference instead of by variable name: an expression is a set if it
    # is a set display/comprehension, set()/frozenset(), set arithmetic (also on dict key/item views, which yields a set),
    # a call of a function that returns one, or a local assigned from one; order-sensitive uses are for-loops, list/tuple/
    # enumerate/iter/next/zip/join/extend/fromkeys, comprehensions other than set comprehensions, unpacking and pop()
    found, set_funcs = S.scan_all(S.source().modules)
    bad2 = [c for c in found if not (c[0] == "microjs.compiler" and c[3] in allowed_forms)]   # (sorted() is not order sensitive and is not reported)
    out.append(ob("C15.struct.set-order-consumers.all-modules", not bad2 and len(found) >= 4, "K3",
                  f"{len(found)} order-sensitive uses of a set in the package (set-returning functions: {sorted(set_funcs)}); outside the compiler's name tables: {bad2}",
                  witness="enumerate the own keys of a function's prototype object under several PYTHONHASHSEED values"))
    # 2. slots are always resolved by name
    for fn, pat in (("_get_local", "self.locals.index(name)"), ("_get_cell_var", "self._cell_vars.index(name)"), ("_get_free_var", "self._free_vars.index(name)"),
                    ("_add_local", "self.locals.index(name)")):
        src = _S_.unparse(S.fn("microjs.compiler", "Compiler." + fn))
        out.append(ob(f"C15.struct.by-name.{fn}", pat in src, "K3", f"{fn} resolves the slot with {pat}"))
    ops = _S_.unparse(S.fn("microjs.vm", "VM._execute_opcode"))
    out.append(ob("C15.struct.make-closure-by-name", "frame.func.cell_vars.index(var_name)" in ops and "frame.func.free_vars.index(var_name)" in ops and "for var_name in compiled_func.free_vars:" in ops, "K3",
                  "MAKE_CLOSURE wires every free variable by name"))
    inv = _S_.unparse(S.fn("microjs.vm", "VM._invoke_js_function"))
    out.append(ob("C15.struct.cells-by-name", "for var_name in compiled.cell_vars:" in inv and "compiled.locals.index(var_name)" in inv, "K3", "cell storage is initialised by name"))
    # positional reuse of another function's slot table would be order dependent: no zip / [i] over free_vars / cell_vars
    pos = [_S_.unparse(n)[:60] for n in ast.walk(S.source().modules["microjs.vm"].tree)
           if isinstance(n, ast.Subscript) and isinstance(n.value, ast.Attribute) and n.value.attr in ("free_vars", "cell_vars") and not isinstance(n.ctx, ast.Store)]
    out.append(ob("C15.struct.no-positional-slot-tables", not pos, "K3", f"positional reads of free_vars/cell_vars in vm.py: {pos}"))
    # 3. hidden inputs
    hidden = []

    def own_nodes(f):
        """nodes of a function excluding nested defs (lambdas are attributed to the enclosing def)"""
        stack = list(ast.iter_child_nodes(f))
        while stack:
            n = stack.pop()
            if isinstance(n, ast.FunctionDef):
                continue
            yield n
            stack.extend(ast.iter_child_nodes(n))
    for mod in ("microjs.vm", "microjs.context", "microjs.values", "microjs.compiler", "microjs.parser", "microjs.lexer"):
        for f in ast.walk(S.source().modules[mod].tree):
            if not isinstance(f, ast.FunctionDef):
                continue
            for n in own_nodes(f):
                if isinstance(n, ast.Call):
                    t = _S_.unparse(n.func)
                    if t in ("id", "hash", "os.urandom", "os.getpid", "random.random", "random.randint", "time.time", "time.monotonic", "time.perf_counter", "uuid.uuid4"):
                        hidden.append((mod.split(".")[-1], f.name, t))
    allowed = {("vm", "attempt", "id"),      # key of a per-call dictionary (one matcher per RegExp object for the call): never ordered, never shown
               ("vm", "run", "time.monotonic"), ("vm", "_check_limits", "time.monotonic"), ("vm", "check_timeout", "time.monotonic"), ("vm", "<lambda>", "time.monotonic"),
               ("context", "check_timeout", "time.monotonic"), ("context", "random_fn", "random.random"), ("context", "now_fn", "time.time"),
               ("context", "_call_function", "time.monotonic"), ("vm", "match", "time.monotonic"), ("vm", "search", "time.monotonic"),
               ("values", "convert", "id"), ("context", "_to_python", "id"), ("context", "_to_js", "id"), ("vm", "_adopt", "id"),      # (memo tables / visited sets of one conversion)
               ("context", "_nested_vm", "time.monotonic"), ("vm", "_arm_regex", "time.monotonic")}                # (deadline checks)
    bad = [h for h in hidden if h not in allowed]
    out.append(ob("C15.struct.hidden-inputs", not bad, "K3", f"clock/random/identity reads: {sorted(set(hidden))}; not on the allow-list: {bad}"))
    return out


# programs whose result is an enumeration order (creation order, whatever the hash seed): prototype objects (which carry a
# hidden `constructor`), objects with accessors, deleted and re-created keys, inherited keys, built-in results
class _Any:
    def __eq__(self, other):
        return True

    def __repr__(self):
        return '<same in every process>'


ANY = _Any()
ENUM_PROGS = [
    ("function S(){}; S.prototype.area = function(){}; S.prototype.name2 = 's'; S.prototype.zed = 1; S.prototype.alpha = 2; S.prototype.mid = 3; var ks = []; "
     "for (var k in S.prototype) ks.push(k); ks.join() + '|' + Object.keys(S.prototype).join()", "area,name2,zed,alpha,mid|area,name2,zed,alpha,mid"),
    ("var o = {get b(){ return 1 }, a: 2, set c(v){}, d: 4, zz: 5, k: 6}; Object.keys(o).join()", "b,a,c,d,zz,k"),
    ("var o = {}; ['q','w','e','r','t','y'].forEach(function(k){ o[k] = 1 }); delete o.e; o.e = 2; Object.keys(o).join()", "q,w,r,t,y,e"),
    ("function F(){ this.m = 1; this.n = 2; this.zq = 3 } F.prototype.p = 3; F.prototype.q = 4; F.prototype.aa = 5; var ks = []; for (var k in new F()) ks.push(k); ks.join()", "m,n,zq"),      # (for-in: own keys only, as the engine documents)
    ("var o = {z: 1, y: 2, x: 3, w: 4, v: 5}; JSON.stringify(o) + Object.values(o).join('') + Object.entries(o).map(function(e){ return e[0] }).join('')", '{"z":1,"y":2,"x":3,"w":4,"v":5}12345zyxwv'),
    ("var t = Object.assign({}, {one: 1, two: 2, three: 3, four: 4}); Object.keys(t).join()", "one,two,three,four"),
    # text of functions and host objects: the same in every process (no addresses, no reprs)
    ("[String(Math.max), '' + parseInt, [JSON.parse, Object.keys].join('|'), String(function named(a) { return a }), '' + (() => 1), String(Math), String(JSON), String(new Error('e')), "
     "String(/r/g), String([1, [2]]), String({}), String(Object), String(Array), String((function(){}).bind(null)), String(new Uint8Array(2)), String(new ArrayBuffer(2))].join('#')", ANY),
    ("var o = Object.create({inh1: 1, inh2: 2, inh3: 3}); o.own1 = 1; o.own2 = 2; var ks = []; for (var k in o) ks.push(k); ks.join()", "own1,own2"),
    # error messages: the same text in every process (values are described, never printed with the host's repr)
    ("var ms = []; [function(){ new Math.abs() }, function(){ ({f: Math.abs})() }, function(){ Math() }, function(){ var o = {f: parseInt}; o() }, function(){ new (() => 1)() },"
     " function(){ [1].map({}) }, function(){ [1].sort(JSON) }, function(){ new JSON() }, function(){ (1.5)() }, function(){ 'abc'.replace(/b/, Math)(); }, function(){ null.x },"
     " function(){ undefinedName }, function(){ new Array(-1) }].forEach(function(t){ try { t(); ms.push('no error') } catch (e) { ms.push(e.name + ': ' + e.message) } }); ms.join('#')", ANY),
    # what is refused for its size is refused with the same words in every process (slot numbers are not hash ordered)
    ("function big(){ " + "".join(f"var v{i} = {i}; " for i in range(300)) + "return " + " + ".join(f"v{i}" for i in range(300)) + " } big()", ("exc", ANY)),
    ("function big2(" + ", ".join(f"p{i}" for i in range(20)) + "){ " + "".join(f"var w{i} = function(){{ return w{i} }}; " for i in range(280)) + "return 1 } big2()", ("exc", ANY)),
]


def _seed_worker(args):
    seed_env, progs = args
    import subprocess, json, os, sys
    code = ("import sys, json; sys.path.insert(0, %r); from microjs import Context\n"
            "progs = json.load(sys.stdin); out = []\n"
            "for p in progs:\n"
            "    try: out.append(['ok', Context(time_limit=5).eval(p)])\n"
            "    except Exception as e: out.append(['exc', type(e).__name__ + ': ' + str(e)[:80]])\n"
            "print(json.dumps(out))\n") % os.environ.get("MICROJS_SRC", "/repo/src")
    env = dict(os.environ, PYTHONHASHSEED=str(seed_env))
    r = subprocess.run(["/venv/bin/python", "-c", code], input=json.dumps(progs), capture_output=True, text=True, env=env, timeout=300)
    if r.returncode != 0:
        return seed_env, None, r.stderr[-300:]
    return seed_env, json.loads(r.stdout), None


@groups.group(id="C15.bounded.hashseeds", prop="C15", kind="B", functions=["microjs.compiler:Compiler._compile_function"])
def c15_hashseeds(tier="quick", seed=0):
    import multiprocessing as mp
    import specs.gen_closures as G
    n = 120 if tier == "quick" else 1200
    progs, expect = [], []
    for i in range(n):
        js, exp = G.program(seed * 100000 + i)
        progs.append(js)
        expect.append(exp)
    for js, exp in list(G.EXTRA) + ENUM_PROGS:
        progs.append(js)
        expect.append(exp)
    seeds = list(range(16)) if tier == "quick" else list(range(32))
    with mp.get_context("fork").Pool(16) as pool:
        res = pool.map(_seed_worker, [(s, progs) for s in seeds])
    out = []
    bad_seed = None
    wrong = None
    for s, outs, err in res:
        if outs is None:
            bad_seed = (s, "subprocess failed: " + (err or ""))
            continue
        for i, o in enumerate(outs):
            want = ["exc", expect[i][1]] if isinstance(expect[i], tuple) and expect[i][:1] == ("exc",) else ["ok", expect[i]]
            if o != want and wrong is None:
                wrong = (s, i, o, expect[i])
    base = next((outs for s, outs, e in res if outs is not None), None)
    differs = None
    for s, outs, err in res:
        if outs is not None and outs != base and differs is None:
            i = next(i for i in range(len(outs)) if outs[i] != base[i])
            differs = (s, i, outs[i], base[i])
    out.append(ob("C15.bounded.hashseeds.same-outcome", differs is None and bad_seed is None, "B",
                  f"{len(progs)} programs x {len(seeds)} hash seeds agree" if differs is None and not bad_seed else f"seed {differs[0] if differs else bad_seed}: program {differs[1] if differs else ''} gives {differs[2] if differs else ''} vs {differs[3] if differs else ''}",
                  witness=(f"PYTHONHASHSEED={differs[0]}:\n" + progs[differs[1]]) if differs else None, confirmed=True if differs else None, domain=len(progs) * len(seeds)))
    out.append(ob("C15.bounded.hashseeds.expected-result", wrong is None, "B",
                  f"all results equal the Python twin" if wrong is None else f"seed {wrong[0]} program {wrong[1]}: engine {wrong[2]} expected {wrong[3]}",
                  witness=(progs[wrong[1]] if wrong else None), confirmed=True if wrong else None, domain=len(progs)))
    return out


@groups.group(id="C15.bounded.batch-order", prop="C15", kind="B", functions=["microjs.context:Context"])
def c15_batch(tier="quick", seed=0):
    """the outcome of each program does not depend on what other contexts evaluated before in the same process
    (including programs that fail at compile time or run time)"""
    import random
    import specs.gen_closures as G
    from microjs import Context
    rng = random.Random(seed)
    progs = [G.program(1000 + i)[0] for i in range(25)] + [js for js, _ in G.EXTRA] + [
        "function a(){ function b(){ break } } 1", "function a(){ return function(){ continue } } 2", "var x = ;", "null.x", "(function f(){ return f() })()",
        "var q = 1; function g(){ return q } g()", "function h(){ var q = 2; return function(){ return q } } h()()",
        # programs that write to their context's built-ins, and programs that read the same members on a fresh context
        "Math.clamp = function(){ return 1 }; Math.max = undefined; typeof Math.clamp", "typeof Math.clamp + '|' + typeof Math.max + '|' + Math.max(1, 2)",
        "JSON.extra = 1; JSON.parse = null; typeof JSON.extra", "typeof JSON.extra + '|' + typeof JSON.parse", "Array.prototype.zz = 1; Array.isArray = 5; [].zz",
        "typeof [].zz + '|' + typeof [1].slice().zz + '|' + typeof Array.isArray", "Object.prototype.pp = 1; Object.keys = 0; ({}).pp", "typeof ({}).pp + '|' + typeof Object.keys",
        "String.fromCharCode = 7; parseInt.mark = 1; Error.prototype.tag = 2; 0", "typeof String.fromCharCode + '|' + typeof parseInt.mark + '|' + typeof new Error('x').tag",
        "Number.MAX_SAFE_INTEGER = 1; Number.isInteger = 0; Date.now = 3; 0", "Number.MAX_SAFE_INTEGER + '|' + typeof Number.isInteger + '|' + typeof Date.now"] + [js for js, _ in ENUM_PROGS]

    def run(p):
        try:
            return ("ok", Context(memory_limit=10 ** 5).eval(p))      # no time limit: the outcome must not depend on the load of the machine
        except Exception as e:  # noqa
            return ("exc", type(e).__name__)
    base = [run(p) for p in progs]
    bad = None
    rounds = 6 if tier == "quick" else 40
    for r in range(rounds):
        order = list(range(len(progs)))
        rng.shuffle(order)
        for i in order:
            got = run(progs[i])
            if got != base[i] and bad is None:
                bad = (order, i, got, base[i])
    return [ob("C15.bounded.batch-order", bad is None, "B", f"{len(progs)} programs x {rounds} shuffled orders" if bad is None else f"program {bad[1]} gives {bad[2]} instead of {bad[3]} in order {bad[0][:8]}...",
               witness=(progs[bad[1]] if bad else None), confirmed=True if bad else None, domain=len(progs) * rounds)]


@groups.group(id="C15.struct.process-state", prop="C15", kind="K3", functions=["microjs (module-level state)"])
def c15_process_state(tier="quick", seed=0):
    """nothing survives in the process from one context (or evaluation) to the next: no module-level or class-level
    mutable container is ever mutated, no `global` statement, no memoising decorator (the analysis of C12, which
    a result depending on earlier contexts in the same process would have to get past)"""
    from contracts.C12_context import process_state
    return process_state("C15", tier, seed)


# =======================================================================================================================
# K1: slots are found BY NAME in the tables, whatever the order of the tables (for every table and every name)
# =======================================================================================================================
from pyvc.api import *      # noqa: E402


def _slot_post(table, name, r, j):
    """r is the FIRST position of name in table (j is any position), or None when the name is not in the table"""
    if r is None:
        return not (0 <= j and j < len(table)) or table[j] != name
    return 0 <= r and r < len(table) and table[r] == name and (not (0 <= j and j < r) or table[j] != name)


def c_get_local(comp: Obj("Compiler"), table: ValList, name: Str, j: IntRange(0, 2 ** 20)):
    """Compiler._get_local(name): the slot of a local is the position of its NAME in the locals table (None if absent) --
    no other input (no set order, no counter); the table is not touched"""
    assume(elems_are(table, "str"))
    comp.locals = table
    snap = heap_snapshot()
    o = outcome(REAL, comp, name)
    check("never-raises", o[0] == "ret")
    check("position-of-the-name", _slot_post(table, name, o[1], j))
    check("reads-only", heap_unchanged(snap))


def c_get_cell_var(comp: Obj("Compiler"), table: ValList, name: Str, j: IntRange(0, 2 ** 20)):
    """Compiler._get_cell_var(name): likewise for the cell table"""
    assume(elems_are(table, "str"))
    comp._cell_vars = table
    snap = heap_snapshot()
    o = outcome(REAL, comp, name)
    check("never-raises", o[0] == "ret")
    check("position-of-the-name", _slot_post(table, name, o[1], j))
    check("reads-only", heap_unchanged(snap))


def c_add_local(comp: Obj("Compiler"), table: ValList, name: Str, j: IntRange(0, 2 ** 20)):
    """Compiler._add_local(name): an existing local keeps its slot and the table stays as it is; a new one is appended
    (so every earlier slot keeps its name) and gets the last slot"""
    assume(elems_are(table, "str"))
    comp.locals = table
    n = len(table)
    present = name in table
    o = outcome(REAL, comp, name)
    check("never-raises", o[0] == "ret")
    after = comp.locals
    if present:
        check("existing.table-unchanged", same_ref(after, table) and len(after) == n)
        check("existing.first-position", _slot_post(table, name, o[1], j))
    else:
        check("new.appended-last", len(after) == n + 1 and after[n] == name and o[1] == n)
    check("earlier-slots-keep-their-names", not (0 <= j and j < n) or same_value(after[j], table[j]))


def _native_comp(name):
    def make():
        from microjs.compiler import Compiler
        return getattr(Compiler, name)
    return make


register(c_get_local, id="C15.Compiler._get_local", prop="C15", target=method("microjs.compiler", "Compiler._get_local"), native=_native_comp("_get_local"))
register(c_get_cell_var, id="C15.Compiler._get_cell_var", prop="C15", target=method("microjs.compiler", "Compiler._get_cell_var"), native=_native_comp("_get_cell_var"))
register(c_add_local, id="C15.Compiler._add_local", prop="C15", target=method("microjs.compiler", "Compiler._add_local"), native=_native_comp("_add_local"))
