"""C19 - JSON.parse / JSON.stringify implement the JSON / ECMAScript contract.
K3: the adapter obligations that can be decided on the real closures (constants rejected by hook, catchable error
classes, no host encoder).  B: generated values / texts / near-miss texts against an independent serializer written
from ECMA-262 25.5 (below) and the JSON grammar (Python's decoder with the non-JSON extensions switched off is used
only as a second opinion on *acceptance*; it is an assumed dependency contract)."""
from pyvc import structural as _S_
import json, math, random
from pyvc import groups
from pyvc.groups import ob
from specs.es_core import number_to_string


def quote(s):
    """25.5.2.3 QuoteJSONString"""
    out = ['"']
    for ch in s:
        o = ord(ch)
        if ch == '"':
            out.append('\\"')
        elif ch == "\\":
            out.append("\\\\")
        elif ch == "\b":
            out.append("\\b")
        elif ch == "\f":
            out.append("\\f")
        elif ch == "\n":
            out.append("\\n")
        elif ch == "\r":
            out.append("\\r")
        elif ch == "\t":
            out.append("\\t")
        elif o < 0x20 or 0xD800 <= o <= 0xDFFF:
            out.append("\\u%04x" % o)
        else:
            out.append(ch)
    return "".join(out) + '"'


UNDEF = ("<undefined>",)
FUNC = ("<function>",)


def es_stringify(v):
    """25.5.2.2 SerializeJSONProperty over Python stand-ins: None=null, UNDEF, FUNC, bool, int/float, str, list, dict"""
    if v == UNDEF or v == FUNC:
        return None
    if v is None:
        return "null"
    if v is True:
        return "true"
    if v is False:
        return "false"
    if isinstance(v, (int, float)):
        if isinstance(v, float) and (math.isnan(v) or math.isinf(v)):
            return "null"
        return number_to_string(v)
    if isinstance(v, str):
        return quote(v)
    if isinstance(v, list):
        return "[" + ",".join(es_stringify(x) or "null" for x in v) + "]"
    if isinstance(v, dict):
        parts = []
        for k, x in v.items():
            t = es_stringify(x)
            if t is not None:
                parts.append(quote(k) + ":" + t)
        return "{" + ",".join(parts) + "}"
    raise TypeError(v)


def js_literal(v):
    if v == UNDEF:
        return "undefined"
    if v == FUNC:
        return "(function(){})"
    if v is None:
        return "null"
    if v is True:
        return "true"
    if v is False:
        return "false"
    if isinstance(v, float):
        if math.isnan(v):
            return "NaN"
        if math.isinf(v):
            return "Infinity" if v > 0 else "-Infinity"
        if v == 0 and math.copysign(1, v) < 0:
            return "-0"
        return repr(v)
    if isinstance(v, int):
        return str(v)
    if isinstance(v, str):
        return _js_string(v)
    if isinstance(v, list):
        return "[" + ",".join(js_literal(x) for x in v) + "]"
    return "({" + ",".join(_js_string(k) + ":" + js_literal(x) for k, x in v.items()) + "})"


def _js_string(s):
    """JS string literal; astral characters stay raw (one code point), U+2028/2029 and lone surrogates are escaped"""
    return json.dumps(s, ensure_ascii=False).replace("\u2028", "\\u2028").replace("\u2029", "\\u2029")


STRS = ["", "a", "é", "  ", "q\"uo\\te", "\b\f\n\r\t", "\x00\x1f\x7f", "日本", "😀", "a/b", "\ud800", "tab\there", " sp ", "__proto__", "0", "key with space"]
NUMS = [0, 1, -1, 42, 2 ** 31, 2 ** 53, 1.5, -0.0, 0.1, 1e21, 1e-7, 123456789.125, 5e-324, 1.7976931348623157e308, float("nan"), float("inf"), float("-inf"), 1e300, 100.0, 255]


def gen_value(r, depth, allow_undef=True):
    k = r.random()
    if depth <= 0 or k < 0.45:
        c = r.random()
        if c < 0.3:
            return r.choice(NUMS)
        if c < 0.6:
            return r.choice(STRS)
        if c < 0.7:
            return None
        if c < 0.85:
            return r.choice([True, False])
        if allow_undef:
            return r.choice([UNDEF, FUNC])
        return None
    if k < 0.72:
        return [gen_value(r, depth - 1, allow_undef) for _ in range(r.randint(0, 4))]
    d = {}
    for _ in range(r.randint(0, 4)):
        d[r.choice(STRS[:13] + ["k1", "k2", "z"])] = gen_value(r, depth - 1, allow_undef)
    return d


def gen_text(r, depth):
    """a JSON text from the grammar, with insignificant whitespace and escapes"""
    ws = lambda: r.choice(["", "", " ", "\n", "\t ", "\r\n"])
    k = r.random()
    if depth <= 0 or k < 0.4:
        c = r.random()
        if c < 0.35:
            return r.choice(["0", "-0", "1", "-12", "1.5", "1e5", "1E-2", "2.50", "1e400", "123456789012345678901234567890", "0.1", "-1.5e+3", "9007199254740993"])
        if c < 0.7:
            return r.choice(['""', '"a"', '"\\u00e9"', '"\\n\\t\\"\\\\\\/"', '"\\ud83d\\ude00"', '"\\ud800"', '"é日本"', '"a b"', '"\\u0000"'])
        return r.choice(["null", "true", "false"])
    if k < 0.7:
        return "[" + ws() + ("," + ws()).join(gen_text(r, depth - 1) for _ in range(r.randint(0, 3))) + ws() + "]"
    items = []
    for _ in range(r.randint(0, 3)):
        items.append(r.choice(['"a"', '"b"', '""', '"a"', '"\\u0061"', '"k k"']) + ws() + ":" + ws() + gen_text(r, depth - 1))
    return "{" + ws() + ("," + ws()).join(items) + ws() + "}"


def mutate(r, t):
    ops = r.random()
    i = r.randrange(len(t) + 1)
    if ops < 0.3 and t:
        j = r.randrange(len(t))
        return t[:j] + t[j + 1:]
    if ops < 0.7:
        return t[:i] + r.choice([",", ":", "]", "}", "[", "{", '"', "'", "NaN", "Infinity", "undefined", "0", ".", "e", "+", "-", "\\", "/", "\x0b", "\xa0", "﻿", " ", "tru", "//c", "/**/", "01", "\x00"]) + t[i:]
    return t + r.choice([" x", ",", "]", "\xa0", "\x0c", "1", " ", "\n"]) if ops < 0.9 else r.choice(["\xa0", "\x0c", "﻿"]) + t


def py_accepts(text):
    """JSON grammar acceptance (ECMA-404) + value, by Python's decoder with its extensions rejected"""
    def reject(x):
        raise ValueError(x)
    try:
        if text != text.strip(" \t\n\r"):
            # only the four JSON whitespace characters may surround the value
            core = text.strip(" \t\n\r")
        # (the number -0 is negative zero in ECMAScript; Python's decoder reads the integer literal -0 as 0)
        v = json.loads(text, parse_constant=reject, parse_int=lambda lit: -0.0 if lit.startswith("-") and lit.strip("-0") == "" else int(lit))
        return True, v
    except (ValueError, RecursionError):
        return False, None


def same_struct(a, b):
    if isinstance(a, bool) or isinstance(b, bool) or a is None or b is None:
        return a is b
    if isinstance(a, (int, float)) and isinstance(b, (int, float)):
        return float(a) == float(b) and (a != 0 or math.copysign(1, float(a)) == math.copysign(1, float(b)))
    if isinstance(a, str) and isinstance(b, str):
        return a == b
    if isinstance(a, list) and isinstance(b, list):
        return len(a) == len(b) and all(same_struct(x, y) for x, y in zip(a, b))
    if isinstance(a, dict) and isinstance(b, dict):
        return list(a.keys()) == list(b.keys()) and all(same_struct(a[k], b[k]) for k in a)
    return False


@groups.group(id="C19.struct", prop="C19", kind="K3", functions=["microjs.context:Context._create_json_object"])
def c19_struct(tier="quick", seed=0):
    from pyvc import structural as S
    import ast
    out = []
    p = _S_.unparse(S.fn("microjs.context", "Context._create_json_object.<parse_fn>"))
    out.append(ob("C19.struct.parse-rejects-constants", "parse_constant=reject_constant" in p and "raise ValueError" in p, "K3", "json.loads is called with a parse_constant hook that rejects NaN/Infinity"))
    out.append(ob("C19.struct.parse-errors-catchable", "except (ValueError, RecursionError)" in p and "raise JSSyntaxError" in p, "K3", "decoder failures become JSSyntaxError (converted to a script SyntaxError by the run loops)"))
    out.append(ob("C19.struct.parse-converts", "ctx._to_js(py_value)" in p, "K3", "the decoded value is converted with Context._to_js"))
    st = _S_.unparse(S.fn("microjs.context", "Context._create_json_object.<stringify_fn>"))
    out.append(ob("C19.struct.stringify-no-host-encoder", "json.dumps" not in st, "K3", "stringify does not delegate to the host encoder"))
    out.append(ob("C19.struct.stringify-cycle-error", "raise JSTypeError('Converting circular structure to JSON')" in st, "K3", "cycles raise a catchable TypeError"))
    out.append(ob("C19.struct.stringify-numbers-by-tostring", "return to_string(v)" in st, "K3", "numbers are printed by Number::toString (C18)"))
    ex = _S_.unparse(S.fn("microjs.vm", "VM._execute"))
    out.append(ob("C19.struct.syntaxerror-catchable", "except JSSyntaxError as e:" in ex and "self._handle_python_exception('SyntaxError', e.message)" in ex, "K3", "JSSyntaxError raised by a built-in becomes a script SyntaxError"))
    return out


@groups.group(id="C19.quote", prop="C19", kind="K4", functions=["microjs.context:Context._create_json_object.<quote_json>"])
def c19_quote(tier="quick", seed=0):
    """QuoteJSONString decided for every string: (K3) the real quoting function is a character-wise map -- one loop over
    the text, every path through its body appends exactly one piece that depends on the current character only, the
    result is the opening quote, the pieces in order and the closing quote -- and (K4) the piece of EVERY code point
    U+0000..U+FFFF, obtained through the real JSON.stringify, is the one ECMA-262 25.5.2.3 prescribes"""
    from pyvc import structural as S
    import ast
    from microjs import Context
    out = []
    # K3: character-wise structure
    why = None
    try:
        q = S.fn("microjs.context", "Context._create_json_object.<quote_json>")
        param = q.args.args[0].arg
        loops = [n for n in ast.walk(q) if isinstance(n, (ast.For, ast.While))]
        if len(loops) != 1 or not isinstance(loops[0], ast.For) or _S_.unparse(loops[0].iter) != param or not isinstance(loops[0].target, ast.Name):
            why = "not a single `for <ch> in <text>` loop"
        else:
            ch = loops[0].target.id

            def appends_once(stmts):
                """every path through stmts is exactly one  out.append(<expr over ch>)"""
                if len(stmts) != 1:
                    return False
                st = stmts[0]
                if isinstance(st, ast.If):
                    return bool(st.orelse) and appends_once(st.body) and appends_once(st.orelse) and names_ok(st.test)
                return (isinstance(st, ast.Expr) and isinstance(st.value, ast.Call) and _S_.unparse(st.value.func) == "out.append" and len(st.value.args) == 1
                        and names_ok(st.value.args[0]))

            consts = {n.targets[0].id for n in q.body if isinstance(n, ast.Assign) and isinstance(n.targets[0], ast.Name) and isinstance(n.value, (ast.Dict, ast.Constant))}

            def names_ok(e):
                return all(n.id in {ch, "ord", "chr", "hex", "format"} | consts for n in ast.walk(e) if isinstance(n, ast.Name))
            if not appends_once(loops[0].body):
                why = "a path through the loop body does not append exactly one piece computed from the current character"
            else:
                src = _S_.unparse(q)
                if "out = ['\"']" not in src or "out.append('\"')\n    return ''.join(out)" not in src:
                    why = "the pieces are not framed by the two quotes and joined in order"
                mut = [n for n in ast.walk(loops[0]) if isinstance(n, (ast.Assign, ast.AugAssign, ast.Delete)) or
                       (isinstance(n, ast.Call) and isinstance(n.func, ast.Attribute) and n.func.attr in ("pop", "insert", "clear", "extend", "remove", "__setitem__"))]
                if mut:
                    why = "the loop body changes state other than by appending"
    except KeyError:
        why = "quote_json not found"
    # (an unrecognised shape is not a violation: the K4 part then decides single characters only and the bounded grid the rest)
    out.append(ob("C19.quote.character-wise", why is None, "K3", "quote_json maps the text character by character" if why is None else f"shape not recognised: {why}", unknown=why is not None))
    # K4: the image of every code point
    ctx = Context()
    got = ctx.eval("var o = []; for (var cp = 0; cp < 65536; cp++) { o.push(JSON.stringify(String.fromCharCode(cp))); } o")
    pair = ctx.eval("[JSON.stringify('a' + String.fromCharCode(0xD800) + 'b'), JSON.stringify(String.fromCharCode(10, 34, 92, 0x1F, 0x20, 0x7F, 0xDFFF, 0xE000)), JSON.stringify('')]")
    bad = None
    for cp, g in enumerate(got):
        want = quote(chr(cp))
        if g != want and bad is None:
            bad = (cp, g, want)
    out.append(ob("C19.quote.every-code-unit", bad is None, "K4", "65536 single-character strings" if bad is None else f"JSON.stringify(String.fromCharCode({bad[0]})) = {bad[1]!r}, ECMAScript {bad[2]!r}",
                  witness=(f"JSON.stringify(String.fromCharCode({bad[0]}))" if bad else None), confirmed=True if bad else None, domain=65536))
    want3 = [quote("a\ud800b"), quote("\n\"\\\x1f \x7f\udfff\ue000"), '""']
    out.append(ob("C19.quote.framing", pair == want3, "K4", "pieces are concatenated in order between two quotes" if pair == want3 else f"{pair!r} expected {want3!r}",
                  witness="JSON.stringify('a\\ud800b')" if pair != want3 else None, confirmed=True if pair != want3 else None, domain=3))
    return out


def _chunk(args):
    kind, items = args
    from microjs import Context
    from microjs.errors import JSError
    bad = []
    c = Context(time_limit=10)
    for it in items:
        src = "?"
        try:
            if kind == "stringify":
                v, exp = it
                src = "JSON.stringify(" + js_literal(v) + ")"
                got = c.eval(src)
                want = exp
                ok = got == want
            elif kind == "roundtrip":
                v, exp = it
                src = "JSON.stringify(JSON.parse(" + _js_string(exp) + "))"
                got = c.eval(src)
                ok = got == exp
                want = exp
            elif kind == "parse":
                text, acc, val = it
                src = "var r; try { r = ['ok', JSON.parse(" + _js_string(text) + ")] } catch (e) { r = ['err', e.name, e instanceof SyntaxError] } r"
                got = c.eval(src)
                if acc:
                    ok = got[0] == "ok" and same_struct(got[1], val)
                    want = ["ok", val]
                else:
                    ok = got == ["err", "SyntaxError", True]
                    want = ["err", "SyntaxError", True]
            else:
                src, want = it
                got = c.eval(src)
                ok = got == want
        except JSError as e:
            got, ok, want = "JSError: " + str(e)[:80], False, "?"
        except Exception as e:  # noqa
            got, ok, want = "HOST " + type(e).__name__ + ": " + str(e)[:80], False, "?"
        if not ok:
            bad.append((src[:400], repr(got)[:200], repr(want)[:200]))
            if len(bad) > 3:
                break
    return kind, len(items), bad


FIXED = [
    ("JSON.stringify(undefined)", None), ("typeof JSON.stringify(function(){})", "undefined"), ("JSON.stringify(null)", "null"),
    ("JSON.stringify({a:undefined,b:function(){},c:1})", '{"c":1}'), ("JSON.stringify([undefined,function(){}])", "[null,null]"),
    ("var a=[]; a.push(a); var r; try { JSON.stringify(a) } catch (e) { r = [e.name, e instanceof TypeError] } r", ["TypeError", True]),
    ("var o={}; o.o={p:o}; var r; try { JSON.stringify(o) } catch (e) { r = e.name } r", "TypeError"),
    ("var s={v:1}; JSON.stringify([s,s,{x:s}])", '[{"v":1},{"v":1},{"x":{"v":1}}]'),
    ("var o={}; o.b=1; o.a=2; o.c=3; delete o.a; o.a=4; JSON.stringify(o)", '{"b":1,"c":3,"a":4}'),
    ("JSON.stringify({10:1, 2:2, b:3})", None),
    ("var r; try { JSON.parse('') } catch (e) { r = e.name } r", "SyntaxError"), ("var r; try { JSON.parse() } catch (e) { r = e.name } r", "SyntaxError"),
    ("JSON.parse('{\"a\":1,\"a\":2}').a", 2), ("JSON.parse(' [1 , 2 ] ').length", 2), ("JSON.parse('\"\\\\u00e9\"')", "é"), ("JSON.parse('1e400')", float("inf")),
    ("var r; try { JSON.parse('{\"a\":1,}') } catch (e) { r = e.name } r", "SyntaxError"), ("JSON.parse('12345678901234567890') === 12345678901234567000", True),
    ("JSON.stringify(JSON.parse('[1.0, 10, 1e2, -0, 0.10]'))", "[1,10,100,0,0.1]"),
    # a SyntaxError raised by JSON.parse inside a callback run by a built-in is caught where the script catches it
    ("[1, 2].map(function (x) { try { JSON.parse('{bad'); return 'no'; } catch (e) { return e.name + x; } }).join()", "SyntaxError1,SyntaxError2"),
    ("var n = 0; [1, 2, 3].forEach(function (x) { try { JSON.parse('[1,'); } catch (e) { n += x; } }); n", 6),
    ("[3, 1, 2].sort(function (a, b) { try { JSON.parse('}'); } catch (e) { return a - b; } return 0; }).join()", "1,2,3"),
    ("'ab'.replace(/./g, function (m) { try { JSON.parse(m); return '?'; } catch (e) { return e.name.length; } })", "1111"),
    ("var r = []; try { [1, 2].forEach(function (x) { r.push(x); JSON.parse('nope'); }); } catch (e) { r.push(e.name); } r.join()", "1,SyntaxError"),
    ("[1].map(function () { return JSON.stringify(JSON.parse('[[],[],{}]')); })[0]", "[[],[],{}]"),
    # shared (acyclic) parts are serialised at every occurrence; only real cycles are refused
    ("var e = []; JSON.stringify([e, e])", "[[],[]]"), ("var s = {x: []}; JSON.stringify([s, s])", '[{"x":[]},{"x":[]}]'),
    ("var e = {}; JSON.stringify({a: e, b: e, c: [e, [e]]})", '{"a":{},"b":{},"c":[{},[{}]]}'),
    ("var a = []; for (var i = 0; i < 300; i++) a.push([]); JSON.stringify(a).length", 901),
    ("var e = []; var o = {p: e, q: [e, {r: e}]}; JSON.stringify([o, o])", '[{"p":[],"q":[[],{"r":[]}]},{"p":[],"q":[[],{"r":[]}]}]'),
    ("var a = [[]]; a[0].push(a); var r; try { JSON.stringify(a); r = 'no'; } catch (e) { r = e.name; } r", "TypeError"),
]
# number texts: the parsed value is the double nearest to the text (never an exact big integer)
NUMBER_TEXTS = ["9007199254740992", "9007199254740993", "9007199254740995", "-9007199254740993", "9999999999999999", "99999999999999999", "123456789012345678", "1234567890123456789",
                "4503599627370497", "900719925474099", "18014398509481985", "1000000000000000128", "295147905179352830000", "0.30000000000000004", "1e21", "1e-7", "123e-20", "-0", "-0.0", "5e-324", "2e-324",
                "1.7976931348623157e308", "1.7976931348623159e308", "1e309", "0.1e1", "100e-2", "9007199254740993.0", "9007199254740993e0"]



@groups.group(id="C19.bounded", prop="C19", kind="B", functions=["microjs.context:Context._create_json_object"])
def c19_bounded(tier="quick", seed=0):
    import multiprocessing as mp
    r = random.Random(seed)
    n = 1500 if tier == "quick" else 20000
    vals = [gen_value(r, 4) for _ in range(n)]
    strg = [(v, es_stringify(v)) for v in vals]
    strg = [(v, (e if e is not None else None)) for v, e in strg]
    jvals = [gen_value(r, 4, allow_undef=False) for _ in range(n)]
    rt = []
    for v in jvals:
        e = es_stringify(v)
        if e is not None:
            rt.append((v, e))
    texts = [gen_text(r, 3) for _ in range(n)]
    near = [mutate(r, t) for t in texts]
    pcases = []
    for t in texts + near:
        acc, val = py_accepts(t)
        pcases.append((t, acc, val))
    fixed = [(s, w) for s, w in FIXED if w is not None or s.startswith("JSON.stringify(undefined)")]
    import specs.es_core as CORE
    for t in NUMBER_TEXTS:
        x = float(t)
        for wrap in ("%s", "[%s]", '{"k": %s}'):
            txt = wrap % t
            sel = {"%s": "v", "[%s]": "v[0]", '{"k": %s}': "v.k"}[wrap]
            fixed.append((f"var v = JSON.parse({_js_string(txt)}); var n = {sel}; [typeof n, String(n), n === Number({_js_string(t)}), JSON.stringify(n), n % 2 === 1 && n > 9007199254740992]",
                          ["number", CORE.number_to_string(x), True, "null" if x in (float("inf"), float("-inf")) else CORE.number_to_string(x), False]))
    jobs = []
    for kind, items in (("stringify", strg), ("roundtrip", rt), ("parse", pcases), ("fixed", fixed)):
        for i in range(8):
            jobs.append((kind, items[i::8]))
    with mp.get_context("fork").Pool(16) as pool:
        res = pool.map(_chunk, jobs)
    out = []
    for kind in ("stringify", "roundtrip", "parse", "fixed"):
        cnt = sum(n for k, n, b in res if k == kind)
        bad = [x for k, n, b in res if k == kind for x in b]
        out.append(ob(f"C19.bounded.{kind}", not bad, "B", f"{cnt} cases" if not bad else f"{bad[0][0][:120]} -> {bad[0][1]} expected {bad[0][2]}",
                      witness=(bad[0][0] if bad else None), confirmed=True if bad else None, domain=cnt))
    return out


@groups.group(id="C19.struct.process-state", prop="C19", kind="K3", functions=["microjs (module-level state)"])
def c19_process_state(tier="quick", seed=0):
    """parse builds fresh values and stringify depends on its argument only: no table of shared results (the analysis of C12)"""
    from contracts.C12_context import process_state
    return process_state("C19", tier, seed)


@groups.group(id="C19.bounded.fresh-results", prop="C19", kind="B", functions=["microjs.context:Context._create_json_object.<parse_fn>"])
def c19_fresh(tier="quick", seed=0):
    """every JSON.parse builds its own value: changing one result never shows in a later parse of the same text -- in the
    same evaluation, in a later one, in another context -- and stringify of a value reflects its current content"""
    import json as _j
    from microjs import Context
    texts = ["[]", "{}", "[[]]", "{\"a\":[]}", "[1]", "{\"a\":1}", "[[],[]]", "[{}]", " [] ", "[\n]", "{\"k\":{}}", "null", "0", "\"\"", "true", "[null]"]
    bad = None
    n = 0
    c1, c2 = Context(time_limit=10), Context(time_limit=10)
    for t in texts:
        canon = _j.dumps(_j.loads(t), separators=(",", ":"))
        tj = _j.dumps(t)
        mutate = ("function M(v) { if (v !== null && typeof v === 'object') { if (Array.isArray(v)) { v.push('X'); } v.zz = 1; for (var k in v) { M(v[k]); } } return v; } ")
        progs = [(c1, mutate + f"var a = JSON.parse({tj}); M(a); var b = JSON.parse({tj}); JSON.stringify(b) + '|' + (a !== b || typeof a !== 'object' || a === null)"),
                 (c1, f"JSON.stringify(JSON.parse({tj}))"), (c2, f"JSON.stringify(JSON.parse({tj}))"),
                 (c1, mutate + f"var x = JSON.parse({tj}), y = JSON.parse({tj}); M(x); JSON.stringify(y)")]
        wants = [canon + "|true", canon, canon, canon]
        for (ctx, src), want in zip(progs, wants):
            n += 1
            try:
                got = ctx.eval(src)
            except Exception as e:  # noqa
                got = "!" + type(e).__name__ + ": " + str(e)[:60]
            if got != want and bad is None:
                bad = (src, got, want)
    return [ob("C19.bounded.fresh-results", bad is None, "B", f"{n} parse-mutate-parse sequences" if bad is None else f"{bad[0][-160:]} -> {bad[1]!r}, expected {bad[2]!r}",
               witness=(bad[0] if bad else None), confirmed=True if bad else None, domain=n)]


# ---- fixed probes (known deviations are listed in /verif/known_findings.json and reported as KNOWN-FINDING) ------------------
PROBES_C19 = [('stringify-accessor-property', 'JSON.stringify({a: 1, get b() { return 2 }})', '{"a":1,"b":2}'), ('stringify-toJSON', 'JSON.stringify({toJSON: function () { return 5 }})', '5')]
groups.register_probes("C19", PROBES_C19)


PROBES_C19 += [
    ("parse-negative-zero", "[1 / JSON.parse('-0'), 1 / JSON.parse('[-0]')[0], 1 / JSON.parse('0'), 1 / JSON.parse('-0.0')].join()", "-Infinity,-Infinity,Infinity,-Infinity"),
]


# ---- bounded: the replacer, indent and reviver arguments (25.5.2 / 25.5.1) ----------------------------------------------------
def es_stringify_full(v, gap="", allow=None, repl=None, key="", indent=""):
    """SerializeJSONProperty with a gap, a PropertyList and a replacer given as a Python function (key, value) -> value"""
    if repl is not None:
        v = repl(key, v)
    if v == UNDEF or v == FUNC:
        return None
    if v is None or v is True or v is False or isinstance(v, (int, float, str)):
        return es_stringify(v)
    inner = indent + gap

    def layout(o, parts, c):
        if not parts:
            return o + c
        if not gap:
            return o + ",".join(parts) + c
        return o + "\n" + inner + (",\n" + inner).join(parts) + "\n" + indent + c
    if isinstance(v, list):
        return layout("[", [es_stringify_full(x, gap, allow, repl, str(i), inner) or "null" for i, x in enumerate(v)], "]")
    parts = []
    for k in ([k for k in allow if k in v] if allow is not None else list(v)):
        t = es_stringify_full(v[k], gap, allow, repl, k, inner)
        if t is not None:
            parts.append(quote(k) + (": " if gap else ":") + t)
    return layout("{", parts, "}")


def _json_args_chunk(args):
    import random
    from microjs import Context
    seed, n = args
    r = random.Random(seed)
    c = Context(time_limit=30)
    bad = []
    cnt = 0
    gaps = [("undefined", ""), ("0", ""), ("1", " "), ("2", "  "), ("4", "    "), ("10", " " * 10), ("25", " " * 10), ("-3", ""), ("2.9", "  "), ("'\\t'", "\t"), ("'--'", "--"), ("'abcdefghijklmno'", "abcdefghij"), ("''", ""),
            ("null", ""), ("undefined", ""), ("true", ""), ("NaN", ""), ("({})", "")]
    repls = [
        ("function (k, v) { return typeof v === 'number' ? v * 2 : v }", lambda k, v: v * 2 if isinstance(v, (int, float)) and not isinstance(v, bool) else v),
        ("function (k, v) { return k === 'a' ? undefined : v }", lambda k, v: UNDEF if k == "a" else v),
        ("function (k, v) { return typeof v === 'string' ? v + '!' : v }", lambda k, v: v + "!" if isinstance(v, str) else v),
        ("function (k, v) { return k === '0' ? 'first' : v }", lambda k, v: "first" if k == "0" else v),
        ("function (k, v) { return v === null ? 0 : v }", lambda k, v: 0 if v is None else v),
    ]
    for i in range(n):
        v = gen_value(r, 3, allow_undef=True)
        lit = js_literal(v)
        gj, gap = r.choice(gaps)
        mode = r.randrange(3)
        if mode == 0:
            src, want = f"JSON.stringify({lit}, null, {gj})", es_stringify_full(v, gap)
        elif mode == 1:
            keys = r.sample(["a", "b", "c", "k", "0", "1", "zz", "a"], r.randint(0, 5))
            kl = "[" + ", ".join((k if k.isdigit() and r.random() < 0.5 else repr(k)) for k in keys) + "]"
            allow = []
            for k in keys:
                if k not in allow:
                    allow.append(k)
            src, want = f"JSON.stringify({lit}, {kl}, {gj})", es_stringify_full(v, gap, allow=allow)
        else:
            fj, fp = r.choice(repls)
            src, want = f"JSON.stringify({lit}, {fj}, {gj})", es_stringify_full(v, gap, repl=fp)
        cnt += 1
        try:
            got = c.eval(src)
        except BaseException as e:  # noqa
            got = f"!{type(e).__name__}: {e}"[:100]
            c = Context(time_limit=30)
        if got != want and len(bad) < 3:
            bad.append((src, got, want))
    return cnt, bad


@groups.group(id="C19.bounded.arguments", prop="C19", kind="B", functions=["microjs.context:Context._create_json_object.<stringify_fn>", "microjs.context:Context._create_json_object.<parse_fn>"])
def c19_arguments(tier="quick", seed=0):
    """JSON.stringify(value, replacer, space) over generated values with every kind of space (numbers clamped to 10, strings cut
    to 10, anything else ignored), key lists (order of the list, duplicates dropped, numbers as keys) and replacer functions,
    against SerializeJSONProperty; JSON.parse(text, reviver): order of the calls, holder as this, undefined deletes"""
    import multiprocessing as mp
    from microjs import Context
    n = 150 if tier == "quick" else 4000
    with mp.get_context("fork").Pool(8) as pool:
        rs = pool.map(_json_args_chunk, [(seed * 977 + i, n) for i in range(8)])
    bad = [b for _, bs in rs for b in bs]
    tot = sum(k for k, _ in rs)
    out = [ob("C19.bounded.arguments.stringify", not bad, "B", f"{tot} (value, replacer, space) cases" if not bad else f"{bad[0][0][:160]} -> {bad[0][1]!r}, ECMAScript {bad[0][2]!r}",
              witness=(bad[0][0] if bad else None), confirmed=True if bad else None, domain=tot)]
    revs = [
        ("JSON.stringify(JSON.parse('[1,2,{\"a\":3}]', function (k, v) { return typeof v === 'number' ? v + 1 : v }))", '[2,3,{"a":4}]'),
        ("JSON.stringify(JSON.parse('{\"a\":1,\"b\":2}', function (k, v) { return k === 'a' ? undefined : v }))", '{"b":2}'),
        ("var ks = []; JSON.parse('{\"a\":[1,2],\"b\":{\"c\":3}}', function (k, v) { ks.push(k); return v }); ks.join()", "0,1,a,c,b,"),
        ("JSON.parse('1', function (k, v) { return v + 1 })", 2),
        ("JSON.stringify(JSON.parse('[1,2]', function (k, v) { return k === '0' ? undefined : v }))", "[null,2]"),
        ("JSON.stringify(JSON.parse('{\"a\":1}', 5))", '{"a":1}'),
        ("var hs = []; JSON.parse('{\"a\":{\"b\":1}}', function (k, v) { hs.push(k + ':' + (typeof this) + ':' + (this[k] === v)); return v }); hs.join()", "b:object:true,a:object:true,:object:true"),
        ("JSON.stringify(JSON.parse('{\"a\":1,\"b\":[1,{\"c\":2}]}', function (k, v) { return Array.isArray(v) ? v.length : v }))", '{"a":1,"b":2}'),
        ("var r; try { JSON.parse('[1]', function () { throw new RangeError('stop') }) } catch (e) { r = e.name + e.message } r", "RangeErrorstop"),
        ("var ks = []; JSON.stringify({a: {b: 1}, c: [2]}, function (k, v) { ks.push(k + ':' + (this[k] === v)); return v }); ks.join()", ":true,a:true,b:true,c:true,0:true"),
        ("JSON.stringify({a: {toJSON: function () { return 7 }}}, function (k, v) { return v === 7 ? 'seven' : v })", '{"a":"seven"}'),
        # a reviver that changes the holder it is called on
        ("JSON.stringify(JSON.parse('[1,2,3]', function (k, v) { if (k === '0') this.length = 1; return v }))", "[1]"),
        ("JSON.stringify(JSON.parse('{\"a\":[1,2]}', function (k, v) { if (k === '0') this.shift(); return v }))", '{"a":[1]}'),
        ("JSON.stringify(JSON.parse('[1,2,3]', function (k, v) { if (k === '0') this.pop(); return v }))", "[1,2]"),
        ("JSON.stringify(JSON.parse('{\"a\":[1,2]}', function (k, v) { if (k === '0') this.length = 0; return v }))", '{"a":[1]}'),
        ("JSON.stringify(JSON.parse('[[1,2],3]', function (k, v) { if (k === '0' && Array.isArray(this[0])) this.length = 0; return v }))", "[[1,2]]"),
        ("JSON.stringify(JSON.parse('[1,2]', function (k, v) { if (k === '0') this.push(9); return v }))", "[1,2,9]"),
        ("JSON.stringify(JSON.parse('{\"a\":1,\"b\":2}', function (k, v) { if (k === 'a') delete this.b; return v }))", '{"a":1}'),
    ]
    for i, (src, want) in enumerate(revs):
        try:
            got = Context(time_limit=10).eval(src)
        except BaseException as e:  # noqa
            got = f"!{type(e).__name__}: {e}"[:100]
        out.append(ob(f"C19.bounded.arguments.case-{i:02d}", got == want, "B", f"{src[:100]} => {got!r}" + ("" if got == want else f" (ES: {want!r})"), witness=None if got == want else src, confirmed=None if got == want else True, domain=1))
    return out
